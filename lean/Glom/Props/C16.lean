import Glom.Lemmas.C16F10
import Glom.Lemmas.C16Heap
import Glom.Lemmas.C16State
import Glom.Model.C16Env
/-
  C16 — Group builds exactly the buckets and aggregates of a hand-written loop.

  Property theorems only; helper lemmas are in `Glom/Lemmas/C16*.lean`.

  `groupEval g items` is the model of `glom(items, Group(g))`: Group.glomit's item loop
  around the GROUP dispatcher, threading the one accumulator tree whose keys are
  id(spec) ints, spec objects and bucket keys all in one namespace, with the STOP marks
  and the `done` flag (Glom/Model/C16.lean).  `valOfTop g items` is the dictionary a
  hand-written bucketing loop builds (Glom/Spec/C16.lean).  The theorems are for ALL
  spec trees (any number of key levels, Limit / First / Sample / aggregator classes at any
  depth, nested Groups), ALL item sequences of any length and all key / value functions of
  the catalogue (T-expression chains, class objects, lambdas).

  FULL STATEMENT (what the property says):
      ∀ g items, wfRun g items → groupEval g items = .ok (valOfTop g items)
  with `valOfTop` the hand-written loop, defined for EVERY item list (no knowledge of what glom
  returns over nothing).  It is FALSE for the code that exists: `c16_F9_counterexample`,
  `c16_F10_counterexample` and `c16_empty_counterexample` disprove it on concrete inputs on which
  the real glom behaves exactly as the model (the correspondence runs the witnesses on every
  check).

  What is proved instead says EXACTLY what the code computes:
      `c16_exact`:  groupEval g items = .ok (implTop g items)
  — `implOf` over the items before the first STOP event (`cutEvent`), `emptyOf g` over nothing — under
      H2' `slotApart`  : no bucket key equals id() of its spec dict — the tree keeps ids,
                         spec objects and bucket keys in one dict (F10; `c16_F10_exact`);
      `noSkipBelow`    : no SKIP from a bare function / nested Group below a key level (the code
                         wipes the bucket's sub-tree after a SKIP result: known finding
                         `skip_below_key_level`, characterised by agreement with the model only);
      `wfRun`          : no user function raises, keys hashable, aggregators meet operands they
                         handle IN THEIR BUCKET (the runs the property talks about).
  The property holds on a run iff `implTop` is the hand-written loop's value
  (`c16_holds_iff_cut_invariant`), in particular (`c16_eq_reference_partial`) when
      H1'' `eventFree` : no STOP EVENT — First, Limit(n), STOP-producing functions may be
                         anywhere as long as they do not fire — also in nested Groups,
      no SKIP leaf, no nested Group over nothing, and not over nothing at the top unless an empty
      container / None is what the loop gives there;
  and with a top-level `Limit(n)`, n ≥ 1 / `First` (`c16_top_limit`, `c16_top_first`).  F9 is the
  case of a STOP event that matters; `empty_or_limit0` the case of `emptyOf` / `Limit(0)` / a
  bucket whose leaf says STOP at once (`c16_empty`).
-/
namespace Glom.Props.C16
open Glom.C16

/-- **Facts obligation** (re-checked on every run): the statements of Group.glomit, GROUP,
    First/Avg/Max/Min/Sample.agg, Limit.glomit/__init__, Fold._agg, Merge._agg and the aggregator
    entry of Fold.glomit, regenerated from /repo's source, are exactly the statements the model
    transcribes; the aggregator classes keep no state of their own (`__slots__`); grouping.py has no
    module-level binding besides its two sentinels and no `global` statement (nothing to remember
    anything in between two calls of GROUP / two evaluations); every arithmetic arm of `_t_eval`
    rebinds `cur` to the value of an expression (no augmented assignment). -/
theorem c16_facts_wf : genWF = true := by decide

/-- **What Group computes, exactly** (H2', no SKIP leaf below a key level): for every spec tree,
    every item sequence — the dictionary of the hand-written bucketing loop (keys in order of
    first occurrence, values in encounter order, SKIP drops an item, every leaf equal to its
    Python reference over the items routed to it) over the items BEFORE THE FIRST STOP EVENT.
    This is the behaviour behind known finding F9, as a theorem: any other deviation from the
    hand-written loop is not the model's. -/
theorem c16_exact (g : GSpec) (items : List V)
    (hwf : wfRun g items = true) (h2 : slotApart g items = true) (hns : noSkipBelow false g items = true) :
    groupEval g items = .ok (implTop g items) :=
  groupEval_exact g items ⟨hwf, h2, hns⟩

/-- **the property holds on a run exactly when the cut makes no difference**: the observation
    passes the comparison with the hand-written loop iff `implTop g items` and `valOfTop g items`
    are the same value -/
theorem c16_holds_iff_cut_invariant (g : GSpec) (items : List V)
    (hwf : wfRun g items = true) (h2 : slotApart g items = true) (hns : noSkipBelow false g items = true) :
    (observe (groupEval g items) == .ok (valOfTop g items)) = veq (implTop g items) (valOfTop g items) := by
  rw [groupEval_exact g items ⟨hwf, h2, hns⟩]; rfl

/-- **Group = the hand-written bucketing loop** (partial: H1'', H2').  For every spec tree, every
    item sequence on which nothing says STOP (First, Limit(n), STOP-producing functions may be
    anywhere in the spec — they just do not fire — also in nested Groups), no bare function /
    nested Group yields SKIP, no nested Group runs over nothing, and the run itself is not over
    nothing unless an empty container / None is what the loop gives: keys in order of first
    occurrence, values in encounter order, SKIP drops an item, every leaf equals its Python
    reference over the items routed to it. -/
theorem c16_eq_reference_partial (g : GSpec) (items : List V)
    (hwf : wfRun g items = true) (h2 : slotApart g items = true) (hns : noSkipBelow true g items = true)
    (h1 : eventFree g items = true) (h1n : nestedFree g items = true)
    (hem : items = [] → emptyOf g = valOfTop g []) :
    groupEval g items = .ok (valOfTop g items) :=
  groupEval_spec g items ⟨hwf, h2, hns⟩ h1 h1n hem

/-- the step form of the same fact: with the tree the earlier items left, one more item
    yields the code's value over all items so far and the tree of all items so far — so a
    sub-tree is exactly the state of the items routed to that bucket (no carry-over
    between buckets) — or STOP, exactly when the hand-written loop is told STOP -/
theorem c16_step (g : GSpec) (below : Bool) (its : List V) (x : V)
    (hwf : wfRun g (its ++ [x]) = true) (h2 : slotApart g (its ++ [x]) = true)
    (hns : noSkipBelow below g (its ++ [x]) = true) (hef : eventFree g its = true) :
    (stopsAt g its x = false →
      gstep g x (treeOf g its) = .ok (implOf g (its ++ [x]), treeOf g (its ++ [x]))) ∧
    (stopsAt g its x = true → ∃ t, gstep g x (treeOf g its) = .ok (.stop, t)) :=
  gstep_both g below its x ⟨hwf, h2, hns⟩ hef

/-- **per-bucket independence**: the result of a key level is the bucket map of the hand-written
    loop, and the entry under key `k` is the reference of the value spec over exactly the items
    whose key equals `k` (Python key equality), in encounter order — `routed key k items` -/
theorem c16_bucket_lookup (id kid : Nat) (key : Fn) (sub : GSpec) (items : List V)
    (hwf : wfRun (.dict id kid key sub) items = true) (h2 : slotApart (.dict id kid key sub) items = true)
    (hns : noSkipBelow true (.dict id kid key sub) items = true)
    (h1 : eventFree (.dict id kid key sub) items = true) (h1n : nestedFree (.dict id kid key sub) items = true) :
    groupEval (.dict id kid key sub) items = .ok (.dict ((buckets key items).map (fun b => (b.1, refOf sub b.2)))) ∧
    ∀ k, dget ((buckets key items).map (fun b => (b.1, refOf sub b.2))) k =
      if (routed key k items).isEmpty then none else some (refOf sub (routed key k items)) := by
  refine ⟨?_, fun k => dget_buckets key (refOf sub) items k⟩
  rw [groupEval_spec _ items ⟨hwf, h2, hns⟩ h1 h1n (fun _ => rfl)]
  congr 1
  rw [valOfTop, refOf_dict id kid key sub items ⟨hwf, h2, hns⟩ h1 h1n]
  rfl

/-- … so items routed to OTHER buckets do not matter: two runs that route the same items to `k`
    (whatever else they contain, in whatever order) have the same entry under `k` -/
theorem c16_bucket_independent (id kid : Nat) (key : Fn) (sub : GSpec) (items items' : List V) (k : V)
    (hwf : wfRun (.dict id kid key sub) items = true) (h2 : slotApart (.dict id kid key sub) items = true)
    (hns : noSkipBelow true (.dict id kid key sub) items = true)
    (h1 : eventFree (.dict id kid key sub) items = true) (h1n : nestedFree (.dict id kid key sub) items = true)
    (hwf' : wfRun (.dict id kid key sub) items' = true) (h2' : slotApart (.dict id kid key sub) items' = true)
    (hns' : noSkipBelow true (.dict id kid key sub) items' = true)
    (h1' : eventFree (.dict id kid key sub) items' = true) (h1n' : nestedFree (.dict id kid key sub) items' = true)
    (hsame : routed key k items = routed key k items') :
    ∃ es es', groupEval (.dict id kid key sub) items = .ok (.dict es) ∧
      groupEval (.dict id kid key sub) items' = .ok (.dict es') ∧ dget es k = dget es' k := by
  obtain ⟨e1, l1⟩ := c16_bucket_lookup id kid key sub items hwf h2 hns h1 h1n
  obtain ⟨e2, l2⟩ := c16_bucket_lookup id kid key sub items' hwf' h2' hns' h1' h1n'
  exact ⟨_, _, e1, e2, by rw [l1 k, l2 k, hsame]⟩

/-- **top-level Limit(n)**, n ≥ 1, over at least one item: `sub` over the first `n` items.
    (`Limit(0)` / no item: `c16_empty`.) -/
theorem c16_top_limit (oid n : Nat) (sub : GSpec) (items : List V) (hn : n ≠ 0) (hne : items ≠ [])
    (hwf : wfRun sub items = true) (h2 : slotApart sub items = true) (hns : noSkipBelow true sub items = true)
    (h1 : eventFree sub items = true) (h1n : nestedFree sub items = true) :
    groupEval (.limit oid n sub) items = .ok (valOfTop sub (items.take n)) :=
  limit_spec oid n sub items hn hne ⟨hwf, h2, hns⟩ h1 h1n

/-- **top-level First**: the first item (None when there is none) -/
theorem c16_top_first (oid : Nat) (items : List V) (hp : ∀ x ∈ items, isStop x = false ∧ isSkip x = false) :
    groupEval (.agg oid .first) items = .ok (items.head?.getD .none) :=
  first_spec oid items hp

/-- **over nothing, and `Limit(0)`** — what the code computes where the hand-written loop still has an
    answer (known finding `empty_or_limit0`): over no items the result is `emptyOf g` (an empty
    dict / list for a dict / list spec, None for everything else, whatever the loop would give:
    0 for Sum / Count, [] for Flatten / `[f]` under a Limit, {} for Merge); `Limit(0, sub)` is None
    over any items. -/
theorem c16_empty (g : GSpec) (oid : Nat) (items : List V) :
    groupEval g [] = .ok (emptyOf g) ∧ groupEval (.limit oid 0 g) items = .ok .none := by
  refine ⟨rfl, ?_⟩
  cases items with
  | nil => rfl
  | cons x xs => simp [groupEval, groupLoop, loopWith, gstep, limitState, dget, isStop, emptyOf]

/-- **Sample(size)** with its random source as a parameter (`tbl`: `random.randint(0, n)` is
    `draw tbl n`): the result is the reservoir of the hand-written loop — for EVERY table — so it
    holds `min size n` of the items, only items, and all of them while they fit -/
theorem c16_sample (oid size : Nat) (tbl : List Nat) (items : List V) :
    groupEval (.agg oid (.sample size tbl)) items =
      .ok (if items.isEmpty then .none else .list (refSample size tbl items).2) ∧
    (refSample size tbl items).2.length = min size items.length ∧
    (∀ v ∈ (refSample size tbl items).2, v ∈ items) ∧
    (items.length ≤ size → (refSample size tbl items).2 = items) := by
  refine ⟨?_, refSample_length size tbl items, refSample_mem size tbl items, refSample_small size tbl items⟩
  cases items with
  | nil => rfl
  | cons y ys =>
    rw [groupEval_spec _ (y :: ys) ⟨rfl, rfl, rfl⟩ (sample_eventFree oid size tbl _) rfl (fun h => by cases h)]
    rfl

/-- **Checker theorem** — the form in which the property is evaluated on the implementation's
    observations by the correspondence driver: for every HISTORY of evaluations in one process
    (any spec objects, any target objects, in any order, any number of times) in which each
    evaluation is covered, the model's own observations pass: the result is the hand-written
    loop's, the target is what it was. -/
theorem c16_model_checks (specs : List GSpec) (targets : List (List V)) (evals : List (Nat × Nat))
    (hidx : ∀ e ∈ evals, e.1 < specs.length ∧ e.2 < targets.length)
    (h : ∀ e ∈ evals, ∀ g its, specs[e.1]? = some g → targets[e.2]? = some its →
      wfRun g its = true → covered g its = true) :
    checkC16 specs targets evals (observeHistory specs targets evals) = true :=
  check_model specs targets evals hidx h

/-- **nothing is carried from one evaluation to the next** — with the state OUTSIDE the accumulator
    tree made explicit (`Model/C16State.lean`): for EVERY value of the extracted state facts that is
    `quiet` (only constructors write attributes of the Group / aggregator / Limit / Fold objects, no
    function of grouping.py / reduction.py writes a module-level name, there is no mutable
    module-level or class-level binding, no mutable default argument), every history of
    evaluations — any Group objects on any targets, in any order, the same object any number of
    times, nested in other specs (`gidOf`) — leaves the state as it was and every evaluation in it
    is the stand-alone evaluation.  (`c16_facts_wf`: the facts extracted from /repo ARE quiet.) -/
theorem c16_history_independent (sf : StateFacts) (hq : sf.quiet = true) (gidOf : Nat → Nat)
    (specs : List GSpec) (targets : List (List V)) (evals : List (Nat × Nat)) :
    evalHistoryS sf gidOf specs targets evals [] = (evalHistory specs targets evals, []) :=
  evalHistoryS_quiet hq gidOf specs targets evals

/-- … instantiated with the facts regenerated from /repo -/
theorem c16_history_independent_repo (gidOf : Nat → Nat) (specs : List GSpec) (targets : List (List V))
    (evals : List (Nat × Nat)) :
    evalHistoryS genStateFacts gidOf specs targets evals [] = (evalHistory specs targets evals, []) :=
  evalHistoryS_quiet (by decide) gidOf specs targets evals

-- the hypothesis is forced: with a dispatcher that remembers something in a module-level table it also
-- reads (seeded change s8: GROUP and `_SPEC_KINDS`) no evaluation has a stand-alone meaning any
-- more; with a counter in `Limit.glomit` (`self.n -= 1`) neither.  (It is sufficient, not necessary: a
-- write to a cell nothing reads — a call counter `self.calls` — leaves every result what it was,
-- but not the state.)
example : let sf : StateFacts := ⟨[("Group.__init__", "spec")], [("GROUP", "_SPEC_KINDS")], [("grouping", "_SPEC_KINDS")], []⟩
    sf.quiet = false ∧
    (match (evalHistoryS sf id [.agg 0 .count, .agg 0 .count] [[.int 1]] [(0, 0), (1, 0)] []).1 with
      | [none, none] => true
      | _ => false) = true := by
  decide
example : let sf : StateFacts := ⟨[("Group.__init__", "spec"), ("Group.glomit", "calls")], [], [], []⟩
    sf.quiet = false ∧
    (match evalHistoryS sf id [.agg 0 .count] [[.int 1]] [(0, 0), (0, 0)] [] with
      | ([some (.ok v), some (.ok w)], [_, _]) => veq v (.int 1) && veq w (.int 1)
      | _ => false) = true := by
  decide
example : let sf : StateFacts := ⟨[("Limit.__init__", "n"), ("Limit.glomit", "n")], [], [], []⟩
    sf.quiet = false ∧
    (match (evalHistoryS sf id [.limit 7 2 (.agg 0 .count)] [[.int 1]] [(0, 0)] []).1 with
      | [none] => true
      | _ => false) = true := by
  decide

/-! ### the target is not touched: T-expressions on a store of mutable cells -/

open Glom.C16.Heap in
/-- **evaluating a T-expression never writes an existing object** and computes what the
    value-level model (`tEval`, used by `gstep`) says: on every acyclic store, for every chain of
    subscriptions and arithmetic operators — every cell that existed is what it was (the store only
    grows: `+`, `*`, `|` allocate), every element denotes the value it denoted, and the result
    denotes `tEval ops` of the value of the operand.  (This is why an evaluation is a function of
    the VALUES of the items, and why the checker may demand the target back unchanged.) -/
theorem c16_texpr_frame (ops : List TOp) (st st' : Store) (cur cur' : Elem)
    (hac : acyclic st) (hcur : elemLt st.length cur) (h : tEvalH st cur ops = .ok (st', cur')) :
    (∀ a, a < st.length → st'[a]? = st[a]?) ∧
    (∀ e, elemLt st.length e → valE st' e = valE st e) ∧
    tEval ops (valE st cur) = .ok (valE st' cur') := by
  have := tEvalH_refines ops st cur hac hcur
  rw [h] at this
  obtain ⟨hv, ⟨ex, rfl⟩, _⟩ := this
  exact ⟨fun a ha => List.getElem?_append_left ha, fun e he => valE_ext hac ex he, hv⟩

open Glom.C16.Heap in
/-- … and it fails exactly when the value-level evaluation fails -/
theorem c16_texpr_error (ops : List TOp) (st : Store) (cur : Elem) (e : Err)
    (hac : acyclic st) (hcur : elemLt st.length cur) (h : tEvalH st cur ops = .error e) :
    tEval ops (valE st cur) = .error e := by
  have := tEvalH_refines ops st cur hac hcur
  rw [h] at this
  exact this

open Glom.C16.Heap in
-- the loop with AUGMENTED assignment (`cur += arg`, what `c16_facts_wf` excludes) does write the
-- operand: `T + [9]` on the item `[1]` leaves the item `[1, 9]`
example : ∃ st' cur', tstepInPlace [.list [.imm (.int 1)]] (.ref 0) (.add (.list [.int 9])) = .ok (st', cur') ∧
    st'[0]? = some (.list [.imm (.int 1), .imm (.int 9)]) := ⟨_, _, rfl, rfl⟩
open Glom.C16.Heap in
-- … the loop that exists allocates: the item is still `[1]`, the result is the new cell 1
example : tstep [.list [.imm (.int 1)]] (.ref 0) (.add (.list [.int 9])) =
    .ok ([.list [.imm (.int 1)], .list [.imm (.int 1), .imm (.int 9)]], .ref 1) := rfl
open Glom.C16.Heap in
-- non-vacuity: an acyclic store with a shared sub-list (cell 0 occurs in cells 1 and 2)
example : acyclic [.list [.imm (.int 4)], .dict [(.str "w", .ref 0)], .dict [(.str "w", .ref 0)]] := by
  intro a cell h
  match a, h with
  | 0, h => simp at h; subst h; intro e he; simp at he; subst he; trivial
  | 1, h => simp at h; subst h; intro e he; simp at he; subst he; exact Nat.zero_lt_one
  | 2, h => simp at h; subst h; intro e he; simp at he; subst he; exact Nat.zero_lt_two
  | n + 3, h => simp at h

/-! ### the full statement is false: the two known defects, in the model -/

/-- F9 — `glom([0, 2, 1], Group({T % 2: First()}))`.  A hand-written loop gives `{0: 0, 1: 1}`;
    the code gives `{0: 0}`: when the bucket of key 0 says STOP on its second item, the STOP
    travels up to Group.glomit, which returns what it had: bucket 1 never sees an item.
    H2' holds, H1'' fails; `implTop` is what comes out (`c16_exact`). -/
theorem c16_F9_counterexample :
    let g : GSpec := .dict 0 1 (.mod 2) (.agg 2 .first)
    let items : List V := [.int 0, .int 2, .int 1]
    wfRun g items = true ∧ keysApart g items = true ∧ eventFree g items = false ∧
    (observe (groupEval g items) == .ok (.dict [(.int 0, .int 0)])) = true ∧
    (implTop g items == .dict [(.int 0, .int 0)]) = true ∧
    (valOfTop g items == .dict [(.int 0, .int 0), (.int 1, .int 1)]) = true ∧
    checkC16 [g] [items] [(0, 0)] (observeHistory [g] [items] [(0, 0)]) = false := by
  decide

/-- F10 — `spec = {}; spec[lambda t: id(spec) if t == 2 else t] = [T]; glom([1, 2, 3], Group(spec))`.
    A hand-written loop gives `{1: [1], id(spec): [2], 3: [3]}`; the code gives
    `{id(the [T] list): [2], 3: [3]}`: the bucket key `id(spec)` lands in the tree slot that
    holds the level's own `acc` dict, `tree[key] = {}` replaces it, and from the next item on
    the bucket's SUB-TREE is taken for `acc` (item 1 is lost, a foreign key appears).
    H1'' holds, H2' fails.  (The source carries a TODO for it.) -/
theorem c16_F10_counterexample :
    let g : GSpec := .dict 0 1 (.idIf (.int 2) 0) (.list 2 .ident)
    let items : List V := [.int 1, .int 2, .int 3]
    wfRun g items = true ∧ eventFree g items = true ∧ slotApart g items = false ∧
    (observe (groupEval g items) == .ok (.dict [(idKey 2, .list [.int 2]), (.int 3, .list [.int 3])])) = true ∧
    (valOfTop g items ==
      .dict [(.int 1, .list [.int 1]), (idKey 0, .list [.int 2]), (.int 3, .list [.int 3])]) = true ∧
    checkC16 [g] [items] [(0, 0)] (observeHistory [g] [items] [(0, 0)]) = false := by
  decide

/-- `empty_or_limit0` — `glom([], Group(Sum()))` is None, the hand-written loop gives 0;
    `glom([0, 1], Group(Limit(0)))` is None, the loop gives `[]`; `Group({T % 2: Limit(0, [T])})`
    over `[0, 1]` is `{}`, the loop gives `{0: [], 1: []}`.  H1'' fails only for the Limit(0) runs
    (its bound is reached at once); H2' holds. -/
theorem c16_empty_counterexample :
    let sum : GSpec := .agg 0 (.sum .ident)
    let lim0 : GSpec := .limit 1 0 (.list 0 .ident)
    let g : GSpec := .dict 2 3 (.mod 2) lim0
    let items : List V := [.int 0, .int 1]
    wfRun sum [] = true ∧ (observe (groupEval sum []) == .ok .none) = true ∧ (valOfTop sum [] == .int 0) = true ∧
    (observe (groupEval lim0 items) == .ok .none) = true ∧ (valOfTop lim0 items == .list []) = true ∧
    (observe (groupEval g items) == .ok (.dict [])) = true ∧
    (valOfTop g items == .dict [(.int 0, .list []), (.int 1, .list [])]) = true ∧
    checkC16 [sum, lim0, g] [[], items] [(0, 0), (1, 1), (2, 1)]
      (observeHistory [sum, lim0, g] [[], items] [(0, 0), (1, 1), (2, 1)]) = false := by
  decide

/-- **known finding F10, exactly** (a key level at the top, one colliding item):
    `items = pre ++ [c] ++ post`, the key of `c` is `id(spec dict)`, no other key is; no STOP event
    before / after; the keys of `post` are not keys of the colliding bucket's sub-tree.  If `c` is the
    LAST item the result is the hand-written loop's.  Otherwise it is the entries of the SUB-TREE of
    `c`'s bucket (`treeOf sub [c]`: the accumulators of the value spec after `c` alone, keyed by
    id() / spec object) followed by the buckets of `post` ALONE: everything grouped before `c`,
    and `c`'s own bucket, are gone.  Any other outcome of such a run is not the model's. -/
theorem c16_F10_exact (id kid : Nat) (key : Fn) (sub : GSpec) (pre post : List V) (c : V)
    (hwf : wfRun (.dict id kid key sub) (pre ++ c :: post) = true)
    (hwfpost : wfRun (.dict id kid key sub) post = true)
    (hkc : key.val c = idKey id)
    (hsa : ∀ y ∈ pre ++ post, keyEq (idKey id) (key.val y) = false)
    (hsasub : slotApart sub (pre ++ c :: post) = true)
    (hns : noSkipBelow true sub (pre ++ c :: post) = true)
    (hefpre : eventFree (.dict id kid key sub) (pre ++ [c]) = true)
    (hefpost : eventFree (.dict id kid key sub) post = true)
    (ha0 : ∀ y ∈ post, dhas (treeOf sub [c]) (key.val y) = false) :
    groupEval (.dict id kid key sub) (pre ++ c :: post) =
      .ok (if post.isEmpty then
             .dict ((buckets key pre).map (fun b => (b.1, implOf sub b.2)) ++ [(idKey id, implOf sub [c])])
           else .dict (treeOf sub [c] ++ (buckets key post).map (fun b => (b.1, implOf sub b.2)))) :=
  f10_exact id kid key sub pre post c hwf hwfpost hkc hsa hsasub hns hefpre hefpost ha0

/-! ### non-vacuity: concrete non-trivial inputs meet every hypothesis -/

-- the F10 witness meets the hypotheses of `c16_F10_exact` (pre = [1], c = 2, post = [3]): the theorem
-- applies to it, and its closed form is the observed `{id(the [T] list): [2], 3: [3]}`
example : groupEval (.dict 0 1 (.idIf (.int 2) 0) (.list 2 .ident)) ([.int 1] ++ .int 2 :: [.int 3]) =
    .ok (.dict (treeOf (.list 2 .ident) [.int 2] ++
        (buckets (.idIf (.int 2) 0) [.int 3]).map (fun b => (b.1, implOf (.list 2 .ident) b.2)))) :=
  c16_F10_exact 0 1 (.idIf (.int 2) 0) (.list 2 .ident) [.int 1] [.int 3] (.int 2) (by decide) (by decide) rfl
    (by intro y hy; simp at hy; rcases hy with rfl | rfl <;> rfl) (by decide) (by decide) (by decide) (by decide)
    (by intro y hy; simp at hy; subst hy; rfl)
example : (V.dict (treeOf (.list 2 .ident) [.int 2] ++
      (buckets (.idIf (.int 2) 0) [.int 3]).map (fun b => (b.1, implOf (.list 2 .ident) b.2))) ==
    .dict [(idKey 2, .list [.int 2]), (.int 3, .list [.int 3])]) = true := by decide
-- with the collision LAST the result is the hand-written loop's
example : (observe (groupEval (.dict 0 1 (.idIf (.int 2) 0) (.list 2 .ident)) [.int 1, .int 2]) ==
    .ok (valOfTop (.dict 0 1 (.idIf (.int 2) 0) (.list 2 .ident)) [.int 1, .int 2])) = true := by decide

/-- `Group({T % 2: {T % 3: [T]}})`: two key levels -/
private def exSpec : GSpec := .dict 0 1 (.mod 2) (.dict 2 3 (.mod 3) (.list 4 .ident))
private def exItems : List V := [.int 1, .int 2, .int 3, .int 4, .int 7, .int 8]

example : wfRun exSpec exItems = true ∧ slotApart exSpec exItems = true ∧ noSkipBelow false exSpec exItems = true ∧
    eventFree exSpec exItems = true := by
  decide
example : (valOfTop exSpec exItems ==
    .dict [(.int 1, .dict [(.int 1, .list [.int 1, .int 7]), (.int 0, .list [.int 3])]),
           (.int 0, .dict [(.int 2, .list [.int 2, .int 8]), (.int 1, .list [.int 4])])]) = true := by decide
-- SKIP-producing key function, aggregator leaf
example : let g : GSpec := .dict 0 1 (.keySkip 3) (.agg 2 .max)
    wfRun g exItems = true ∧ eventFree g exItems = true ∧ slotApart g exItems = true ∧
    (valOfTop g exItems == .dict [(.int 1, .int 7), (.int 2, .int 8)]) = true := by decide
-- covered STOP sources: at the top, and below key levels where they do not fire / do not matter
example : covered (.limit 9 2 exSpec) exItems = true ∧ covered (.agg 0 .first) exItems = true := by decide
example : (valOfTop (.limit 9 2 exSpec) exItems ==
    .dict [(.int 1, .dict [(.int 1, .list [.int 1])]), (.int 0, .dict [(.int 2, .list [.int 2])])]) = true := by decide
example : let g : GSpec := .dict 0 1 (.mod 2) (.limit 5 3 (.list 2 .ident))      -- Limit(3) below a key level
    eventFree g exItems = true ∧ covered g exItems = true ∧
    (valOfTop g exItems == .dict [(.int 1, .list [.int 1, .int 3, .int 7]), (.int 0, .list [.int 2, .int 4, .int 8])]) = true := by
  decide
example : let g : GSpec := .dict 0 1 (.const (.str "k")) (.agg 2 .first)        -- First under a one-bucket key level
    eventFree g exItems = false ∧ covered g exItems = true := by decide
-- a bucket key that IS the key-spec object: H2 (`keysApart`) fails, H2' holds, the run is covered
example : let g : GSpec := .dict 0 1 (.objIf (.int 2) 1) (.list 2 .ident)
    keysApart g exItems = false ∧ covered g exItems = true := by decide
-- re-use of one spec object on two item lists, a second spec object (an aggregator CLASS) in between:
-- every evaluation of the history is covered, and the history passes the checker
example : covered exSpec exItems = true ∧ covered exSpec [.int 5, .int 6] = true ∧
    covered (.agg 0 .clsLast) exItems = true ∧ covered (.agg 0 .clsLast) [.int 5, .int 6] = true := by decide
example : checkC16 [exSpec, .agg 0 .clsLast] [exItems, [.int 5, .int 6]] [(0, 0), (1, 1), (0, 1), (0, 0)]
    (observeHistory [exSpec, .agg 0 .clsLast] [exItems, [.int 5, .int 6]] [(0, 0), (1, 1), (0, 1), (0, 0)]) = true := by
  decide
-- a Group as the SUBSPEC of a Fold-family leaf (`Group({len: Merge(Group({T % 2: Sum()}))})`,
-- `Group(Sum(Group(Count())))`): the inner Group is a fresh grouping of each item — its own Sum / Count
-- leaves aggregate (Group.glomit resets the CUR_AGG tripwire the outer Fold set) — the runs are covered
example : let inner : GSpec := .dict 10 11 (.mod 2) (.agg 12 (.sum .ident))
    let g : GSpec := .dict 0 1 .len (.foldG 2 .merge 1 inner)
    let batches : List V := [.list [.int 1, .int 2, .int 3], .list [.int 4, .int 5], .list [.int 6, .int 8, .int 10]]
    covered g batches = true ∧ wfRun g batches = true ∧
    (valOfTop g batches == .dict [(.int 3, .dict [(.int 1, .int 4), (.int 0, .int 24)]),
                                  (.int 2, .dict [(.int 0, .int 4), (.int 1, .int 5)])]) = true ∧
    covered (.foldG 2 .sum 1 (.agg 12 .count)) batches = true ∧
    (valOfTop (.foldG 2 .sum 1 (.agg 12 .count)) batches == .int 8) = true := by decide
-- a top-level First needs items that are not the sentinels themselves: Group(First()) on [STOP] is None
example : (observe (groupEval (.agg 0 .first) [.stop]) == .ok .none) = true ∧
    wfRun (.agg 0 .first) [.stop] = false := by decide

end Glom.Props.C16
