import Glom.Lemmas.C06
import Glom.Generated.C06Facts
/-
  C06 — Non-mutating specs are pure: outcome independent of history.

  Property theorems only.  The theorems are for every parse function, every
  uncached handler lookup, every `_MAX_CACHE`, every call (an arbitrary adaptive
  strategy over the two kinds of queries a call can make of the library's shared
  state), and every finite history of calls, PATH_STAR toggles and
  registrations.

  *partial*: the "inputs untouched" half of the property is carried by the
  interpreter model by construction (its values are immutable) and by the
  correspondence (deep snapshots before/after on the real objects); it is not a
  heap-level frame theorem.
-/
namespace Glom.Props.C06
open Glom.C06

variable {P H O R : Type}

/-- **Facts obligation** (regenerated from /repo on every run): `Path.from_text` is the
    check / overflow-bypass / store / return sequence modelled by `fromText`, keyed per PATH_STAR;
    `get_handler` memoises under `(type, op)`; `register` and `register_op` reset the memo. -/
theorem c06_facts_wf :
    Glom.Generated.fromTextShape =
      ["cache = cls._CACHE[PATH_STAR]",
       "if text not in cache: ;     if len(cache) > cls._MAX_CACHE: ;         return create() ;     cache[text] = create()",
       "return cache[text]"] ∧
    Glom.Generated.pathCacheInit = "{True: {}, False: {}}" ∧
    Glom.Generated.createUsesPathStar = true ∧
    Glom.Generated.getHandlerShape =
      ["cache_key = (obj_type, op)", "if cache_key not in self._type_cache",
       "return self._type_cache[cache_key]", "self._type_cache[cache_key] = ret"] ∧
    Glom.Generated.memoResetBy = [("register", true), ("register_op", true)] := by
  decide

/-- **The path cache never changes an answer**: under the invariant, `Path.from_text` returns the
    fresh parse — on a hit, on a miss, and on the overflow branch — and re-establishes the
    invariant; the cache holds at most `_MAX_CACHE + 1` entries per PATH_STAR value. -/
theorem c06_path_cache (parse : Bool → String → P) (maxCache : Nat) (star : Bool) (c : PathCache P)
    (text : String) (hinv : PathInv parse c) (hs : SizeOK maxCache c) :
    (fromText parse maxCache star c text).1 = parse star text ∧
    PathInv parse (fromText parse maxCache star c text).2 ∧
    SizeOK maxCache (fromText parse maxCache star c text).2 :=
  ⟨(fromText_spec parse maxCache star c text hinv).1, (fromText_spec parse maxCache star c text hinv).2,
   fromText_size parse maxCache star c text hs⟩

/-- **The handler memo never changes an answer** and is consistent with the registrations in
    force (a lookup that raises is not memoised). -/
theorem c06_handler_memo (compute : String × String → Option H) (hc : HCache H) (key : String × String)
    (hinv : HInv compute hc) :
    (getHandler compute hc key).1 = compute key ∧ HInv compute (getHandler compute hc key).2 :=
  getHandler_spec compute hc key hinv

/-- **A call behaves as if there were no caches**: whatever the cache contents (warm, cold,
    overflowing), every answer it gets, hence its outcome, is the cache-free one; PATH_STAR and the
    registrations are not changed by a call. -/
theorem c06_call_pure (parse : Bool → String → P) (compute : R → String × String → Option H) (maxCache : Nat)
    (strat : Strategy P H O) (fuel : Nat) (w : World P H R) (hinv : WorldInv parse compute w) :
    (runCached parse compute maxCache strat fuel w []).1 = runPure parse compute strat w.pathStar w.reg fuel [] ∧
    WorldInv parse compute (runCached parse compute maxCache strat fuel w []).2 :=
  ⟨(runCached_spec parse compute maxCache strat fuel w [] hinv).1,
   (runCached_spec parse compute maxCache strat fuel w [] hinv).2.1⟩

/-- **History independence.**  For every finite history of calls, PATH_STAR toggles and
    registrations, started from any world satisfying the invariant, the outcome of every call is
    the reference one: a function of the call, the PATH_STAR value and the registrations in force
    when it is made — never of which calls came before, how often, or what the caches contain. -/
theorem c06_history (parse : Bool → String → P) (compute : R → String × String → Option H) (maxCache : Nat) :
    ∀ (hist : List (HOp P H O R)) (w : World P H R), WorldInv parse compute w →
      (runHistory parse compute maxCache w hist).1 = refHistory parse compute w.pathStar w.reg hist ∧
      WorldInv parse compute (runHistory parse compute maxCache w hist).2 := by
  intro hist
  induction hist with
  | nil => intro w hinv; exact ⟨rfl, hinv⟩
  | cons op rest ih =>
    intro w hinv
    have hstep := stepWorld_inv (O := O) parse compute maxCache w op hinv
    cases op with
    | call strat fuel =>
      have hc := runCached_spec parse compute maxCache strat fuel w [] hinv
      have hrest := ih (runCached parse compute maxCache strat fuel w []).2 hc.2.1
      simp only [runHistory, stepWorld, refHistory]
      rw [hc.2.2.1, hc.2.2.2] at hrest
      exact ⟨by rw [hrest.1, hc.1], hrest.2⟩
    | setStar b =>
      have hrest := ih { w with pathStar := b } hinv
      simp only [runHistory, stepWorld, refHistory]
      exact hrest
    | register f =>
      have hrest := ih { w with reg := f w.reg, hc := [] } hstep
      simp only [runHistory, stepWorld, refHistory]
      exact hrest

/-- the initial world (empty caches) satisfies the invariant: the theorems apply to every
    reachable state of the library -/
theorem c06_init_inv (parse : Bool → String → P) (compute : R → String × String → Option H) (reg : R) :
    WorldInv parse compute ({ reg := reg } : World P H R) ∧ SizeOK 0 ({} : PathCache P) := by
  refine ⟨⟨?_, ?_⟩, ?_⟩
  · intro b k v hm; cases b <;> simp [PathCache.get] at hm
  · intro k h hm; cases hm
  · intro b; cases b <;> simp [PathCache.get]

/-- **Warming the caches changes nothing.**  Whatever calls were made before (the same call, other
    calls, 10 000 distinct paths …), a call's outcome is the one it has in a world without caches:
    in particular repeating a call gives the same outcome, and the first call in a fresh interpreter
    gives the same outcome as the n-th call in a long-running one. -/
theorem c06_after_any_calls (parse : Bool → String → P) (compute : R → String × String → Option H) (maxCache : Nat)
    (strat : Strategy P H O) (fuel : Nat) (before : List (Strategy P H O × Nat)) (w : World P H R)
    (hinv : WorldInv parse compute w) :
    (runHistory parse compute maxCache w
        (before.map (fun c => (HOp.call c.1 c.2 : HOp P H O R)) ++ [.call strat fuel])).1 =
      before.map (fun c => runPure parse compute c.1 w.pathStar w.reg c.2 []) ++
        [runPure parse compute strat w.pathStar w.reg fuel []] := by
  rw [(c06_history parse compute maxCache _ w hinv).1]
  induction before with
  | nil => simp [refHistory]
  | cons c r ih => simp only [List.map_cons, List.cons_append, refHistory, ih]

/-! ### non-vacuity: a concrete strategy, a warm and an overflowing cache -/

private def parse0 (star : Bool) (_t : String) : Bool := star

private def strat0 : Strategy Bool Nat (Bool × Option Nat) := fun answers =>
  match answers with
  | [] => .inl (.path "a.*")
  | [.path _] => .inl (.handler "dict" "get")
  | [.path p, .handler h] => .inr (p, h)
  | _ => .inr (false, none)

example : (runHistory (R := Nat) parse0 (fun reg _ => some reg) 0 { reg := 7 }
    [.call strat0 5, .call strat0 5, .setStar false, .call strat0 5, .register (· + 1), .setStar true,
     .call strat0 5]).1 =
    [some (true, some 7), some (true, some 7), some (false, some 7), some (true, some 8)] := by decide

example : WorldInv (H := Nat) (R := Nat) parse0 (fun reg _ => some reg) { reg := 7 } :=
  (c06_init_inv parse0 _ 7).1

end Glom.Props.C06
