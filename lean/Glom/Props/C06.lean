import Glom.Lemmas.C06
import Glom.Generated.C06Facts
/-
  C06 — Non-mutating specs are pure: outcome independent of history.

  Property theorems only.  The theorems are for every parse function, every
  uncached handler lookup, every `_MAX_CACHE`, every call (an arbitrary adaptive
  strategy over the two kinds of queries a call can make of the library's shared
  state), and every finite history of calls, PATH_STAR toggles and
  registrations — on any of the registries a process holds (module-level,
  one per Glommer), of any type: in particular of a *base* of a type whose
  handler an earlier call has memoised (`c06_lookup_register_lookup`,
  `c06_register_base_wins`).

  `Vars`: `c06_vars_*` — on a heap of dict objects, evaluating a spec that
  holds `Vars(<dict>, **defaults)` writes only the ScopeVars object created
  for that evaluation; the dict the spec (and the caller) holds is unchanged,
  and every evaluation reads what the value-level reference gives, whatever
  earlier evaluations wrote.

  Registrations: the concrete registry `TReg` has `exact=True` registrations and virtual (ABC)
  bases; `c06_register_candidate_wins`, `c06_register_abc_wins`, `c06_register_exact_self`,
  `c06_register_exact_not_inherited` and the lookup–register–lookup histories
  `c06_register_exact_history`, `c06_register_abc_history`.

  "Inputs untouched" on a heap with object identity (`Model/C06Heap.lean`): `c06_tarith_frame`,
  `c06_tarith_cells`, `c06_tarith_fresh`, `c06_spec_frame`, `c06_spec_fresh`, `c06_calls_frame`,
  `c06_view_preserved`, `c06_outcome_heap_independent`, `c06_repeat_same`, `c06_arith_checker`;
  facts obligation `c06_facts_arith_binary`.

  *partial*: the frame theorem covers T expressions (item steps and all arithmetic operators),
  `arg_val`, dict / list / tuple specs, `Coalesce` and `Vars`; for the other constructs (user
  callables, Call / Invoke, Fold / Group accumulators, Match, Iter, S-rooted expressions) "inputs
  untouched" is carried by the correspondence (deep snapshots, structure and identity, before /
  after on the real objects).  That a *repeated* evaluation returns an equal value is proved for
  the caches (`c06_history`) and, for the constructs of the heap model, as invariance of the
  evaluation under relocation of the objects it creates (`c06_repeat_same`); the two models are
  not composed into one (a heap-model call makes no cache query).
-/
namespace Glom.Props.C06
open Glom.C06

variable {P H O R : Type}

/-- **Facts obligation** (regenerated from /repo on every run): `Path.from_text` is the
    check / overflow-bypass / store / return sequence modelled by `fromText`, keyed per PATH_STAR;
    `get_handler` memoises under `(type(obj), op)` — the exact type — and is, in execution order:
    key; on a miss the guard `if ret is False and raise_exc: raise UnregisteredTarget` *before* the
    store; then the read from the memo, the same guard again (a remembered `False` raises as well),
    the return — what `getHandler` does; `register` and `register_op`
    reset the memo wholesale as their last unconditional step (a new dict or `.clear()`: either is a
    reset *provided the memo is the only place a looked-up handler is kept*: `c06_facts_memo_only`);
    `Vars.glomit` builds a `ScopeVars` from the spec's mapping and
    `ScopeVars.__init__` copies it (`dict(base)`, then `update(defaults)`) as `scopeVarsInit` does. -/
theorem c06_facts_wf :
    Glom.Generated.fromTextShape =
      ["cache = cls._CACHE[PATH_STAR]",
       "if text not in cache: ;     if len(cache) > cls._MAX_CACHE: ;         return create() ;     cache[text] = create()",
       "return cache[text]"] ∧
    Glom.Generated.pathCacheInit = "{True: {}, False: {}}" ∧
    Glom.Generated.createUsesPathStar = true ∧
    Glom.Generated.getHandlerShape =
      ["cache_key = (obj_type, op)", "if cache_key not in self._type_cache {", "guard", "store", "}",
       "read", "guard", "return"] ∧
    Glom.Generated.memoResetBy.map (·.1) = ["register", "register_op"] ∧
    Glom.Generated.memoResetBy.all (fun r => r.2 == "self._type_cache = {}" || r.2 == "self._type_cache.clear()") = true ∧
    Glom.Generated.memoKeyType = "obj_type = type(obj)" ∧
    Glom.Generated.scopeVarsInitShape = ["self.__dict__ = dict(base)", "self.__dict__.update(defaults)"] ∧
    Glom.Generated.varsGlomitShape = ["return ScopeVars(self.base, self.defaults)"] := by
  decide

/-- **Facts obligation: the memo that `register` resets is the only place a looked-up handler is
    kept.**  No function of glom (core, grouping, mutation, streaming, reduction, matching) stores a
    handler obtained from `get_handler` in an attribute, a global, or a container that the call did
    not create (flow analysis of every function: `extract/facts/c06.py`), and nothing but
    `TargetRegistry.__init__` / `get_handler` / `register` / `register_op` touches `_type_cache` —
    so the world of the model (`World.hc`, reset by `HOp.register`) is all the handler state there
    is.  A second memo keyed on anything `register` does not reset (for instance on the identity of
    the `_type_cache` dict, which `.clear()` keeps) shows up here. -/
theorem c06_facts_memo_only :
    Glom.Generated.handlerStoredOutsideMemo = [] ∧ Glom.Generated.memoTouchedOutsideRegistry = [] := by
  decide

/-- **Facts obligation: T arithmetic uses Python's binary operators.**  Every arithmetic branch of
    `_t_eval` is the single statement `cur = cur <op> arg` (`cur = <op>cur`): the *binary* operator,
    which builds a new object for every builtin container — what `aBin` of the heap model does
    (`c06_tarith_frame`).  An augmented assignment (`cur += arg`), a dispatch through
    `operator.iadd` / `ior` …, or a dispatch table the extractor cannot read fails here. -/
theorem c06_facts_arith_binary :
    Glom.Generated.tArithForms =
      [("+", "cur = cur + arg"), ("-", "cur = cur - arg"), ("*", "cur = cur * arg"), ("#", "cur = cur // arg"),
       ("/", "cur = cur / arg"), ("%", "cur = cur % arg"), (":", "cur = cur ** arg"), ("&", "cur = cur & arg"),
       ("|", "cur = cur | arg"), ("^", "cur = cur ^ arg"), ("~", "cur = ~cur"), ("_", "cur = -cur")] := by
  decide

/-- **The path cache never changes an answer**: under the invariant, `Path.from_text` returns the
    fresh parse — on a hit, on a miss, and on the overflow branch — and re-establishes the
    invariant; the cache holds at most `_MAX_CACHE + 1` entries per PATH_STAR value. -/
theorem c06_path_cache (parse : Bool → String → P) (maxCache : Nat) (star : Bool) (c : PathCache P)
    (text : String) (hinv : PathInv parse c) (hs : SizeOK maxCache c) :
    (fromText parse maxCache star c text).1 = parse star text ∧
    PathInv parse (fromText parse maxCache star c text).2 ∧
    SizeOK maxCache (fromText parse maxCache star c text).2 :=
  ⟨(fromText_spec parse maxCache star c text hinv).1, (fromText_spec parse maxCache star c text hinv).2,
   fromText_size parse maxCache star c text hs⟩

/-- **The handler memo never changes an answer** and is consistent with the registrations in
    force (a lookup that raises is not memoised). -/
theorem c06_handler_memo (compute : String × String → Option H) (hc : HCache H) (key : String × String)
    (raiseExc : Bool) (hinv : HInv compute hc) :
    (getHandler compute hc key raiseExc).1 = compute key ∧ HInv compute (getHandler compute hc key raiseExc).2 :=
  getHandler_spec compute hc key raiseExc hinv

/-- **A call behaves as if there were no caches**: whatever the cache contents (warm, cold,
    overflowing), every answer it gets, hence its outcome, is the cache-free one; PATH_STAR and the
    registrations are not changed by a call. -/
theorem c06_call_pure (parse : Bool → String → P) (compute : R → String × String → Option H) (maxCache : Nat)
    (strat : Strategy P H O) (fuel : Nat) (w : World P H R) (hinv : WorldInv parse compute w) :
    (runCached parse compute maxCache strat fuel w []).1 = runPure parse compute strat w.pathStar w.reg fuel [] ∧
    WorldInv parse compute (runCached parse compute maxCache strat fuel w []).2 :=
  ⟨(runCached_spec parse compute maxCache strat fuel w [] hinv).1,
   (runCached_spec parse compute maxCache strat fuel w [] hinv).2.1⟩

/-- **History independence.**  For every finite history of calls, PATH_STAR toggles and
    registrations, started from any world satisfying the invariant, the outcome of every call is
    the reference one: a function of the call, the PATH_STAR value and the registrations in force
    when it is made — never of which calls came before, how often, or what the caches contain. -/
theorem c06_history (parse : Bool → String → P) (compute : R → String × String → Option H) (maxCache : Nat) :
    ∀ (hist : List (HOp P H O R)) (w : World P H R), WorldInv parse compute w →
      (runHistory parse compute maxCache w hist).1 = refHistory parse compute w.pathStar w.reg hist ∧
      WorldInv parse compute (runHistory parse compute maxCache w hist).2 := by
  intro hist
  induction hist with
  | nil => intro w hinv; exact ⟨rfl, hinv⟩
  | cons op rest ih =>
    intro w hinv
    have hstep := stepWorld_inv (O := O) parse compute maxCache w op hinv
    cases op with
    | call strat fuel =>
      have hc := runCached_spec parse compute maxCache strat fuel w [] hinv
      have hrest := ih (runCached parse compute maxCache strat fuel w []).2 hc.2.1
      simp only [runHistory, stepWorld, refHistory]
      rw [hc.2.2.1, hc.2.2.2] at hrest
      exact ⟨by rw [hrest.1, hc.1], hrest.2⟩
    | setStar b =>
      have hrest := ih { w with pathStar := b } hinv
      simp only [runHistory, stepWorld, refHistory]
      exact hrest
    | register rg f =>
      have hrest := ih { w with reg := setAt w.reg rg (f (w.reg rg)), hc := setAt w.hc rg [] } hstep
      simp only [runHistory, stepWorld, refHistory]
      exact hrest

/-- the initial world (empty caches) satisfies the invariant: the theorems apply to every
    reachable state of the library -/
theorem c06_init_inv (parse : Bool → String → P) (compute : R → String × String → Option H) (reg : Nat → R) :
    WorldInv parse compute ({ reg := reg } : World P H R) ∧ SizeOK 0 ({} : PathCache P) := by
  refine ⟨⟨?_, ?_⟩, ?_⟩
  · intro b k v hm; cases b <;> simp [PathCache.get] at hm
  · intro rg k h hm; cases hm
  · intro b; cases b <;> simp [PathCache.get]

/-- **Warming the caches changes nothing.**  Whatever calls were made before (the same call, other
    calls, 10 000 distinct paths …), a call's outcome is the one it has in a world without caches:
    in particular repeating a call gives the same outcome, and the first call in a fresh interpreter
    gives the same outcome as the n-th call in a long-running one. -/
theorem c06_after_any_calls (parse : Bool → String → P) (compute : R → String × String → Option H) (maxCache : Nat)
    (strat : Strategy P H O) (fuel : Nat) (before : List (Strategy P H O × Nat)) (w : World P H R)
    (hinv : WorldInv parse compute w) :
    (runHistory parse compute maxCache w
        (before.map (fun c => (HOp.call c.1 c.2 : HOp P H O R)) ++ [.call strat fuel])).1 =
      before.map (fun c => runPure parse compute c.1 w.pathStar w.reg c.2 []) ++
        [runPure parse compute strat w.pathStar w.reg fuel []] := by
  rw [(c06_history parse compute maxCache _ w hinv).1]
  induction before with
  | nil => simp [refHistory]
  | cons c r ih => simp only [List.map_cons, List.cons_append, refHistory, ih]

/-- the reference of a lookup–register–lookup history, spelled out: the second lookup answers
    with the registrations *after* the `register`, the first with those before -/
theorem c06_lookup_register_lookup (parse : Bool → String → P) (compute : R → String × String → Option H)
    (maxCache : Nat) (rg : Nat) (f : R → R) (ty op : String) (w : World P H R) (hinv : WorldInv parse compute w) :
    (runHistory parse compute maxCache w
        [.call (lookup1 rg ty op) 2, .register rg f, .call (lookup1 rg ty op) 2]).1 =
      [some (compute (w.reg rg) (ty, op)), some (compute (f (w.reg rg)) (ty, op))] := by
  rw [(c06_history parse compute maxCache _ w hinv).1]
  simp [refHistory, runPure, lookup1, setAt, ansOf_true]

/-- **A lookup made with `raise_exc=False` never changes what a raising lookup does.**  From any
    state of the memo that is consistent with the registrations — in particular one that holds a
    `False` stored by an earlier `raise_exc=False` lookup of the same `(type, op)`, which every
    invariant world may (`c06_history` keeps the invariant through such lookups) — two direct
    lookups in a row, with any values of `raise_exc`, each show what the registrations give: the
    handler, else UnregisteredTarget (`raise_exc=True`) or `False` (`raise_exc=False`). -/
theorem c06_quiet_then_raising_lookup (parse : Bool → String → P) (compute : R → String × String → Option H)
    (maxCache : Nat) (rg : Nat) (ty op : String) (rx1 rx2 : Bool)
    (w : World P H R) (hinv : WorldInv parse compute w) :
    (runHistory parse compute maxCache w [.call (lookupX rg ty op rx1) 2, .call (lookupX rg ty op rx2) 2]).1 =
      [some (lookupRef rx1 (compute (w.reg rg) (ty, op))), some (lookupRef rx2 (compute (w.reg rg) (ty, op)))] := by
  rw [(c06_history parse compute maxCache _ w hinv).1]
  cases hc : compute (w.reg rg) (ty, op) <;> cases rx1 <;> cases rx2 <;>
    simp [refHistory, runPure, lookupX, ansOf, lookupRef, hc]

/-- the code before 8b51f6e: after a `raise_exc=False` lookup of a type without handler, the raising
    lookup of the same key *returns* `False` (the caller then calls `False(...)`: TypeError) instead
    of raising UnregisteredTarget — the second check in `get_handler` is forced -/
theorem c06_memo_false_counterexample :
    let c : String × String → Option Nat := fun _ => none
    let s1 := (getHandlerOld (P := Unit) c [] ("int", "iterate") false).2
    (getHandlerOld (P := Unit) c s1 ("int", "iterate") true).1 = Answer.noHandler ∧
    ansOf (P := Unit) true (getHandler c (getHandler c [] ("int", "iterate") false).2 ("int", "iterate") true).1 =
      Answer.handler none := by
  refine ⟨rfl, rfl⟩

/-- **A registration wins for every type whose nearest registered candidate it is** (concrete
    registry: types with their MRO and their virtual bases).  `X` is among the candidates of a
    lookup of `op` for exact type `sub` — in its MRO, or an ABC it is a virtual subclass of — and
    no candidate before `X` has a handler for `op`; the registration is not `exact=True`, or `X`
    is `sub` itself.  Then after `register(X, op=h)` the uncached lookup is `h`. -/
theorem c06_register_candidate_wins (r : TReg) (X sub op : String) (kw : List (String × Tag)) (h : Tag)
    (exact : Bool) (hex : exact = false ∨ X = sub)
    (hk : assocGet kw op = some h) (hx : X ∈ r.candidates sub op)
    (hbefore : ∀ c, c ∈ (r.candidates sub op).takeWhile (· != X) → assocGet r.entries (c, op) = none) :
    (r.register X kw exact).compute (sub, op) = some h := by
  have hf := firstRegistered_register r.entries r.fuzzy X kw op h hk sub exact hex (r.candidates sub op) hx hbefore
  show (match firstRegistered (handlerVia (newEntries r.entries X kw ++ r.entries)
      (if exact then r.fuzzy else (regOps kw).map (fun op => (X, op)) ++ r.fuzzy) sub op) (r.candidates sub op) with
    | some h => some h
    | none => if r.nodefault.contains (sub, op) then none else some "default") = some h
  rw [hf]

/-- **Registering a base type wins over the default for its subclasses**: when `X` is in the MRO
    of `sub` and no type before `X` in that MRO has a handler for `op`, then after
    `register(X, op=h)` the uncached lookup for an object of exact type `sub` is `h`. -/
theorem c06_register_base_wins (r : TReg) (X sub op : String) (kw : List (String × Tag)) (h : Tag)
    (hk : assocGet kw op = some h) (hx : X ∈ r.mroOf sub)
    (hbefore : ∀ c, c ∈ (r.mroOf sub).takeWhile (· != X) → assocGet r.entries (c, op) = none) :
    (r.register X kw).compute (sub, op) = some h := by
  apply c06_register_candidate_wins r X sub op kw h false (Or.inl rfl) hk
  · exact List.mem_append_left _ hx
  · intro c hc
    apply hbefore c
    unfold TReg.candidates at hc
    rwa [takeWhile_append_of_mem _ _ _ X hx (by simp)] at hc

/-- **Registering an ABC wins for its virtual subclasses**: `sub` is a virtual subclass of `A`
    (`A.register(sub)`, `A.__subclasshook__`, a `collections.abc` class: `A` is not in the MRO of
    `sub`), the lookup of `op` falls back to virtual bases (`virtOf`), and neither a type of the
    MRO of `sub` nor an earlier virtual base has a handler for `op`.  Then after
    `register(A, op=h)` the uncached lookup for an instance of `sub` is `h`. -/
theorem c06_register_abc_wins (r : TReg) (A sub op : String) (kw : List (String × Tag)) (h : Tag)
    (hk : assocGet kw op = some h) (hx : A ∈ r.virtOf sub op)
    (hmro : ∀ c, c ∈ r.mroOf sub → assocGet r.entries (c, op) = none)
    (hvirt : ∀ c, c ∈ (r.virtOf sub op).takeWhile (· != A) → assocGet r.entries (c, op) = none) :
    (r.register A kw).compute (sub, op) = some h := by
  apply c06_register_candidate_wins r A sub op kw h false (Or.inl rfl) hk
  · exact List.mem_append_right _ hx
  · intro c hc
    unfold TReg.candidates at hc
    rcases List.mem_append.mp ((List.takeWhile_sublist _).subset hc) with hm | hv
    · exact hmro c hm
    · by_cases hA : A ∈ r.mroOf sub
      · rw [takeWhile_append_of_mem _ _ _ A hA (by simp)] at hc
        exact hmro c ((List.takeWhile_sublist _).subset hc)
      · have hall : ∀ x, x ∈ r.mroOf sub → (x != A) = true := by
          intro x hxm
          simp only [bne_iff_ne, ne_eq]
          intro hh; subst hh; exact hA hxm
        rw [List.takeWhile_append_of_pos hall] at hc
        rcases List.mem_append.mp hc with hm | hv'
        · exact hmro c hm
        · exact hvirt c hv'

/-- **`exact=True` registers the type itself**: after `register(X, op=h, exact=True)` the uncached
    lookup for an object of exact type `X` is `h` (`type_map[type(obj)]` comes first). -/
theorem c06_register_exact_self (r : TReg) (X op : String) (kw : List (String × Tag)) (h : Tag)
    (hk : assocGet kw op = some h) (hhead : (r.mroOf X).head? = some X) :
    (r.register X kw true).compute (X, op) = some h := by
  have hm : ∃ tl, r.mroOf X = X :: tl := by
    cases hl : r.mroOf X with
    | nil => rw [hl] at hhead; cases hhead
    | cons a tl => rw [hl] at hhead; simp at hhead; subst hhead; exact ⟨tl, rfl⟩
  obtain ⟨tl, hl⟩ := hm
  apply c06_register_candidate_wins r X X op kw h true (Or.inr rfl) hk
  · unfold TReg.candidates; rw [hl]; simp
  · intro c hc
    unfold TReg.candidates at hc
    rw [hl] at hc
    simp at hc

/-- **… and nothing else**: an `exact=True` registration of `X` (not in the type tree of `op`) does
    not change the lookup of `op` for any other type — its subclasses included. -/
theorem c06_register_exact_not_inherited (r : TReg) (X sub op : String) (kw : List (String × Tag))
    (hne : sub ≠ X) (hnf : r.fuzzy.contains (X, op) = false) :
    (r.register X kw true).compute (sub, op) = r.compute (sub, op) := by
  show (match firstRegistered (handlerVia (newEntries r.entries X kw ++ r.entries) r.fuzzy sub op)
      (r.candidates sub op) with
    | some h => some h
    | none => if r.nodefault.contains (sub, op) then none else some "default") = r.compute (sub, op)
  rw [firstRegistered_congr _ (handlerVia r.entries r.fuzzy sub op) _
    (fun c _ => handlerVia_register_exact_other r.entries r.fuzzy X sub op kw hne hnf c)]
  rfl

/-- … and in every history: a lookup for `sub`, then `register(X, op=h)` for a base `X` of `sub`,
    then the same lookup — the second one answers `h`, although the first one memoised the old
    handler under `(sub, op)`. -/
theorem c06_register_base_history (parse : Bool → String → P) (maxCache : Nat) (rg : Nat)
    (X sub op : String) (kw : List (String × Tag)) (h : Tag) (w : World P Tag TReg)
    (hinv : WorldInv parse TReg.compute w)
    (hk : assocGet kw op = some h) (hx : X ∈ (w.reg rg).mroOf sub)
    (hbefore : ∀ c, c ∈ ((w.reg rg).mroOf sub).takeWhile (· != X) → assocGet (w.reg rg).entries (c, op) = none) :
    (runHistory parse TReg.compute maxCache w
        [.call (lookup1 rg sub op) 2, .register rg (fun r => r.register X kw), .call (lookup1 rg sub op) 2]).1 =
      [some ((w.reg rg).compute (sub, op)), some (some h)] := by
  rw [c06_lookup_register_lookup parse TReg.compute maxCache rg (fun r => r.register X kw) sub op w hinv,
    c06_register_base_wins (w.reg rg) X sub op kw h hk hx hbefore]

/-- the history of the seeded class "the memo survives an `exact=True` registration": a lookup for
    `X` (memoised under `(X, op)`), `register(X, op=h, exact=True)`, the same lookup — answers `h`. -/
theorem c06_register_exact_history (parse : Bool → String → P) (maxCache : Nat) (rg : Nat)
    (X op : String) (kw : List (String × Tag)) (h : Tag) (w : World P Tag TReg)
    (hinv : WorldInv parse TReg.compute w)
    (hk : assocGet kw op = some h) (hhead : ((w.reg rg).mroOf X).head? = some X) :
    (runHistory parse TReg.compute maxCache w
        [.call (lookup1 rg X op) 2, .register rg (fun r => r.register X kw true), .call (lookup1 rg X op) 2]).1 =
      [some ((w.reg rg).compute (X, op)), some (some h)] := by
  rw [c06_lookup_register_lookup parse TReg.compute maxCache rg (fun r => r.register X kw true) X op w hinv,
    c06_register_exact_self (w.reg rg) X op kw h hk hhead]

/-- the history of the seeded class "the memo keeps entries of types that are only *virtual*
    subclasses of the registered type": a lookup for `sub`, `register(A, op=h)` for an ABC `A` of
    which `sub` is a virtual subclass, the same lookup — answers `h`. -/
theorem c06_register_abc_history (parse : Bool → String → P) (maxCache : Nat) (rg : Nat)
    (A sub op : String) (kw : List (String × Tag)) (h : Tag) (w : World P Tag TReg)
    (hinv : WorldInv parse TReg.compute w)
    (hk : assocGet kw op = some h) (hx : A ∈ (w.reg rg).virtOf sub op)
    (hmro : ∀ c, c ∈ (w.reg rg).mroOf sub → assocGet (w.reg rg).entries (c, op) = none)
    (hvirt : ∀ c, c ∈ ((w.reg rg).virtOf sub op).takeWhile (· != A) → assocGet (w.reg rg).entries (c, op) = none) :
    (runHistory parse TReg.compute maxCache w
        [.call (lookup1 rg sub op) 2, .register rg (fun r => r.register A kw), .call (lookup1 rg sub op) 2]).1 =
      [some ((w.reg rg).compute (sub, op)), some (some h)] := by
  rw [c06_lookup_register_lookup parse TReg.compute maxCache rg (fun r => r.register A kw) sub op w hinv,
    c06_register_abc_wins (w.reg rg) A sub op kw h hk hx hmro hvirt]

/-- **A wildcard call uses the handlers of the uncached lookup.**  The lookups `_extend_children`
    makes for the items a `*` / `**` traversal visits (`keys`, then `get`, else `iterate`, per item,
    each depending on the answers before), run without any memo, reach the children of every item
    the way `childUse` says under the registrations in force. -/
theorem c06_star_pure (parse : Bool → String → P) (compute : R → String × String → Option H) (star : Bool)
    (reg : Nat → R) (rg : Nat) (tys : List String) (fuel : Nat) (hf : starFuel tys ≤ fuel) :
    runPure parse compute (starStrategy rg tys) star reg fuel [] = some (refStar (compute (reg rg)) tys) :=
  runPure_star parse compute star reg rg tys fuel hf

/-- **… after any history.**  Whatever came before — the same traversal over the same types (whose
    handlers are then memoised), other calls, PATH_STAR toggles, registrations of `keys` / `get` /
    `iterate` handlers for the traversed types or their bases on this or another registry — a
    wildcard call reaches the children of every item by the handlers the registrations in force *at
    that moment* give. -/
theorem c06_star_any_history (parse : Bool → String → P) (compute : R → String × String → Option H)
    (maxCache : Nat) (before : List (HOp P H (List (StarUse H)) R)) (rg : Nat) (tys : List String) (fuel : Nat)
    (hf : starFuel tys ≤ fuel) (w : World P H R) (hinv : WorldInv parse compute w) :
    (runHistory parse compute maxCache w (before ++ [.call (starStrategy rg tys) fuel])).1 =
      refHistory parse compute w.pathStar w.reg before ++
        [some (refStar (compute (regsAfter w.reg before rg)) tys)] := by
  rw [(c06_history parse compute maxCache _ w hinv).1, refHistory_append_call,
    c06_star_pure parse compute _ _ rg tys fuel hf]

/-- the history of the seeded class, spelled out: a wildcard traversal, a registration on the same
    registry, the same traversal — the second one uses the handlers of the *new* registrations for
    every visited type, although the first one memoised the old ones. -/
theorem c06_star_register_star (parse : Bool → String → P) (compute : R → String × String → Option H)
    (maxCache : Nat) (rg : Nat) (f : R → R) (tys : List String) (fuel : Nat) (hf : starFuel tys ≤ fuel)
    (w : World P H R) (hinv : WorldInv parse compute w) :
    (runHistory parse compute maxCache w
        [.call (starStrategy rg tys) fuel, .register rg f, .call (starStrategy rg tys) fuel]).1 =
      [some (refStar (compute (w.reg rg)) tys), some (refStar (compute (f (w.reg rg))) tys)] := by
  rw [(c06_history parse compute maxCache _ w hinv).1]
  simp only [refHistory, c06_star_pure parse compute _ _ rg tys fuel hf, setAt_same]

/-- **Registering `keys` for a base changes how `*` expands its subclasses** (concrete registry):
    when `X` is in the MRO of `sub` with no nearer type registered for `keys`, then after
    `register(X, keys=h)` the children of an instance of `sub` are reached through `h` and the
    `get` handler then in force. -/
theorem c06_star_register_keys (r : TReg) (X sub : String) (kw : List (String × Tag)) (h g : Tag)
    (hk : assocGet kw "keys" = some h) (hx : X ∈ r.mroOf sub)
    (hbefore : ∀ c, c ∈ (r.mroOf sub).takeWhile (· != X) → assocGet r.entries (c, "keys") = none)
    (hg : (r.register X kw).compute (sub, "get") = some g) :
    childUse (r.register X kw).compute sub = .keysGet h g := by
  unfold childUse
  rw [c06_register_base_wins r X sub "keys" kw h hk hx hbefore, hg]

/-- **… and `iterate` for a type whose items are reached by iteration** (no `keys` handler: an
    object without `__dict__`): after `register(X, iterate=h)` for a base `X` the children of an
    instance of `sub` are `h(instance)`. -/
theorem c06_star_register_iterate (r : TReg) (X sub : String) (kw : List (String × Tag)) (h : Tag)
    (hk : assocGet kw "iterate" = some h) (hx : X ∈ r.mroOf sub)
    (hbefore : ∀ c, c ∈ (r.mroOf sub).takeWhile (· != X) → assocGet r.entries (c, "iterate") = none)
    (hkeys : (r.register X kw).compute (sub, "keys") = none) :
    childUse (r.register X kw).compute sub = .iter h := by
  unfold childUse
  rw [hkeys, c06_register_base_wins r X sub "iterate" kw h hk hx hbefore]

/-- both, in a history: `sub.*`, then `register(X, iterate=h)` for a base, then `sub.*` again -/
theorem c06_star_register_base_history (parse : Bool → String → P) (maxCache : Nat) (rg : Nat)
    (X sub : String) (kw : List (String × Tag)) (h : Tag) (w : World P Tag TReg)
    (hinv : WorldInv parse TReg.compute w)
    (hk : assocGet kw "iterate" = some h) (hx : X ∈ (w.reg rg).mroOf sub)
    (hbefore : ∀ c, c ∈ ((w.reg rg).mroOf sub).takeWhile (· != X) → assocGet (w.reg rg).entries (c, "iterate") = none)
    (hkeys : ((w.reg rg).register X kw).compute (sub, "keys") = none) :
    (runHistory parse TReg.compute maxCache w
        [.call (starStrategy rg [sub]) 4, .register rg (fun r => r.register X kw), .call (starStrategy rg [sub]) 4]).1 =
      [some [childUse (w.reg rg).compute sub], some [.iter h]] := by
  rw [c06_star_register_star parse TReg.compute maxCache rg (fun r => r.register X kw) [sub] 4 (by simp [starFuel]) w hinv]
  simp only [refStar, List.map_cons, List.map_nil,
    c06_star_register_iterate (w.reg rg) X sub kw h hk hx hbefore hkeys]

/-- **`Vars`: an evaluation writes only its own ScopeVars object.**  On a heap of dict objects,
    evaluating a spec that holds `Vars(<dict at base>, **defaults)` with any reads / writes
    (`S.v.name`, `A.v.name`): every dict object that existed before — the one the spec and the
    caller hold included — is unchanged, and the reads are those of the value-level reference. -/
theorem c06_vars_frame {V : Type} (h : VHeap V) (base : Nat) (defaults : VDict V) (ops : List (VOp V)) :
    (evalVars h base defaults ops).2 = refVars (h.getD base []) defaults ops ∧
    ∀ b, b < h.length → (evalVars h base defaults ops).1.getD b [] = h.getD b [] := by
  unfold evalVars scopeVarsInit refVars
  simp only
  have ha : h.length < (h ++ [List.foldl (fun d kv => dSet d kv.1 kv.2) (h.getD base []) defaults]).length := by
    simp
  obtain ⟨h1, _, h3⟩ := runVOps_spec ops _ h.length ha
  refine ⟨?_, ?_⟩
  · rw [h1]; simp
  · intro b hb
    rw [h3 b (by omega)]
    simp [List.getD_eq_getElem?_getD, List.getElem?_append_left hb]

/-- **`Vars`: the second evaluation of the same spec object is a first evaluation.**  Whatever
    the first evaluation wrote, the reads of the second are the reference ones for the dict the
    spec holds, which is still what it was. -/
theorem c06_vars_history {V : Type} (h : VHeap V) (base : Nat) (hb : base < h.length) (defaults : VDict V)
    (ops1 ops2 : List (VOp V)) :
    (evalVars (evalVars h base defaults ops1).1 base defaults ops2).2 = refVars (h.getD base []) defaults ops2 := by
  rw [(c06_vars_frame _ base defaults ops2).1, (c06_vars_frame h base defaults ops1).2 base hb]

/-! ## "inputs untouched" on a heap with object identity (`Model/C06Heap.lean`)

  The model *writes*: where glom stores into an object (`ret[field] = val`, `ret.append(val)`,
  `result.update(…)`, `result.extend(…)`) it stores into the heap cell, and a catalogue callable
  (`append9`) writes the object it is handed.  The theorems say *which* cells an evaluation may
  write: only those of objects it created itself — provided the spec names no mutating callable
  (`Sp.pureCalls`, the "no mutating user callable" clause of the property text; forced:
  `c06_mutating_callable_counterexample`).

  Constructs: T expressions made of item steps and every arithmetic operator
  (`+ - * // / % ** & | ^ ~ -`) over scalars, lists, tuples, bytearrays, sets, frozensets and dicts
  (as left operand — a container owned by the target — and as right operand: a literal of the
  spec, rebuilt or passed through, or another T expression reading the target), nested to any
  depth; literals in argument position (`arg_val`); dict / list / tuple specs in AUTO mode;
  `Coalesce` with and without default; `Call` specs and plain callable specs over the catalogue.
  The constructs outside this model (Invoke, Fold / Group accumulators, Match, Iter, S-rooted
  expressions; `Vars`: see `c06_vars_frame`) keep the property "observed". -/

open Glom in
/-- **Frame theorem for every modelled construct**, in both modes: `_glom(target, spec, scope)`
    (AUTO: dict / list / tuple specs, Coalesce, Call, callables, T) and
    `arg_val(target, spec, scope)` (literals rebuilt, T evaluated): no object that existed before
    the evaluation (reachable from the target or not, owned by the spec or not) is written,
    whether the evaluation returns or raises — every address of the heap holds afterwards the cell
    it held, and the heap afterwards is the heap before followed by the objects created since. -/
theorem c06_spec_frame (sp : Sp) (tgt : Val) (h : Heap) (hp : sp.pureCalls = true) :
    ((∀ a, a < h.length → (evalAuto sp tgt h).2[a]? = h[a]?) ∧ ∃ ext, (evalAuto sp tgt h).2 = h ++ ext) ∧
    ((∀ a, a < h.length → (evalArg sp tgt h).2[a]? = h[a]?) ∧ ∃ ext, (evalArg sp tgt h).2 = h ++ ext) :=
  ⟨⟨(evalAuto_ext sp hp tgt h).2, (evalAuto_ext sp hp tgt h).exists_append⟩,
   ⟨(evalArg_ext sp hp tgt h).2, (evalArg_ext sp hp tgt h).exists_append⟩⟩

open Glom in
/-- **Frame theorem for T arithmetic** (the instance of `c06_spec_frame` the seeded changes break):
    evaluating any T expression — item steps and arithmetic operations in any number and order,
    with arguments that are literals, rebuilt containers, calls or nested T expressions — leaves
    every object that existed as it was. -/
theorem c06_tarith_frame (steps : Steps) (tgt : Val) (h : Heap) (hp : steps.pureCalls = true) :
    (∀ a, a < h.length → (evalAuto (.t steps) tgt h).2[a]? = h[a]?) ∧
    ∃ ext, (evalAuto (.t steps) tgt h).2 = h ++ ext :=
  (c06_spec_frame (.t steps) tgt h (by simpa [Sp.pureCalls] using hp)).1

open Glom in
/-- **The result of T arithmetic is a new object** (or a scalar): when the expression ends with an
    arithmetic operation its value is not an object that existed before — in particular not the
    target's own container (`T['tags'] | {'b'}` is not `target['tags']`). -/
theorem c06_tarith_fresh (steps : Steps) (tgt : Val) (h : Heap) (a : Nat) (h' : Heap)
    (hp : steps.pureCalls = true)
    (hend : steps.endsArith = true) (hev : evalAuto (.t steps) tgt h = (.ok (.ref a), h')) :
    h.length ≤ a :=
  evalAuto_fresh (.t steps) (by simpa [Sp.pureCalls] using hp) tgt h (.ref a) h' hev
    (by simpa [Sp.mustBeNew] using hend) a rfl

open Glom in
/-- **Containers glom builds are new objects**: the value of a dict spec, of a list spec, of a
    tuple spec whose last step builds one, of a Coalesce all of whose alternatives (and default)
    build one, of a call of a callable that builds one, of a T expression ending in arithmetic
    (`Sp.mustBeNew`) is never an object that existed before the call; in argument mode the same
    for every rebuilt literal (`Sp.newArg`). -/
theorem c06_spec_fresh (sp : Sp) (tgt : Val) (h : Heap) (a : Nat) (h' : Heap) (hp : sp.pureCalls = true) :
    (sp.mustBeNew = true → evalAuto sp tgt h = (.ok (.ref a), h') → h.length ≤ a) ∧
    (sp.newArg = true → evalArg sp tgt h = (.ok (.ref a), h') → h.length ≤ a) :=
  ⟨fun hn hev => evalAuto_fresh sp hp tgt h (.ref a) h' hev hn a rfl,
   fun hn hev => evalArg_fresh sp hp tgt h (.ref a) h' hev hn a rfl⟩

open Glom in
/-- **Any number of calls.**  After any sequence of calls (the same spec again, other specs, other
    targets) every object that existed at the start is what it was: each call of a history starts
    from inputs that no earlier call has touched. -/
theorem c06_calls_frame (calls : List (Sp × Val)) (h : Heap) (hp : calls.all (fun c => c.1.pureCalls) = true) :
    (∃ ext, runCalls calls h = h ++ ext) ∧ ∀ a, a < h.length → (runCalls calls h)[a]? = h[a]? :=
  ⟨(runCalls_ext calls h hp).exists_append, (runCalls_ext calls h hp).2⟩

open Glom in
/-- **What an observer sees is unchanged**: a value that denoted a tree before the calls (the
    target, any container inside it, a container of the spec) denotes the same tree afterwards —
    the "structure" reading of the snapshot the correspondence takes. -/
theorem c06_view_preserved (calls : List (Sp × Val)) (h : Heap) (fuel : Nat) (v : Val) (p : PV)
    (hp : calls.all (fun c => c.1.pureCalls) = true)
    (hv : view6 h fuel v = some p) : view6 (runCalls calls h) fuel v = some p :=
  view6_ext (runCalls_ext calls h hp) fuel v p hv

open Glom in
/-- **The outcome does not depend on what else the heap holds.**  For a heap without dangling
    references, a target in it and a spec whose own objects are in it: evaluating the spec in that
    heap, or in the same heap followed by any number of further objects (what earlier calls
    created), gives the same outcome as far as anyone can observe — the tree the value denotes, or
    the error.  (No purity is needed here: also a mutating callable does the same in both heaps.) -/
theorem c06_outcome_heap_independent (sp : Sp) (tgt : Val) (h g : Heap) (fuel : Nat)
    (hh : heapClosed h = true) (ht : Val.closed6 h.length tgt = true) (hs : sp.closed h.length = true) :
    outView fuel (evalAuto sp tgt (h ++ g)) = outView fuel (evalAuto sp tgt h) :=
  outView_more sp tgt h g fuel hh ht hs

open Glom in
/-- **Repeating a call, or making it after any other calls, never changes its outcome** (heap
    level): whatever calls without mutating callables were made before — the same spec on the same
    target, other specs, other targets, calls that raised — the call's outcome is the one it has
    when made first.  Together with `c06_calls_frame` (the inputs are what they were) this is the
    second half of C06 for the constructs of the heap model, with no cache involved at all. -/
theorem c06_repeat_same (sp : Sp) (tgt : Val) (h : Heap) (calls : List (Sp × Val)) (fuel : Nat)
    (hp : calls.all (fun c => c.1.pureCalls) = true)
    (hh : heapClosed h = true) (ht : Val.closed6 h.length tgt = true) (hs : sp.closed h.length = true) :
    outView fuel (evalAuto sp tgt (runCalls calls h)) = outView fuel (evalAuto sp tgt h) := by
  obtain ⟨g, hg⟩ := (runCalls_ext calls h hp).exists_append
  rw [hg]
  exact outView_more sp tgt h g fuel hh ht hs

open Glom in
/-- **Both halves, in one history.**  Any finite interleaving of cache-level events (calls as adaptive
    strategies over path / handler queries, PATH_STAR toggles, registrations on any registry) and
    heap-level calls (specs of the heap model without mutating callable, on targets of the initial
    heap), started from any world satisfying the cache invariant and any heap without dangling
    references: every call's outcome is the reference one — a cache-level call's as if there were
    no caches, a heap-level call's as if it were made first, in the initial heap —, the cache
    invariant holds afterwards, and no object of the initial heap has been written.
    (The two state components do not interact in the model: a heap-level call makes no cache query;
    see the Limits of the property.) -/
theorem c06_mixed_history (parse : Bool → String → P) (compute : R → String × String → Option H)
    (maxCache fuel : Nat) (h0 : Heap) (hh : heapClosed h0 = true) :
    ∀ (ops : List (MOp P H O R)) (w : World P H R) (g : Heap),
      WorldInv parse compute w → mixedOk h0.length ops = true →
      (runMixed parse compute maxCache fuel (w, h0 ++ g) ops).1 =
        refMixed parse compute fuel h0 w.pathStar w.reg ops ∧
      WorldInv parse compute (runMixed parse compute maxCache fuel (w, h0 ++ g) ops).2.1 ∧
      ∃ g', (runMixed parse compute maxCache fuel (w, h0 ++ g) ops).2.2 = h0 ++ g' := by
  intro ops
  induction ops with
  | nil => intro w g hinv _; exact ⟨rfl, hinv, g, rfl⟩
  | cons op rest ih =>
    intro w g hinv hok
    cases op with
    | heap sp tgt =>
      simp only [mixedOk, Bool.and_eq_true] at hok
      obtain ⟨⟨⟨hp, hc⟩, ht⟩, hrest⟩ := hok
      have hext : Ext h0 (evalAuto sp tgt (h0 ++ g)).2 :=
        (Ext.refl h0).trans (⟨by simp, fun a ha => List.getElem?_append_left ha⟩ : Ext h0 (h0 ++ g)) |>.trans
          (evalAuto_ext sp hp tgt (h0 ++ g))
      obtain ⟨g', hg'⟩ := hext.exists_append
      have hrec := ih w g' hinv hrest
      simp only [runMixed, refMixed]
      rw [hg']
      refine ⟨?_, hrec.2.1, hrec.2.2⟩
      rw [hrec.1, outView_more sp tgt h0 g fuel hh ht hc]
    | cache cop =>
      simp only [mixedOk] at hok
      have hstep := stepWorld_inv (O := O) parse compute maxCache w cop hinv
      cases cop with
      | call strat f =>
        have hc := runCached_spec parse compute maxCache strat f w [] hinv
        have hrec := ih (runCached parse compute maxCache strat f w []).2 g hc.2.1 hok
        simp only [runMixed, stepWorld, refMixed]
        rw [hc.2.2.1, hc.2.2.2] at hrec
        exact ⟨by rw [hrec.1, hc.1], hrec.2.1, hrec.2.2⟩
      | setStar b =>
        have hrec := ih { w with pathStar := b } g hinv hok
        simp only [runMixed, stepWorld, refMixed]
        exact hrec
      | register rg f =>
        have hrec := ih { w with reg := setAt w.reg rg (f (w.reg rg)), hc := setAt w.hc rg [] } g hstep hok
        simp only [runMixed, stepWorld, refMixed]
        exact hrec

open Glom in
/-- **The checker holds on the model**: for every spec without mutating callable, target and heap
    the observation of the model's evaluation satisfies `checkArith` (the decidable form of the two
    statements above that the driver evaluates on the implementation's observation). -/
theorem c06_arith_checker (sp : Sp) (tgt : Val) (h : Heap) (hp : sp.pureCalls = true) :
    checkArith h sp (observe6 h.length (evalAuto sp tgt h)) = true := by
  unfold checkArith observe6
  simp only [Bool.and_eq_true, decide_eq_true_eq, Bool.or_eq_true, Bool.not_eq_true', Bool.not_false, and_true]
  refine ⟨(evalAuto_ext sp hp tgt h).take, ?_⟩
  cases hn : sp.mustBeNew with
  | false => exact Or.inl rfl
  | true =>
    right
    rcases hev : evalAuto sp tgt h with ⟨r, h'⟩
    cases r with
    | error e => rfl
    | ok v =>
      cases v with
      | ref a =>
        have := evalAuto_fresh sp hp tgt h (.ref a) h' hev hn a rfl
        simp only [decide_eq_false_iff_not, Nat.not_lt]
        exact this
      | _ => rfl

/-! ### non-vacuity: a concrete strategy, a warm and an overflowing cache -/

private def parse0 (star : Bool) (_t : String) : Bool := star

private def strat0 : Strategy Bool Nat (Bool × Option Nat) := fun answers =>
  match answers with
  | [] => .inl (.path "a.*")
  | [.path _] => .inl (.handler 0 "dict" "get")
  | [.path p, .handler h] => .inr (p, h)
  | _ => .inr (false, none)

example : (runHistory (R := Nat) parse0 (fun reg _ => some reg) 0 { reg := fun _ => 7 }
    [.call strat0 5, .call strat0 5, .setStar false, .call strat0 5, .register 0 (· + 1), .setStar true,
     .call strat0 5, .register 1 (· + 5), .call strat0 5]).1 =
    [some (true, some 7), some (true, some 7), some (false, some 7), some (true, some 8), some (true, some 8)] := by
  decide

example : WorldInv (H := Nat) (R := Nat) parse0 (fun reg _ => some reg) { reg := fun _ => 7 } :=
  (c06_init_inv parse0 _ _).1

/-! a base registered after its subclass was looked up (the hypotheses of `c06_register_base_wins`
    hold for a concrete hierarchy); without "no nearer registered type" the conclusion fails -/

private def reg0 : TReg := { mro := [("Child", ["Child", "Base", "object"]), ("Base", ["Base", "object"])] }

example : (reg0.register "Base" [("get", "shout")]).compute ("Child", "get") = some "shout" := by decide
example : reg0.compute ("Child", "get") = some "default" := by decide
example : ((reg0.register "Child" [("iterate", "it")]).register "Base" [("get", "shout")]).compute ("Child", "get")
    = some "default" := by decide

private def parseStar0 (star : Bool) (_t : String) : Bool := star

private def lookChild : Strategy Bool Tag (Option Tag) := lookup1 1 "Child" "get"

example : (runHistory parse0 TReg.compute 0 { reg := fun _ => reg0 }
    [.call lookChild 2, .register 1 (fun r => r.register "Base" [("get", "shout")]), .call lookChild 2,
     .register 0 (fun r => r.register "Base" [("get", "other")]), .call lookChild 2]).1 =
    [some (some "default"), some (some "shout"), some (some "shout")] := by decide

/-! wildcard traversal: a slotted iterable (`Bag`: no `__dict__`, so no built-in `keys` handler) and a
    plain object (`Rec`), traversed, registered for, traversed again; a `keys` registration turns a
    type that was iterated into one expanded by keys; too little fuel = the call has no outcome (the
    hypothesis `starFuel tys ≤ fuel` is needed) -/

private def reg1 : TReg :=
  { mro := [("Bag", ["Bag", "object"]), ("Rec", ["Rec", "object"]), ("SubBag", ["SubBag", "Bag", "object"])],
    nodefault := [("Bag", "keys"), ("SubBag", "keys")] }

example : refStar reg1.compute ["Bag", "Rec"] = [.iter "default", .keysGet "default" "default"] := by decide

example : (runHistory parseStar0 TReg.compute 0 { reg := fun _ => reg1 }
    [.call (starStrategy 0 ["SubBag", "Rec"]) 7,
     .register 0 (fun r => r.register "Bag" [("iterate", "newest_first")]),
     .call (starStrategy 0 ["SubBag", "Rec"]) 7,
     .register 0 (fun r => r.register "Rec" [("keys", "public_keys")]),
     .call (starStrategy 0 ["SubBag", "Rec"]) 7,
     .register 1 (fun r => r.register "Rec" [("get", "other")]),
     .call (starStrategy 0 ["SubBag", "Rec"]) 7,
     .register 0 (fun r => r.register "SubBag" [("keys", "k")]),
     .call (starStrategy 0 ["SubBag", "Rec"]) 7]).1 =
    [some [.iter "default", .keysGet "default" "default"],
     some [.iter "newest_first", .keysGet "default" "default"],
     some [.iter "newest_first", .keysGet "public_keys" "default"],
     some [.iter "newest_first", .keysGet "public_keys" "default"],
     some [.keysGet "k" "default", .keysGet "public_keys" "default"]] := by decide

example : runPure parseStar0 TReg.compute (starStrategy 0 ["Bag", "Rec"]) true (fun _ => reg1) 4 [] = none := by
  decide

example : (reg1.register "Bag" [("iterate", "h")]).compute ("SubBag", "keys") = none := by decide

/-! `Vars`: two evaluations of a spec holding the dict at address 0; the second does not see the
    first one's write, and the dict at address 0 is what it was -/

example : (evalVars [[("floor", 0)]] 0 [] [.read "last", .write "last" 1, .read "last"]).2 = [none, some 1] := by
  decide
example : (evalVars (evalVars [[("floor", 0)]] 0 [] [.write "last" 1]).1 0 [] [.read "last", .read "floor"]).2
    = [none, some 0] := by decide
example : ((evalVars [[("floor", 0)]] 0 [("d", 5)] [.write "floor" 9]).1).getD 0 [] = [("floor", 0)] := by decide


/-! the heap model: `{'tags': {'a'}, 'xs': [1], 'ba': bytearray(b'\x01')}` with the spec's own set
    `{'b'}` at address 4.  `T['tags'] | {'b'}`: a new set at a new address, the target's set is
    what it was; the in-place operator (`operator.ior`, `cur |= arg` — NOT what glom does) writes
    the target's cell and returns the target's own object: the frame theorem is about the code
    that exists, and `checkArith` tells the two apart -/

open Glom in
private def h0 : Heap :=
  [.dict "dict" [(.str "tags", .ref 1), (.str "xs", .ref 2), (.str "ba", .ref 3)],
   .set "set" [.str "a"], .list "list" [.int 1], .list "bytearray" [.int 1], .set "set" [.str "b"]]

open Glom in
private def orSpec : Steps := .cons .item (.lit (.str "tags")) (.cons (.bin .bor) (.lit (.ref 4)) .nil)

open Glom in
example : evalAuto (.t orSpec) (.ref 0) h0 = (.ok (.ref 5), h0 ++ [.set "set" [.str "a", .str "b"]]) := by decide

open Glom in
example : orSpec.endsArith = true ∧ checkArith h0 (.t orSpec) (observe6 h0.length (evalAuto (.t orSpec) (.ref 0) h0)) = true := by
  decide

open Glom in
/-- the in-place variant breaks both halves of the checker on this input -/
theorem c06_inplace_counterexample :
    (aBinInPlace .bor h0 (.ref 1) (.ref 4)).2 ≠ h0 ∧
    (aBinInPlace .bor h0 (.ref 1) (.ref 4)).1 = .ok (.ref 1) ∧
    checkArith h0 (.t orSpec) (observe6 h0.length (guard6 (aBinInPlace .bor h0 (.ref 1) (.ref 4)))) = false := by
  decide

open Glom in
/-- `T['xs'] + T['xs']`, `T['ba'] * 2`, `[T['xs'] + [2]]` in argument position, a dict spec, a list
    spec over the target's list: new objects, old cells untouched -/
example : (evalAuto (.t (.cons .item (.lit (.str "xs")) (.cons (.bin .add)
      (.t (.cons .item (.lit (.str "xs")) .nil)) .nil))) (.ref 0) h0) =
    (.ok (.ref 5), h0 ++ [.list "list" [.int 1, .int 1]]) := by decide

open Glom in
example : (evalAuto (.t (.cons .item (.lit (.str "ba")) (.cons (.bin .mul) (.lit (.int 2)) .nil))) (.ref 0) h0).1 =
    .ok (.ref 5) := by decide

open Glom in
example : (evalAuto (.dict (.cons (.lit (.str "k")) (.t (.cons .item (.lit (.str "xs")) .nil)) .nil)) (.ref 0) h0) =
    (.ok (.ref 5), h0 ++ [.dict "dict" [(.str "k", .ref 2)]]) := by decide

open Glom in
/-- a failing step is a PathAccessError and leaves the heap as it is; Coalesce then takes the default,
    rebuilt (`arg_val`): a new list -/
example : (evalAuto (.coalesce (.cons (.t (.cons .item (.lit (.str "zz")) .nil)) .nil) true
      (.seq .list (.cons (.lit (.int 0)) .nil))) (.ref 0) h0) = (.ok (.ref 5), h0 ++ [.list "list" [.int 0]]) := by
  decide

open Glom in
/-- `mustBeNew` is needed for the second half: `T['tags']` alone returns the target's own set -/
example : (evalAuto (.t (.cons .item (.lit (.str "tags")) .nil)) (.ref 0) h0).1 = .ok (.ref 1) := by decide

/-! callables: `Call(wrap, args=(T['xs'],))` builds a new list holding the target's list; `len` in a
    chain; the mutating callable of the catalogue writes the target's own list — `Sp.pureCalls` is
    forced, for the frame theorem and (as a hypothesis on the *earlier* calls) for `c06_repeat_same` -/

open Glom in
private def xsArg : Sps := .cons (.t (.cons .item (.lit (.str "xs")) .nil)) .nil

open Glom in
example : evalAuto (.call "wrap" xsArg) (.ref 0) h0 = (.ok (.ref 5), h0 ++ [.list "list" [.ref 2]]) ∧
    (evalAuto (.seq .tuple (.cons (.t (.cons .item (.lit (.str "xs")) .nil)) (.cons (.lit (.fn "len")) .nil)))
      (.ref 0) h0).1 = .ok (.int 1) := by decide

open Glom in
/-- **the hypothesis "no mutating user callable" is forced**: `Call(append9, args=(T['xs'],))` returns
    the target's own list (address 2) with a 9 appended to it; afterwards `len` of that list — the
    same call as before — gives 2 instead of 1 -/
theorem c06_mutating_callable_counterexample :
    (Sp.call "append9" xsArg).pureCalls = false ∧
    (evalAuto (.call "append9" xsArg) (.ref 0) h0).1 = .ok (.ref 2) ∧
    (evalAuto (.call "append9" xsArg) (.ref 0) h0).2[2]? = some (.list "list" [.int 1, .int 9]) ∧
    (evalAuto (.call "len" xsArg) (.ref 0) h0).1 = .ok (.int 1) ∧
    (evalAuto (.call "len" xsArg) (.ref 0) (runCalls [(.call "append9" xsArg, .ref 0)] h0)).1 = .ok (.int 2) := by
  decide

open Glom in
/-- the model writes — the dict spec's own result, created empty at address 5 and then stored into:
    the frame theorem is not about a store that cannot change -/
example : (autoPairs (.cons (.lit (.str "k")) (.t (.cons .item (.lit (.str "xs")) .nil)) .nil) (.ref 0) 5
      (h0 ++ [.dict "dict" []])).2[5]? = some (.dict "dict" [(.str "k", .ref 2)]) ∧
    (h0 ++ [Obj.dict "dict" []])[5]? = some (.dict "dict" []) := by decide

open Glom in
/-- a mixed history in the domain of `c06_mixed_history`: a cache-level call, a heap-level call, a
    registration, the same heap-level call again -/
example : mixedOk (P := Bool) (H := Nat) (O := Bool × Option Nat) (R := Nat) h0.length
    [.cache (.call strat0 5), .heap (.t orSpec) (.ref 0), .cache (.register 0 (· + 1)), .heap (.t orSpec) (.ref 0)] = true ∧
    heapClosed h0 = true := by decide

/-! repeated evaluation: `T['tags'] | {'b'}` twice — two different new sets, the same tree; the
    hypotheses of `c06_repeat_same` hold for `h0`; without "the spec's own objects existed"
    (`Sp.closed`) the conclusion fails: a literal naming address 5 denotes nothing in `h0` and
    whatever object an earlier call happened to create there afterwards -/

open Glom in
example : heapClosed h0 = true ∧ Val.closed6 h0.length (.ref 0) = true ∧ (Sp.t orSpec).closed h0.length = true := by
  decide

open Glom in
/-- the second evaluation builds another new set (address 6, not 5) with the same content; the
    target's set (address 1) is still what it was -/
example : (evalAuto (.t orSpec) (.ref 0) (runCalls [(.t orSpec, .ref 0)] h0)).1 = .ok (.ref 6) ∧
    (evalAuto (.t orSpec) (.ref 0) (runCalls [(.t orSpec, .ref 0)] h0)).2[6]? = some (.set "set" [.str "a", .str "b"]) ∧
    (evalAuto (.t orSpec) (.ref 0) h0).2[5]? = some (.set "set" [.str "a", .str "b"]) ∧
    (evalAuto (.t orSpec) (.ref 0) (runCalls [(.t orSpec, .ref 0)] h0)).2[1]? = some (.set "set" [.str "a"]) := by
  decide

open Glom in
private def danglingSpec : Sp := .t (.cons .item (.lit (.str "xs")) (.cons (.bin .add) (.lit (.ref 5)) .nil))

open Glom in
example : danglingSpec.closed h0.length = false ∧
    outView 5 (evalAuto danglingSpec (.ref 0) (h0 ++ [.list "list" [.int 9]])) ≠
      outView 5 (evalAuto danglingSpec (.ref 0) h0) := by
  refine ⟨by decide, ?_⟩
  have h1 : (evalAuto danglingSpec (.ref 0) h0).1 = .error .unsupported := by decide
  have h2 : (evalAuto danglingSpec (.ref 0) (h0 ++ [.list "list" [.int 9]])).1 = .ok (.ref 6) := by decide
  unfold outView
  rw [h1, h2]
  simp [Except.map]

/-! registry: `exact=True` registers the type itself and nothing else; an ABC registered after a
    lookup of its virtual subclass; without "not exact" the base registration is not inherited -/

private def reg2 : TReg :=
  { mro := [("Child", ["Child", "Base", "object"]), ("Base", ["Base", "object"]), ("Bag", ["Bag", "object"])],
    virt := [("Bag", ["Sized"]), ("Child", ["Sized"])], nodefault := [("Bag", "keys")] }

example : (reg2.register "Base" [("get", "g")] true).compute ("Base", "get") = some "g" := by decide
example : (reg2.register "Base" [("get", "g")] true).compute ("Child", "get") = some "default" := by decide
example : ((reg2.register "Base" [("get", "g0")]).register "Base" [("get", "g")] true).compute ("Child", "get")
    = some "g" := by decide
example : (reg2.register "Sized" [("iterate", "it")]).compute ("Bag", "iterate") = some "it" := by decide
example : (reg2.register "Sized" [("keys", "k")]).compute ("Bag", "keys") = some "k" := by decide
example : (reg2.register "Sized" [("keys", "k")]).compute ("Child", "keys") = some "default" := by decide
example : ((reg2.register "Base" [("get", "g")]).register "Sized" [("get", "v")]).compute ("Child", "get")
    = some "g" := by decide

example : (runHistory parse0 TReg.compute 0 { reg := fun _ => reg2 }
    [.call (lookup1 0 "Bag" "iterate") 2, .register 0 (fun r => r.register "Sized" [("iterate", "it")]),
     .call (lookup1 0 "Bag" "iterate") 2, .register 0 (fun r => r.register "Bag" [("iterate", "own")] true),
     .call (lookup1 0 "Bag" "iterate") 2]).1 =
    [some (some "default"), some (some "it"), some (some "own")] := by decide

end Glom.Props.C06
