import Glom.Lemmas.C06
import Glom.Generated.C06Facts
/-
  C06 — Non-mutating specs are pure: outcome independent of history.

  Property theorems only.  The theorems are for every parse function, every
  uncached handler lookup, every `_MAX_CACHE`, every call (an arbitrary adaptive
  strategy over the two kinds of queries a call can make of the library's shared
  state), and every finite history of calls, PATH_STAR toggles and
  registrations — on any of the registries a process holds (module-level,
  one per Glommer), of any type: in particular of a *base* of a type whose
  handler an earlier call has memoised (`c06_register_related`,
  `c06_register_base_wins`).

  `Vars`: `c06_vars_*` — on a heap of dict objects, evaluating a spec that
  holds `Vars(<dict>, **defaults)` writes only the ScopeVars object created
  for that evaluation; the dict the spec (and the caller) holds is unchanged,
  and every evaluation reads what the value-level reference gives, whatever
  earlier evaluations wrote.

  *partial*: the "inputs untouched" half of the property is carried by the
  interpreter model by construction (its values are immutable) and by the
  correspondence (deep snapshots before/after on the real objects); it is not a
  heap-level frame theorem.
-/
namespace Glom.Props.C06
open Glom.C06

variable {P H O R : Type}

/-- **Facts obligation** (regenerated from /repo on every run): `Path.from_text` is the
    check / overflow-bypass / store / return sequence modelled by `fromText`, keyed per PATH_STAR;
    `get_handler` memoises under `(type(obj), op)` — the exact type; `register` and `register_op`
    reset the memo wholesale as their last unconditional step (a new dict or `.clear()`: either is a
    reset *provided the memo is the only place a looked-up handler is kept*: `c06_facts_memo_only`);
    `Vars.glomit` builds a `ScopeVars` from the spec's mapping and
    `ScopeVars.__init__` copies it (`dict(base)`, then `update(defaults)`) as `scopeVarsInit` does. -/
theorem c06_facts_wf :
    Glom.Generated.fromTextShape =
      ["cache = cls._CACHE[PATH_STAR]",
       "if text not in cache: ;     if len(cache) > cls._MAX_CACHE: ;         return create() ;     cache[text] = create()",
       "return cache[text]"] ∧
    Glom.Generated.pathCacheInit = "{True: {}, False: {}}" ∧
    Glom.Generated.createUsesPathStar = true ∧
    Glom.Generated.getHandlerShape =
      ["cache_key = (obj_type, op)", "if cache_key not in self._type_cache",
       "return self._type_cache[cache_key]", "self._type_cache[cache_key] = ret"] ∧
    Glom.Generated.memoResetBy.map (·.1) = ["register", "register_op"] ∧
    Glom.Generated.memoResetBy.all (fun r => r.2 == "self._type_cache = {}" || r.2 == "self._type_cache.clear()") = true ∧
    Glom.Generated.memoKeyType = "obj_type = type(obj)" ∧
    Glom.Generated.scopeVarsInitShape = ["self.__dict__ = dict(base)", "self.__dict__.update(defaults)"] ∧
    Glom.Generated.varsGlomitShape = ["return ScopeVars(self.base, self.defaults)"] := by
  decide

/-- **Facts obligation: the memo that `register` resets is the only place a looked-up handler is
    kept.**  No function of glom (core, grouping, mutation, streaming, reduction, matching) stores a
    handler obtained from `get_handler` in an attribute, a global, or a container that the call did
    not create (flow analysis of every function: `extract/facts/c06.py`), and nothing but
    `TargetRegistry.__init__` / `get_handler` / `register` / `register_op` touches `_type_cache` —
    so the world of the model (`World.hc`, reset by `HOp.register`) is all the handler state there
    is.  A second memo keyed on anything `register` does not reset (for instance on the identity of
    the `_type_cache` dict, which `.clear()` keeps) shows up here. -/
theorem c06_facts_memo_only :
    Glom.Generated.handlerStoredOutsideMemo = [] ∧ Glom.Generated.memoTouchedOutsideRegistry = [] := by
  decide

/-- **The path cache never changes an answer**: under the invariant, `Path.from_text` returns the
    fresh parse — on a hit, on a miss, and on the overflow branch — and re-establishes the
    invariant; the cache holds at most `_MAX_CACHE + 1` entries per PATH_STAR value. -/
theorem c06_path_cache (parse : Bool → String → P) (maxCache : Nat) (star : Bool) (c : PathCache P)
    (text : String) (hinv : PathInv parse c) (hs : SizeOK maxCache c) :
    (fromText parse maxCache star c text).1 = parse star text ∧
    PathInv parse (fromText parse maxCache star c text).2 ∧
    SizeOK maxCache (fromText parse maxCache star c text).2 :=
  ⟨(fromText_spec parse maxCache star c text hinv).1, (fromText_spec parse maxCache star c text hinv).2,
   fromText_size parse maxCache star c text hs⟩

/-- **The handler memo never changes an answer** and is consistent with the registrations in
    force (a lookup that raises is not memoised). -/
theorem c06_handler_memo (compute : String × String → Option H) (hc : HCache H) (key : String × String)
    (hinv : HInv compute hc) :
    (getHandler compute hc key).1 = compute key ∧ HInv compute (getHandler compute hc key).2 :=
  getHandler_spec compute hc key hinv

/-- **A call behaves as if there were no caches**: whatever the cache contents (warm, cold,
    overflowing), every answer it gets, hence its outcome, is the cache-free one; PATH_STAR and the
    registrations are not changed by a call. -/
theorem c06_call_pure (parse : Bool → String → P) (compute : R → String × String → Option H) (maxCache : Nat)
    (strat : Strategy P H O) (fuel : Nat) (w : World P H R) (hinv : WorldInv parse compute w) :
    (runCached parse compute maxCache strat fuel w []).1 = runPure parse compute strat w.pathStar w.reg fuel [] ∧
    WorldInv parse compute (runCached parse compute maxCache strat fuel w []).2 :=
  ⟨(runCached_spec parse compute maxCache strat fuel w [] hinv).1,
   (runCached_spec parse compute maxCache strat fuel w [] hinv).2.1⟩

/-- **History independence.**  For every finite history of calls, PATH_STAR toggles and
    registrations, started from any world satisfying the invariant, the outcome of every call is
    the reference one: a function of the call, the PATH_STAR value and the registrations in force
    when it is made — never of which calls came before, how often, or what the caches contain. -/
theorem c06_history (parse : Bool → String → P) (compute : R → String × String → Option H) (maxCache : Nat) :
    ∀ (hist : List (HOp P H O R)) (w : World P H R), WorldInv parse compute w →
      (runHistory parse compute maxCache w hist).1 = refHistory parse compute w.pathStar w.reg hist ∧
      WorldInv parse compute (runHistory parse compute maxCache w hist).2 := by
  intro hist
  induction hist with
  | nil => intro w hinv; exact ⟨rfl, hinv⟩
  | cons op rest ih =>
    intro w hinv
    have hstep := stepWorld_inv (O := O) parse compute maxCache w op hinv
    cases op with
    | call strat fuel =>
      have hc := runCached_spec parse compute maxCache strat fuel w [] hinv
      have hrest := ih (runCached parse compute maxCache strat fuel w []).2 hc.2.1
      simp only [runHistory, stepWorld, refHistory]
      rw [hc.2.2.1, hc.2.2.2] at hrest
      exact ⟨by rw [hrest.1, hc.1], hrest.2⟩
    | setStar b =>
      have hrest := ih { w with pathStar := b } hinv
      simp only [runHistory, stepWorld, refHistory]
      exact hrest
    | register rg f =>
      have hrest := ih { w with reg := setAt w.reg rg (f (w.reg rg)), hc := setAt w.hc rg [] } hstep
      simp only [runHistory, stepWorld, refHistory]
      exact hrest

/-- the initial world (empty caches) satisfies the invariant: the theorems apply to every
    reachable state of the library -/
theorem c06_init_inv (parse : Bool → String → P) (compute : R → String × String → Option H) (reg : Nat → R) :
    WorldInv parse compute ({ reg := reg } : World P H R) ∧ SizeOK 0 ({} : PathCache P) := by
  refine ⟨⟨?_, ?_⟩, ?_⟩
  · intro b k v hm; cases b <;> simp [PathCache.get] at hm
  · intro rg k h hm; cases hm
  · intro b; cases b <;> simp [PathCache.get]

/-- **Warming the caches changes nothing.**  Whatever calls were made before (the same call, other
    calls, 10 000 distinct paths …), a call's outcome is the one it has in a world without caches:
    in particular repeating a call gives the same outcome, and the first call in a fresh interpreter
    gives the same outcome as the n-th call in a long-running one. -/
theorem c06_after_any_calls (parse : Bool → String → P) (compute : R → String × String → Option H) (maxCache : Nat)
    (strat : Strategy P H O) (fuel : Nat) (before : List (Strategy P H O × Nat)) (w : World P H R)
    (hinv : WorldInv parse compute w) :
    (runHistory parse compute maxCache w
        (before.map (fun c => (HOp.call c.1 c.2 : HOp P H O R)) ++ [.call strat fuel])).1 =
      before.map (fun c => runPure parse compute c.1 w.pathStar w.reg c.2 []) ++
        [runPure parse compute strat w.pathStar w.reg fuel []] := by
  rw [(c06_history parse compute maxCache _ w hinv).1]
  induction before with
  | nil => simp [refHistory]
  | cons c r ih => simp only [List.map_cons, List.cons_append, refHistory, ih]

/-- **A registration of a related type is seen by the next lookup.**  Whatever was looked up
    before (in particular the very same `(type, op)`, whose handler is then memoised under the
    exact type of the target), after `register` on registry `rg` a lookup in that registry gives
    what the new registrations give; the other registries are not affected by it. -/
theorem c06_register_related (parse : Bool → String → P) (compute : R → String × String → Option H)
    (maxCache : Nat) (before : List (HOp P H O R)) (rg : Nat) (f : R → R) (strat : Strategy P H O) (fuel : Nat)
    (w : World P H R) (hinv : WorldInv parse compute w) :
    (runHistory parse compute maxCache w (before ++ [.register rg f, .call strat fuel])).1 =
      refHistory parse compute w.pathStar w.reg (before ++ [.register rg f, .call strat fuel]) :=
  (c06_history parse compute maxCache _ w hinv).1

/-- the reference of a lookup–register–lookup history, spelled out: the second lookup answers
    with the registrations *after* the `register`, the first with those before -/
theorem c06_lookup_register_lookup (parse : Bool → String → P) (compute : R → String × String → Option H)
    (maxCache : Nat) (rg : Nat) (f : R → R) (ty op : String) (w : World P H R) (hinv : WorldInv parse compute w) :
    (runHistory parse compute maxCache w
        [.call (lookup1 rg ty op) 2, .register rg f, .call (lookup1 rg ty op) 2]).1 =
      [some (compute (w.reg rg) (ty, op)), some (compute (f (w.reg rg)) (ty, op))] := by
  rw [(c06_history parse compute maxCache _ w hinv).1]
  simp [refHistory, runPure, lookup1, setAt]

/-- **Registering a base type wins over the default for its subclasses** (concrete registry:
    types with their MRO): when `X` is in the MRO of `sub` and no type before `X` in that MRO has a
    handler for `op`, then after `register(X, op=h)` the uncached lookup for an object of exact
    type `sub` is `h`. -/
theorem c06_register_base_wins (r : TReg) (X sub op : String) (kw : List (String × Tag)) (h : Tag)
    (hk : assocGet kw op = some h) (hx : X ∈ r.mroOf sub)
    (hbefore : ∀ c, c ∈ (r.mroOf sub).takeWhile (· != X) → assocGet r.entries (c, op) = none) :
    (r.register X kw).compute (sub, op) = some h := by
  have hf := firstRegistered_register r.entries X kw op h hk (r.mroOf sub) hx hbefore
  simp only [TReg.compute, TReg.register, TReg.mroOf] at hf ⊢
  rw [hf]

/-- … and in every history: a lookup for `sub`, then `register(X, op=h)` for a base `X` of `sub`,
    then the same lookup — the second one answers `h`, although the first one memoised the old
    handler under `(sub, op)`. -/
theorem c06_register_base_history (parse : Bool → String → P) (maxCache : Nat) (rg : Nat)
    (X sub op : String) (kw : List (String × Tag)) (h : Tag) (w : World P Tag TReg)
    (hinv : WorldInv parse TReg.compute w)
    (hk : assocGet kw op = some h) (hx : X ∈ (w.reg rg).mroOf sub)
    (hbefore : ∀ c, c ∈ ((w.reg rg).mroOf sub).takeWhile (· != X) → assocGet (w.reg rg).entries (c, op) = none) :
    (runHistory parse TReg.compute maxCache w
        [.call (lookup1 rg sub op) 2, .register rg (fun r => r.register X kw), .call (lookup1 rg sub op) 2]).1 =
      [some ((w.reg rg).compute (sub, op)), some (some h)] := by
  rw [c06_lookup_register_lookup parse TReg.compute maxCache rg (fun r => r.register X kw) sub op w hinv,
    c06_register_base_wins (w.reg rg) X sub op kw h hk hx hbefore]

/-- **A wildcard call uses the handlers of the uncached lookup.**  The lookups `_extend_children`
    makes for the items a `*` / `**` traversal visits (`keys`, then `get`, else `iterate`, per item,
    each depending on the answers before), run without any memo, reach the children of every item
    the way `childUse` says under the registrations in force. -/
theorem c06_star_pure (parse : Bool → String → P) (compute : R → String × String → Option H) (star : Bool)
    (reg : Nat → R) (rg : Nat) (tys : List String) (fuel : Nat) (hf : starFuel tys ≤ fuel) :
    runPure parse compute (starStrategy rg tys) star reg fuel [] = some (refStar (compute (reg rg)) tys) :=
  runPure_star parse compute star reg rg tys fuel hf

/-- **… after any history.**  Whatever came before — the same traversal over the same types (whose
    handlers are then memoised), other calls, PATH_STAR toggles, registrations of `keys` / `get` /
    `iterate` handlers for the traversed types or their bases on this or another registry — a
    wildcard call reaches the children of every item by the handlers the registrations in force *at
    that moment* give. -/
theorem c06_star_any_history (parse : Bool → String → P) (compute : R → String × String → Option H)
    (maxCache : Nat) (before : List (HOp P H (List (StarUse H)) R)) (rg : Nat) (tys : List String) (fuel : Nat)
    (hf : starFuel tys ≤ fuel) (w : World P H R) (hinv : WorldInv parse compute w) :
    (runHistory parse compute maxCache w (before ++ [.call (starStrategy rg tys) fuel])).1 =
      refHistory parse compute w.pathStar w.reg before ++
        [some (refStar (compute (regsAfter w.reg before rg)) tys)] := by
  rw [(c06_history parse compute maxCache _ w hinv).1, refHistory_append_call,
    c06_star_pure parse compute _ _ rg tys fuel hf]

/-- the history of the seeded class, spelled out: a wildcard traversal, a registration on the same
    registry, the same traversal — the second one uses the handlers of the *new* registrations for
    every visited type, although the first one memoised the old ones. -/
theorem c06_star_register_star (parse : Bool → String → P) (compute : R → String × String → Option H)
    (maxCache : Nat) (rg : Nat) (f : R → R) (tys : List String) (fuel : Nat) (hf : starFuel tys ≤ fuel)
    (w : World P H R) (hinv : WorldInv parse compute w) :
    (runHistory parse compute maxCache w
        [.call (starStrategy rg tys) fuel, .register rg f, .call (starStrategy rg tys) fuel]).1 =
      [some (refStar (compute (w.reg rg)) tys), some (refStar (compute (f (w.reg rg))) tys)] := by
  rw [(c06_history parse compute maxCache _ w hinv).1]
  simp only [refHistory, c06_star_pure parse compute _ _ rg tys fuel hf, setAt_same]

/-- **Registering `keys` for a base changes how `*` expands its subclasses** (concrete registry):
    when `X` is in the MRO of `sub` with no nearer type registered for `keys`, then after
    `register(X, keys=h)` the children of an instance of `sub` are reached through `h` and the
    `get` handler then in force. -/
theorem c06_star_register_keys (r : TReg) (X sub : String) (kw : List (String × Tag)) (h g : Tag)
    (hk : assocGet kw "keys" = some h) (hx : X ∈ r.mroOf sub)
    (hbefore : ∀ c, c ∈ (r.mroOf sub).takeWhile (· != X) → assocGet r.entries (c, "keys") = none)
    (hg : (r.register X kw).compute (sub, "get") = some g) :
    childUse (r.register X kw).compute sub = .keysGet h g := by
  unfold childUse
  rw [c06_register_base_wins r X sub "keys" kw h hk hx hbefore, hg]

/-- **… and `iterate` for a type whose items are reached by iteration** (no `keys` handler: an
    object without `__dict__`): after `register(X, iterate=h)` for a base `X` the children of an
    instance of `sub` are `h(instance)`. -/
theorem c06_star_register_iterate (r : TReg) (X sub : String) (kw : List (String × Tag)) (h : Tag)
    (hk : assocGet kw "iterate" = some h) (hx : X ∈ r.mroOf sub)
    (hbefore : ∀ c, c ∈ (r.mroOf sub).takeWhile (· != X) → assocGet r.entries (c, "iterate") = none)
    (hkeys : (r.register X kw).compute (sub, "keys") = none) :
    childUse (r.register X kw).compute sub = .iter h := by
  unfold childUse
  rw [hkeys, c06_register_base_wins r X sub "iterate" kw h hk hx hbefore]

/-- both, in a history: `sub.*`, then `register(X, iterate=h)` for a base, then `sub.*` again -/
theorem c06_star_register_base_history (parse : Bool → String → P) (maxCache : Nat) (rg : Nat)
    (X sub : String) (kw : List (String × Tag)) (h : Tag) (w : World P Tag TReg)
    (hinv : WorldInv parse TReg.compute w)
    (hk : assocGet kw "iterate" = some h) (hx : X ∈ (w.reg rg).mroOf sub)
    (hbefore : ∀ c, c ∈ ((w.reg rg).mroOf sub).takeWhile (· != X) → assocGet (w.reg rg).entries (c, "iterate") = none)
    (hkeys : ((w.reg rg).register X kw).compute (sub, "keys") = none) :
    (runHistory parse TReg.compute maxCache w
        [.call (starStrategy rg [sub]) 4, .register rg (fun r => r.register X kw), .call (starStrategy rg [sub]) 4]).1 =
      [some [childUse (w.reg rg).compute sub], some [.iter h]] := by
  rw [c06_star_register_star parse TReg.compute maxCache rg (fun r => r.register X kw) [sub] 4 (by simp [starFuel]) w hinv]
  simp only [refStar, List.map_cons, List.map_nil,
    c06_star_register_iterate (w.reg rg) X sub kw h hk hx hbefore hkeys]

/-- **`Vars`: an evaluation writes only its own ScopeVars object.**  On a heap of dict objects,
    evaluating a spec that holds `Vars(<dict at base>, **defaults)` with any reads / writes
    (`S.v.name`, `A.v.name`): every dict object that existed before — the one the spec and the
    caller hold included — is unchanged, and the reads are those of the value-level reference. -/
theorem c06_vars_frame {V : Type} (h : VHeap V) (base : Nat) (defaults : VDict V) (ops : List (VOp V)) :
    (evalVars h base defaults ops).2 = refVars (h.getD base []) defaults ops ∧
    ∀ b, b < h.length → (evalVars h base defaults ops).1.getD b [] = h.getD b [] := by
  unfold evalVars scopeVarsInit refVars
  simp only
  have ha : h.length < (h ++ [List.foldl (fun d kv => dSet d kv.1 kv.2) (h.getD base []) defaults]).length := by
    simp
  obtain ⟨h1, _, h3⟩ := runVOps_spec ops _ h.length ha
  refine ⟨?_, ?_⟩
  · rw [h1]; simp
  · intro b hb
    rw [h3 b (by omega)]
    simp [List.getD_eq_getElem?_getD, List.getElem?_append_left hb]

/-- **`Vars`: the second evaluation of the same spec object is a first evaluation.**  Whatever
    the first evaluation wrote, the reads of the second are the reference ones for the dict the
    spec holds, which is still what it was. -/
theorem c06_vars_history {V : Type} (h : VHeap V) (base : Nat) (hb : base < h.length) (defaults : VDict V)
    (ops1 ops2 : List (VOp V)) :
    (evalVars (evalVars h base defaults ops1).1 base defaults ops2).2 = refVars (h.getD base []) defaults ops2 := by
  rw [(c06_vars_frame _ base defaults ops2).1, (c06_vars_frame h base defaults ops1).2 base hb]

/-! ### non-vacuity: a concrete strategy, a warm and an overflowing cache -/

private def parse0 (star : Bool) (_t : String) : Bool := star

private def strat0 : Strategy Bool Nat (Bool × Option Nat) := fun answers =>
  match answers with
  | [] => .inl (.path "a.*")
  | [.path _] => .inl (.handler 0 "dict" "get")
  | [.path p, .handler h] => .inr (p, h)
  | _ => .inr (false, none)

example : (runHistory (R := Nat) parse0 (fun reg _ => some reg) 0 { reg := fun _ => 7 }
    [.call strat0 5, .call strat0 5, .setStar false, .call strat0 5, .register 0 (· + 1), .setStar true,
     .call strat0 5, .register 1 (· + 5), .call strat0 5]).1 =
    [some (true, some 7), some (true, some 7), some (false, some 7), some (true, some 8), some (true, some 8)] := by
  decide

example : WorldInv (H := Nat) (R := Nat) parse0 (fun reg _ => some reg) { reg := fun _ => 7 } :=
  (c06_init_inv parse0 _ _).1

/-! a base registered after its subclass was looked up (the hypotheses of `c06_register_base_wins`
    hold for a concrete hierarchy); without "no nearer registered type" the conclusion fails -/

private def reg0 : TReg := { mro := [("Child", ["Child", "Base", "object"]), ("Base", ["Base", "object"])] }

example : (reg0.register "Base" [("get", "shout")]).compute ("Child", "get") = some "shout" := by decide
example : reg0.compute ("Child", "get") = some "default" := by decide
example : ((reg0.register "Child" [("iterate", "it")]).register "Base" [("get", "shout")]).compute ("Child", "get")
    = some "default" := by decide

private def parseStar0 (star : Bool) (_t : String) : Bool := star

private def lookChild : Strategy Bool Tag (Option Tag) := lookup1 1 "Child" "get"

example : (runHistory parse0 TReg.compute 0 { reg := fun _ => reg0 }
    [.call lookChild 2, .register 1 (fun r => r.register "Base" [("get", "shout")]), .call lookChild 2,
     .register 0 (fun r => r.register "Base" [("get", "other")]), .call lookChild 2]).1 =
    [some (some "default"), some (some "shout"), some (some "shout")] := by decide

/-! wildcard traversal: a slotted iterable (`Bag`: no `__dict__`, so no built-in `keys` handler) and a
    plain object (`Rec`), traversed, registered for, traversed again; a `keys` registration turns a
    type that was iterated into one expanded by keys; too little fuel = the call has no outcome (the
    hypothesis `starFuel tys ≤ fuel` is needed) -/

private def reg1 : TReg :=
  { mro := [("Bag", ["Bag", "object"]), ("Rec", ["Rec", "object"]), ("SubBag", ["SubBag", "Bag", "object"])],
    nodefault := [("Bag", "keys"), ("SubBag", "keys")] }

example : refStar reg1.compute ["Bag", "Rec"] = [.iter "default", .keysGet "default" "default"] := by decide

example : (runHistory parseStar0 TReg.compute 0 { reg := fun _ => reg1 }
    [.call (starStrategy 0 ["SubBag", "Rec"]) 7,
     .register 0 (fun r => r.register "Bag" [("iterate", "newest_first")]),
     .call (starStrategy 0 ["SubBag", "Rec"]) 7,
     .register 0 (fun r => r.register "Rec" [("keys", "public_keys")]),
     .call (starStrategy 0 ["SubBag", "Rec"]) 7,
     .register 1 (fun r => r.register "Rec" [("get", "other")]),
     .call (starStrategy 0 ["SubBag", "Rec"]) 7,
     .register 0 (fun r => r.register "SubBag" [("keys", "k")]),
     .call (starStrategy 0 ["SubBag", "Rec"]) 7]).1 =
    [some [.iter "default", .keysGet "default" "default"],
     some [.iter "newest_first", .keysGet "default" "default"],
     some [.iter "newest_first", .keysGet "public_keys" "default"],
     some [.iter "newest_first", .keysGet "public_keys" "default"],
     some [.keysGet "k" "default", .keysGet "public_keys" "default"]] := by decide

example : runPure parseStar0 TReg.compute (starStrategy 0 ["Bag", "Rec"]) true (fun _ => reg1) 4 [] = none := by
  decide

example : (reg1.register "Bag" [("iterate", "h")]).compute ("SubBag", "keys") = none := by decide

/-! `Vars`: two evaluations of a spec holding the dict at address 0; the second does not see the
    first one's write, and the dict at address 0 is what it was -/

example : (evalVars [[("floor", 0)]] 0 [] [.read "last", .write "last" 1, .read "last"]).2 = [none, some 1] := by
  decide
example : (evalVars (evalVars [[("floor", 0)]] 0 [] [.write "last" 1]).1 0 [] [.read "last", .read "floor"]).2
    = [none, some 0] := by decide
example : ((evalVars [[("floor", 0)]] 0 [("d", 5)] [.write "floor" 9]).1).getD 0 [] = [("floor", 0)] := by decide

end Glom.Props.C06
