import Glom.Lemmas.C05Repr
import Glom.Lemmas.C05ReprPrefix
import Glom.Generated.C05Facts
/-
  C05 — the values on the `Target:` / `Spec:` lines: `bbrepr` against Python's `repr`.

  `bbrepr` is a `reprlib.Repr` (Model/C05Repr.lean: `repr1` with its level count, `_repr_iterable`,
  `repr_dict`, `repr_str`, `repr_int`, `repr_instance`, every one with its own size limit) whose
  limits `_BBRepr.__init__` raises.  What the limits of glom's instance ARE is extracted on every
  run (Generated/C05Facts.lean, by introspection of the instance behind `glom.core.bbrepr`).

    c05_facts_wf          the extracted instance has exactly the limits the model knows, every one
                          of them ≥ `limitBound`, fill value `...`, no indentation, no overridden
                          `repr_*` method                                              (by `decide`)
    c05_repr_exact        for EVERY limits record and every value (any nesting, any size): a value
                          within the limits (`fits`: no container nested deeper than `maxlevel`, none
                          longer than the limit of its kind, no leaf text longer than its limit) is
                          rendered exactly as Python's `repr` renders it (`refRepr`)
    c05_trace_value_exact … so its trace line is `_format_trace_value` of Python's own repr
    c05_repr_exact_of_facts / c05_repr_exact_glom   … for every table satisfying `limitsWF` (in particular
                          the one extracted on this run) and every value below `limitBound`
    c05_trace_value_any / _glom   for ANY value (beyond the limits too: the model elides like glom) the
                          trace value at every width ≤ `maxTraceWidth` is that of Python's own repr —
                          the elisions of reprlib keep `(limit - 3) / 2` characters, `.replace` at most
                          halves them, `limitBound` is four lines and more (Lemmas/C05ReprPrefix:
                          `agree_all` by induction over values with a prefix budget per nesting
                          level); hypothesis: long strings keep their quote (`c05_repr_quote_unstable`)
    c05_repr_one_line     the model's text of a value has no line break (the hypothesis of
                          Props/C05Text on spec / target texts), given that of the opaque leaves
    c05_default_limits_elide   with the limits of a plain `reprlib.Repr()` (what a limit falls back to
                          when `__init__` does not raise it) short values are NOT shown: one
                          witness per limit (the nesting witness is C05-s9's `[[[[[[['x']]]]]]]`)
-/
set_option linter.unusedSimpArgs false
namespace Glom.Props.C05
open Glom.C05

/-- **facts obligation** (re-proved on every run against the regenerated table) -/
theorem c05_facts_wf :
    limitsWF Glom.Generated.bbLimitTable Glom.Generated.bbFill Glom.Generated.bbIndentNone
      Glom.Generated.bbOverrides = true := by decide

/-- **a value within the limits is rendered as Python's `repr` renders it**, for every limits
    record, every printability predicate and every value -/
theorem c05_repr_exact (L : Limits) (P : Char → Bool) (v : RV) (h : fits L P v = true) :
    bbrepr L P v = refRepr P v :=
  repr1_exact L P v L.maxlevel h

/-- … and the line `_format_trace_value` makes of it is the line of Python's own repr -/
theorem c05_trace_value_exact (L : Limits) (P : Char → Bool) (v : RV) (h : fits L P v = true)
    (vlen : Option Nat) (maxlen : Int) :
    formatValue (traceRepr L P v) vlen maxlen = formatValue (refTrace P v) vlen maxlen := by
  unfold traceRepr refTrace
  rw [c05_repr_exact L P v h]

/-- **the facts obligation is what makes glom's traces show values**: for every extracted table
    that satisfies `limitsWF`, every value whose nesting depth, container lengths and leaf texts
    stay below `limitBound` (four trace lines of the widest width) is rendered exactly as Python's
    `repr` renders it. -/
theorem c05_repr_exact_of_facts (tbl : List (String × Nat)) (fillv : String) (ind : Bool) (ov : List String)
    (hwf : limitsWF tbl fillv ind ov = true) (P : Char → Bool) (v : RV)
    (hv : fits (Limits.uniform limitBound) P v = true) :
    bbrepr (limitsOf tbl) P v = refRepr P v := by
  simp only [limitsWF, Bool.and_eq_true] at hwf
  apply c05_repr_exact
  exact (fits_mono _ _ P (uniform_le_of_allGe _ _ hwf.1.1.1.2) v).1 _ _
    (uniform_le_of_allGe _ _ hwf.1.1.1.2).1 hv

/-- … in particular for the table extracted from glom on this run -/
theorem c05_repr_exact_glom (P : Char → Bool) (v : RV) (hv : fits (Limits.uniform limitBound) P v = true) :
    bbrepr (limitsOf Glom.Generated.bbLimitTable) P v = refRepr P v :=
  c05_repr_exact_of_facts _ _ _ _ c05_facts_wf P v hv

/-- **the model's text of a value is a single line** — the hypothesis the theorems about the rendered
    text (Props/C05Text) make on spec and target texts: for every limits record, every printability
    predicate and every value, `bbrepr(value).replace("\\'", "'")` has no line break, provided the
    texts the model takes as given (the `repr()` of leaves that are not builtin containers / str /
    int, the names of builtins, the typecode of an array) have none.  Line breaks inside strings
    are escaped by `str.__repr__` (`pyStrRepr_OneLine`). -/
theorem c05_repr_one_line (L : Limits) (P : Char → Bool) (v : RV) (h : leavesOneLine v) :
    ∀ c, c ∈ traceRepr L P v → c ≠ '\n' :=
  replQ_OneLine _ ((repr1_OneLine_all L P v h).1 L.maxlevel)

/-- **the size limits of `bbrepr` do not show in a trace line, for ANY value**: for every extracted
    table that satisfies `limitsWF`, every value — however deep, long or large; beyond the limits the
    model elides like glom — and every available width up to `maxTraceWidth` (that can hold the
    `...` / `... (len=n)` mark), the trace value `_format_trace_value` makes of `bbrepr`'s text is the
    one it would make of Python's own `repr`.
    Hypothesis `strOK`: a string longer than `maxstring` keeps its quote when `repr_str` cuts its
    middle out (`QuoteStable`; trivially so for a string without quote characters, or not longer
    than half the limit) — needed, see `c05_repr_quote_unstable`. -/
theorem c05_trace_value_any (tbl : List (String × Nat)) (fillv : String) (ind : Bool) (ov : List String)
    (hwf : limitsWF tbl fillv ind ov = true) (P : Char → Bool) (v : RV) (hs : strOK (limitsOf tbl) v)
    (vlen : Option Nat) (m : Int) (hm : m ≤ maxTraceWidth)
    (hsuf : ((match vlen with
      | some n => "... (len=".toList ++ natStr n ++ ")".toList
      | none => "...".toList).length : Int) ≤ m) :
    formatValue (traceRepr (limitsOf tbl) P v) vlen m = formatValue (refTrace P v) vlen m := by
  simp only [limitsWF, Bool.and_eq_true] at hwf
  have hge : (limitsOf tbl).allGe limitBound = true := hwf.1.1.1.2
  have hL : (limitsOf tbl).allGe (2 * (2 * maxTraceWidth + 4) + 5) = true :=
    allGe_mono _ _ _ hge (by decide)
  have hlev : 2 * maxTraceWidth + 4 ≤ (limitsOf tbl).maxlevel := by
    have := (uniform_le_of_allGe _ _ hge).1
    simp only [Limits.uniform] at this
    have h2 : 2 * maxTraceWidth + 4 ≤ limitBound := by decide
    omega
  have hA := (agree_all (limitsOf tbl) P (2 * maxTraceWidth + 4) hL v hs).1 (limitsOf tbl).maxlevel
    (2 * maxTraceWidth + 4) hlev (Nat.le_refl _)
  have hB := hA.replQ
  apply formatValue_agree _ _ _ vlen m hB _ hsuf
  have : ((2 * maxTraceWidth + 4) / 2 - 1 : Nat) = maxTraceWidth + 1 := by decide
  rw [this]
  omega

/-- … in particular for the table extracted from glom on this run -/
theorem c05_trace_value_any_glom (P : Char → Bool) (v : RV) (hs : strOK (limitsOf Glom.Generated.bbLimitTable) v)
    (vlen : Option Nat) (m : Int) (hm : m ≤ maxTraceWidth)
    (hsuf : ((match vlen with
      | some n => "... (len=".toList ++ natStr n ++ ")".toList
      | none => "...".toList).length : Int) ≤ m) :
    formatValue (traceRepr (limitsOf Glom.Generated.bbLimitTable) P v) vlen m = formatValue (refTrace P v) vlen m :=
  c05_trace_value_any _ _ _ _ c05_facts_wf P v hs vlen m hm hsuf

/-- a string with both quote characters, the `"` in the middle `repr_str` cuts out (`'aaaa…"…aaaa`;
    limits 13, so that 40 characters suffice) -/
def quoteStr : Str := '\'' :: (List.replicate 20 'a' ++ '"' :: List.replicate 20 'a')

/-- **`strOK` is needed**: `repr_str` takes the quote of the CUT string — which has lost its `"` — so
    its text starts with another quote than Python's repr of the whole string: no common prefix at
    all.  (glom before de451ae, limits 1024: a str of more than 1024 characters with `'` in its first /
    last 510 and `"` only in the middle was shown as `"'aaa…` instead of `'\'aaa…`; with the limits at
    `sys.maxsize` nothing is cut.) -/
theorem c05_repr_quote_unstable :
    (limitsOf [("maxlevel", 13), ("maxtuple", 13), ("maxlist", 13), ("maxarray", 13), ("maxdict", 13), ("maxset", 13),
      ("maxfrozenset", 13), ("maxdeque", 13), ("maxstring", 13), ("maxlong", 13), ("maxother", 13)]).allGe (2 * 4 + 5) = true ∧
    (bbrepr (Limits.uniform 13) (fun c => c.toNat < 127) (.str quoteStr)).head? = some '"' ∧
    (refRepr (fun c => c.toNat < 127) (.str quoteStr)).head? = some '\'' := by
  decide +kernel

/-! ### the limits matter: under reprlib's defaults short values are not shown -/

private def lst (xs : List RV) : RV := .seq .list (xs.foldr .cons .nil)
private def ascii (c : Char) : Bool := c.toNat < 127

/-- `[[[[[[['x']]]]]]]` (C05-s9) -/
def deep7 : RV := lst [lst [lst [lst [lst [lst [lst [.str ['x']]]]]]]]

/-- **with the limits of a plain `reprlib.Repr()` a short value is elided**, one witness per kind of
    limit: nesting deeper than 6, more than 6 items, more than 4 dict entries, a str of more than 30,
    an int of more than 40 characters.  (This is what a limit `_BBRepr.__init__` does not raise
    falls back to.) -/
theorem c05_default_limits_elide :
    let D := limitsOf Glom.Generated.reprDefaults
    String.ofList (bbrepr D ascii deep7) = "[[[[[[[...]]]]]]]" ∧
    String.ofList (refRepr ascii deep7) = "[[[[[[['x']]]]]]]" ∧
    String.ofList (bbrepr D ascii (lst ((List.range 8).map (fun n => .int (n : Nat))))) = "[0, 1, 2, 3, 4, 5, ...]" ∧
    String.ofList (bbrepr D ascii (.dict ((List.range 5).foldr (fun n acc => .cons (.int (n : Nat)) (.cons (.int 0) acc)) .nil))) =
      "{0: 0, 1: 0, 2: 0, 3: 0, ...}" ∧
    String.ofList (bbrepr D ascii (.str (List.replicate 31 'a'))) = "'aaaaaaaaaaaa...aaaaaaaaaaaaa'" ∧
    String.ofList (bbrepr D ascii (.int (10 ^ 41))) = "100000000000000000...0000000000000000000" := by
  decide +kernel

/-! ### non-vacuity -/

/-- glom's limits, as extracted -/
example : (limitsOf Glom.Generated.bbLimitTable).allGe limitBound = true := by decide

/-- `deep7` is within glom's limits, so it is shown in full -/
example : fits (limitsOf Glom.Generated.bbLimitTable) ascii deep7 = true := by decide +kernel
example : String.ofList (bbrepr (limitsOf Glom.Generated.bbLimitTable) ascii deep7) = "[[[[[[['x']]]]]]]" := by
  decide +kernel
/-- … and it is not within the defaults (`c05_repr_exact`'s hypothesis cannot be dropped) -/
example : fits (limitsOf Glom.Generated.reprDefaults) ascii deep7 = false := by decide +kernel

end Glom.Props.C05
