import Glom.Lemmas.C04
import Glom.Model.C04Env
/-
  C04 — Exceptions keep their class; glom failures are GlomErrors; default is selective.

  Property theorems only; helper lemmas are in `Glom/Lemmas/C04.lean`.
  Every theorem is for ALL exception classes (any MRO, any constructor
  `ctor : Args → Option Args`, truthy or falsy instances, any `__reduce__`/`__copy__` kind),
  all `.args`, all `(default, skip_exc, glom_debug)` combinations, all specs / nesting
  depths, and all facts values that satisfy the decidable predicate `WF`;
  `c04_facts_wf` discharges `WF` for the facts regenerated from /repo on this run.

  Hypothesis `Tame F c` (forced, see the counter-examples at the end; the known findings
  `glomerror_refuses_setattr`, `copy_returns_other_class`): attribute assignment on a GlomError
  instance and `bool(e)` succeed or are guarded, a user `__copy__` keeps the class.
  (That the `type(…)` call of `GlomError.wrap` is guarded is part of `WF` since repair 205945c.)
-/
namespace Glom.Props.C04
open Glom Glom.C04

/-- **Facts obligation**: `glom()` in /repo has the documented keyword defaulting, the two
    nested `try` blocks in the modelled order, an outer `except Exception`, both guards
    around `copy.copy` and inside `GlomError.wrap` (the `type(…)` call included), `if err is not None`, a
    `TypeMatchError.__copy__` that keeps the class, `_glom` re-raising unchanged, the
    documented `except` clauses around `iterate(target)`, `T[…]`, `T.x` and path access,
    `Spec.glom` / `Glommer.glom` handing every keyword on. -/
theorem c04_facts_wf : WF genFacts = true := by decide +kernel

/-- **Facts obligation** (`c04_internal_subtypes`): every `raise X(…)` in glom's own modules
    names a glom exception class with GlomError in its MRO, or a builtin `Exception` class
    that stores its args unchanged (hence leaves `glom()` as a GlomError by
    `c04_glomerror`); PathAccessError is a KeyError, IndexError and AttributeError,
    BadSpec and TypeMatchError are TypeErrors. -/
theorem c04_internal_subtypes :
    internalWF Generated.excTable Generated.excCtor Generated.raiseTable Generated.raiseUnresolved
      Generated.raisedBuiltinStoreAll = true := by decide +kernel

/-- Whatever leaves `glom()` is an instance of the class of the exception originally raised. -/
theorem c04_class (F : Facts) (hwf : WF F = true) (s : Settings) (e out : ExcObj) (ht : Tame F e.cls)
    (h : glomTop F s (.exc e) = .exc out) : isInst out e.cls.name = true := by
  have w := WF_parts hwf
  rcases glomTop_cases w s e with ⟨_, d, _, hd⟩ | ⟨_, ho⟩
  · rw [hd] at h; cases h
  · obtain ⟨out', h', hf⟩ := outer_faithful w s e ht
    rw [ho, h'] at h; cases h; exact hf.1

/-- … with the same args. -/
theorem c04_args (F : Facts) (hwf : WF F = true) (s : Settings) (e out : ExcObj) (ht : Tame F e.cls)
    (h : glomTop F s (.exc e) = .exc out) : out.args = e.args := by
  have w := WF_parts hwf
  rcases glomTop_cases w s e with ⟨_, d, _, hd⟩ | ⟨_, ho⟩
  · rw [hd] at h; cases h
  · obtain ⟨out', h', hf⟩ := outer_faithful w s e ht
    rw [ho, h'] at h; cases h; exact hf.2

/-- **Callers' except clauses keep working**: what leaves `glom()` is an instance of EVERY class
    the original exception was an instance of. -/
theorem c04_except_clauses (F : Facts) (hwf : WF F = true) (s : Settings) (e out : ExcObj)
    (ht : Tame F e.cls) (hok : ClassOK e.cls) (h : glomTop F s (.exc e) = .exc out) :
    ∀ c, isInst e c = true → isInst out c = true := by
  have w := WF_parts hwf
  rcases glomTop_cases w s e with ⟨_, d, _, hd⟩ | ⟨_, ho⟩
  · rw [hd] at h; cases h
  · obtain ⟨out', h', hr⟩ := outer_raised w s e ht
    rw [ho, h'] at h; cases h; exact hr.sup hok

/-- Whenever the class is an `Exception` subclass that can be rebuilt from its args by a class
    that can be extended (or is a GlomError already) the raised object is also a GlomError
    (`glom_debug` off). -/
theorem c04_glomerror (F : Facts) (hwf : WF F = true) (s : Settings) (e out : ExcObj) (ht : Tame F e.cls)
    (hdebug : s.debug.getD false = false)
    (hexc : isInst e "Exception" = true)
    (hre : isInst e "GlomError" = true ∨
      (rebuildable e = true ∧ extensible e = true ∧ (wrapClass e.cls).isSome = true))
    (h : glomTop F s (.exc e) = .exc out) : isInst out "GlomError" = true := by
  have w := WF_parts hwf
  rcases glomTop_cases w s e with ⟨_, d, _, hd⟩ | ⟨_, ho⟩
  · rw [hd] at h; cases h
  · have hd : effDebug F s = false := by rw [effDebug_eq w]; exact hdebug
    obtain ⟨out', h', hg⟩ := handler_glomerror w s e ht hd hre
    have hc : matchesAny e F.outerCatch = true := by simp [w.outerCatch, matchesAny, hexc]
    rw [ho] at h
    unfold outer at h
    rw [if_pos hc, h'] at h
    cases h; exact hg

/-- The default is returned exactly for the errors the caller selected (they match
    `skip_exc` — by default GlomError — AT THEIR ORIGIN, before any wrapping), and what is
    returned is the default object itself (the object passed as `default=`, else `None`). -/
theorem c04_selective (F : Facts) (hwf : WF F = true) (s : Settings) (e : ExcObj) (ht : Tame F e.cls) :
    ((∃ d, glomTop F s (.exc e) = .dflt d) ↔ selected s e = true) ∧
    (∀ d, glomTop F s (.exc e) = .dflt d → refDefault s = some d) ∧
    (glomTop F s (.exc e) ≠ .value) := by
  have w := WF_parts hwf
  rcases glomTop_cases w s e with ⟨hs, d, hr, hd⟩ | ⟨hs, ho⟩
  · refine ⟨⟨fun _ => hs, fun _ => ⟨d, hd⟩⟩, ?_, ?_⟩
    · intro d' h'; rw [hd] at h'; cases h'; exact hr
    · rw [hd]; intro h'; cases h'
  · obtain ⟨out, h', _⟩ := outer_faithful w s e ht
    refine ⟨⟨?_, ?_⟩, ?_, ?_⟩
    · rintro ⟨d, hd⟩; rw [ho, h'] at hd; cases hd
    · intro h; rw [hs] at h; cases h
    · intro d hd; rw [ho, h'] at hd; cases hd
    · rw [ho, h']; intro h; cases h

/-- `glom_debug=True` propagates the original exception OBJECT — with its `__cause__`, `__context__`
    and everything else — (unless the caller selected it for replacement by the default). -/
theorem c04_debug_identity (F : Facts) (hwf : WF F = true) (s : Settings) (e : ExcObj)
    (hdebug : s.debug = some true) (hsel : selected s e = false) :
    glomTop F s (.exc e) = .exc e := by
  have w := WF_parts hwf
  rcases glomTop_cases w s e with ⟨hs, _⟩ | ⟨_, ho⟩
  · rw [hsel] at hs; cases hs
  · rw [ho]; unfold outer
    split
    · exact handler_debug s e (by simp [effDebug, hdebug])
    · rfl

/-- `BaseException`-only classes (KeyboardInterrupt, SystemExit, GeneratorExit, BaseExceptionGroup and
    their subclasses) pass untouched: the very object, whatever `glom_debug` says. -/
theorem c04_baseexception_untouched (F : Facts) (hwf : WF F = true) (s : Settings) (e : ExcObj)
    (hbase : isInst e "Exception" = false) (hsel : selected s e = false) :
    glomTop F s (.exc e) = .exc e := by
  have w := WF_parts hwf
  rcases glomTop_cases w s e with ⟨hs, _⟩ | ⟨_, ho⟩
  · rw [hsel] at hs; cases hs
  · rw [ho]; unfold outer
    simp [w.outerCatch, matchesAny, hbase]

/-- **The original stays reachable** (`__cause__` / `__context__` / `__traceback__` of the original):
    what leaves `glom()` is the original object itself — its chain untouched — or carries the
    original as `_GlomError__wrapped`. -/
theorem c04_chain (F : Facts) (hwf : WF F = true) (s : Settings) (e out : ExcObj) (ht : Tame F e.cls)
    (h : glomTop F s (.exc e) = .exc out) : out = e ∨ out.wrapped = some e.id := by
  have w := WF_parts hwf
  rcases glomTop_cases w s e with ⟨_, d, _, hd⟩ | ⟨_, ho⟩
  · rw [hd] at h; cases h
  · obtain ⟨out', h', hr⟩ := outer_raised w s e ht
    rw [ho, h'] at h; cases h; exact hr.reach

/-- … and when a NEW object leaves in place of a foreign exception (the wrapper), it was raised outside
    every `except` block: its own `__cause__` and `__context__` are empty, the original — with its chain —
    is its `_GlomError__wrapped`. -/
theorem c04_wrapper_fresh_chain (F : Facts) (hwf : WF F = true) (s : Settings) (e out : ExcObj) (ht : Tame F e.cls)
    (hg : isInst e "GlomError" = false) (hne : out ≠ e) (h : glomTop F s (.exc e) = .exc out) :
    out.cause = none ∧ out.context = none ∧ out.wrapped = some e.id ∧
      ∃ wc, wrapClass e.cls = some wc ∧ out.cls = wc := by
  have w := WF_parts hwf
  rcases glomTop_cases w s e with ⟨_, d, _, hd⟩ | ⟨_, ho⟩
  · rw [hd] at h; cases h
  · obtain ⟨out', h', hr⟩ := outer_raised w s e ht
    rw [ho, h'] at h; cases h
    cases hr with
    | orig h => exact absurd h hne
    | copy _ _ _ hge => rw [hg] at hge; cases hge
    | wrapper wc hwc hc _ hw hcc _ => exact ⟨hcc.1, hcc.2, hw, wc, hwc, hc⟩

/-- **What was selected at its origin stays selected**: the object that leaves a `glom()` call matches
    every `skip_exc` the original matched (an enclosing `glom(default=…)` or `Coalesce` with the same
    `skip_exc` still replaces it); the only classes it is an instance of in addition are the wrapper
    class and GlomError. -/
theorem c04_selected_monotone (F : Facts) (hwf : WF F = true) (s s' : Settings) (e out : ExcObj)
    (ht : Tame F e.cls) (hok : ClassOK e.cls) (h : glomTop F s (.exc e) = .exc out)
    (hsel : selected s' e = true) : selected s' out = true := by
  have hsup := c04_except_clauses F hwf s e out ht hok h
  simp only [selected, Bool.and_eq_true] at hsel ⊢
  exact ⟨hsel.1, matchesAny_mono hsup _ hsel.2⟩

/-! ### the class `GlomError.wrap` creates: C3 linearisation -/

/-- **Soundness of the modelled C3 merge**, for arbitrary hierarchies: every class of every
    merged list — hence every base of every base — is in the MRO that results. -/
theorem c04_c3_sound (n : Nat) (ls : List (List String)) (r : List String) (h : c3merge n ls = some r) :
    ∀ l ∈ ls, ∀ x ∈ l, x ∈ r := c3merge_sound n ls r h

/-- **The modelled C3 merge respects every order it is given**: the MRO of each base and the order
    of the bases themselves are subsequences of the resulting MRO (local precedence, monotonicity). -/
theorem c04_c3_order (n : Nat) (ls : List (List String)) (r : List String) (h : c3merge n ls = some r) :
    ∀ l ∈ ls, l.Sublist r := c3merge_order n ls r h

/-- Single inheritance is the special case the C3 model must reduce to: `class U(B)` has the MRO
    `U` followed by `B`'s MRO. -/
theorem c04_c3_single (name b : String) (t : List String) (hnd : (b :: t).Nodup) :
    linearize name [b :: t] = some (name :: b :: t) := by
  unfold linearize
  simp only [List.map_cons, List.map_nil, List.headD_cons, List.cons_append, List.nil_append]
  rw [c3merge_dominant (b :: t) [[b]] _ hnd ?_ (by simp)]
  · rfl
  · intro l hl
    simp only [List.mem_cons, List.not_mem_nil, or_false] at hl
    subst hl
    exact List.Sublist.cons_cons _ (List.nil_sublist _)

/-- Whenever Python can create the wrapper class, the original class, GlomError, and every
    class the original class derives from are in its MRO: both `except GlomError` and
    `except <any base of the original>` catch its instances. -/
theorem c04_wrapper_catchable (c wc : ClassInfo) (h : wrapClass c = some wc) (hok : ClassOK c) :
    wc.mro.contains c.name = true ∧ wc.mro.contains "GlomError" = true ∧ ∀ x ∈ c.mro, x ∈ wc.mro :=
  ⟨wrapClass_has_orig h, wrapClass_has_glom h, wrapClass_sup h hok⟩

/-- **The wrapper class exists** for every consistent MRO of an `Exception` subclass that is not
    a GlomError (`c`, then classes that are none of GlomError's bases, `Exception`, then a rest
    that has `BaseException` before `object`): C3 puts GlomError directly before `Exception`. -/
theorem c04_wrapper_mro (c : String) (pre rest : List String)
    (hnd : (c :: pre ++ "Exception" :: rest).Nodup)
    (hfree : ∀ x ∈ c :: pre, Free x) (hg : "GlomError" ∉ rest)
    (hsub : ["BaseException", "object"].Sublist rest) :
    wrapMro (c :: pre ++ "Exception" :: rest) = some (c :: pre ++ "GlomError" :: "Exception" :: rest) ∧
    insertGlom (c :: pre ++ "Exception" :: rest) = c :: pre ++ "GlomError" :: "Exception" :: rest :=
  ⟨wrapMro_exc c pre rest hnd hfree hg hsub, by
    have := insertGlom_free (c :: pre) rest hfree
    simpa using this⟩

/-- **Wrap of a wrapped error**: for a class that already has GlomError's MRO in its own (a wrapper
    class, a user GlomError subclass) the merge adds nothing — `GlomError.wrap(w)` of a wrapped `w`
    is an instance of a class whose MRO is the new name followed by `w`'s MRO. -/
theorem c04_wrap_of_wrapped (c : String) (t : List String)
    (hnd : (c :: t).Nodup) (hc : c ≠ "GlomError") (hsub : glomMro.Sublist t) :
    wrapMro (c :: t) = some (c :: t) := wrapMro_of_glomerror c t hnd hc hsub

/-- **Re-wrapping is stable**: an error that is a GlomError already (a wrapper instance that an inner
    `glom()` raised, one of glom's own errors, a user subclass) leaves an outer `glom()` with the SAME
    class and args, not wrapped a second time. -/
theorem c04_rewrap_stable (F : Facts) (hwf : WF F = true) (s : Settings) (e out : ExcObj) (ht : Tame F e.cls)
    (hg : isInst e "GlomError" = true) (h : glomTop F s (.exc e) = .exc out) :
    out.cls = e.cls ∧ out.args = e.args := by
  have w := WF_parts hwf
  rcases glomTop_cases w s e with ⟨_, d, _, hd⟩ | ⟨_, ho⟩
  · rw [hd] at h; cases h
  · rw [ho] at h
    unfold outer at h
    split at h
    · cases hdb : effDebug F s with
      | true => rw [handler_debug s e hdb] at h; cases h; exact ⟨rfl, rfl⟩
      | false =>
        unfold handler at h
        rw [hdb, hg] at h
        simp only [Bool.false_eq_true, if_false, if_true] at h
        obtain ⟨o, ho', hr, hc⟩ := glomErr_finish w e ht hg
        rw [ho'] at h; cases h; exact ⟨hc, hr.args⟩
    · cases h; exact ⟨rfl, rfl⟩

/-- **Wrapping is idempotent**: what a `glom()` call (`glom_debug` off) raised leaves a second,
    enclosing `glom()` call with the same class and args. -/
theorem c04_wrap_idempotent (F : Facts) (hwf : WF F = true) (s₁ s₂ : Settings) (e m out : ExcObj)
    (ht : Tame F e.cls) (hd₁ : s₁.debug.getD false = false)
    (h₁ : glomTop F s₁ (.exc e) = .exc m) (h₂ : glomTop F s₂ (.exc m) = .exc out) :
    out.cls = m.cls ∧ out.args = m.args := by
  have w := WF_parts hwf
  have hm : Raised e m := by
    rcases glomTop_cases w s₁ e with ⟨_, d, _, hd⟩ | ⟨_, ho⟩
    · rw [hd] at h₁; cases h₁
    · obtain ⟨o, ho', hr⟩ := outer_raised w s₁ e ht
      rw [ho, ho'] at h₁; cases h₁; exact hr
  by_cases hg : isInst m "GlomError" = true
  · exact c04_rewrap_stable F hwf s₂ m out (hm.tame ht) hg h₂
  · -- not a GlomError: the first call re-raised the original, and so does the second
    have hme : m = e := hm.not_glom (by simpa using hg)
    subst hme
    rcases glomTop_cases w s₂ m with ⟨_, d, _, hd⟩ | ⟨_, ho⟩
    · rw [hd] at h₂; cases h₂
    · rw [ho] at h₂
      unfold outer at h₂
      split at h₂
      · rename_i hc
        cases hdb : effDebug F s₂ with
        | true => rw [handler_debug s₂ m hdb] at h₂; cases h₂; exact ⟨rfl, rfl⟩
        | false =>
          -- the first call's handler, run again
          rcases glomTop_cases w s₁ m with ⟨_, d, _, hd⟩ | ⟨_, ho₁⟩
          · rw [hd] at h₁; cases h₁
          · rw [ho₁] at h₁
            unfold outer at h₁
            rw [if_pos hc] at h₁
            have hd1 : effDebug F s₁ = false := by rw [effDebug_eq w]; exact hd₁
            have : handler F s₂ m = handler F s₁ m := by
              unfold handler; rw [hdb, hd1]
            rw [this, h₁] at h₂
            cases h₂; exact ⟨rfl, rfl⟩
      · cases h₂; exact ⟨rfl, rfl⟩

/-! ### where the fault originates -/

/-- A fault at any depth, under any number of nested tuple / dict / list / `Spec`-like / iterator
    frames whose earlier siblings return, reaches `glom()`'s handler as the same exception object
    (a StopIteration does not cross an iterator step). -/
theorem c04_plain_frames (E : EvalEnv) (c : Ctx) (x : Sp) (o : ExcObj)
    (hpre : c.PreOk E o) (hx : eval E x = .exc o) : eval E (c.plug x) = .exc o :=
  plug_propagates E c x o hpre hx

/-- A `Coalesce` whose earlier alternatives were all skipped lets the fault of the next
    alternative through exactly when it does not match the Coalesce's own `skip_exc`. -/
theorem c04_coalesce_selective (E : EvalEnv) (pre post : List Sp) (x : Sp)
    (skip : Option (List String)) (d : Bool) (o : ExcObj)
    (hpre : ∀ p ∈ pre, ∃ o', eval E p = .exc o' ∧ matchesAny o' (skip.getD E.F.coalesceSkipDefault) = true)
    (hx : eval E x = .exc o) :
    eval E (.coal (pre ++ x :: post) skip d) =
      if matchesAny o (skip.getD E.F.coalesceSkipDefault) then eval E (.coal post skip d) else .exc o := by
  simp only [eval, frameG_id]
  rw [evalCoal_absorb E pre post x _ d hpre]
  simp only [evalCoal, hx]

/-- An exception raised by a method of the TARGET (or a registered handler) inside one of glom's own
    `try` blocks leaves the WHOLE `glom()` call as an instance of glom's own error (with that error's args)
    exactly for the classes the DOCUMENTED `except` names: every `Exception` around `iterate(target)`
    (→ TypeError) and path access (→ PathAccessError), AttributeError for `T.x`, KeyError / IndexError /
    TypeError / ValueError for `T[…]`; for every other exception — and every `BaseException`-only one — as an
    instance of the class raised, with its args. -/
theorem c04_conv_outcome (E : EvalEnv) (hwf : WF E.F = true) (hinj : Tame E.F E.inj.cls)
    (hint : ∀ c, Tame E.F (E.internal c).cls) (k : Conv) (s : Settings) (out : ExcObj)
    (h : glomTop E.F s (toBody (eval E (.faultConv k))) = .exc out) :
    (matchesAny E.inj (docCatch k) = true →
      isInst out (E.internal (docRaises k)).cls.name = true ∧ out.args = (E.internal (docRaises k)).args) ∧
    (matchesAny E.inj (docCatch k) = false → isInst out E.inj.cls.name = true ∧ out.args = E.inj.args) := by
  rw [conv_eval E (WF_parts hwf) k] at h
  constructor
  · intro hm
    rw [if_pos hm] at h
    exact ⟨c04_class E.F hwf s _ out (hint _) h, c04_args E.F hwf s _ out (hint _) h⟩
  · intro hm
    rw [if_neg (by simp [hm])] at h
    exact ⟨c04_class E.F hwf s _ out hinj h, c04_args E.F hwf s _ out hinj h⟩

/-- The exception that reaches `glom()`'s handler is the prepared object — as it is, or as the
    handlers of nested `glom()` calls re-raised it: an instance of every class of the original, same args —
    (only if the spec contains the fault), or one of the errors glom itself raises. -/
theorem c04_origin_sound (E : EvalEnv) (hwf : WF E.F = true) (hinj : Good E.F E.inj)
    (hint : ∀ c, Good E.F (E.internal c)) (s : Sp) (e : ExcObj) (h : eval E s = .exc e) :
    (hasFault s = true ∧ (∀ c, isInst E.inj c = true → isInst e c = true) ∧ e.args = E.inj.args) ∨
    (∃ c ∈ internalClasses E.F,
      (∀ c', isInst (E.internal c) c' = true → isInst e c' = true) ∧ e.args = (E.internal c).args) := by
  have := (eval_origin E (WF_parts hwf) hinj hint).1 s
  rw [h] at this
  rcases this with ⟨hs, hd⟩ | ⟨c, hc, hd⟩
  · exact Or.inl ⟨hs, hd.sup hinj, hd.args⟩
  · exact Or.inr ⟨c, hc, hd.sup (hint c), hd.args⟩

/-! ### every nesting of plain / iterator / Coalesce / nested-`glom()` levels -/

/-- **Selectivity at every level** (induction over the nesting): the outcome of a spec under ANY
    list of levels is obtained level by level, innermost first; a nested `glom(…, default=, skip_exc=)`
    level returns its default exactly when what REACHES it matches its (documented) `skip_exc`, a
    `Coalesce` level skips exactly what matches its own `skip_exc` (documented default GlomError),
    everything else moves on — re-raised by the handler of each `glom()` level it crosses. -/
theorem c04_levels (E : EvalEnv) (hwf : WF E.F = true) (ls : List Level) (x : Sp) :
    eval E (plugLevels ls x) = travel E ls (eval E x) := levels_travel E (WF_parts hwf) ls x

/-- … and whatever gets through ALL of them is an instance of every class the original was an instance
    of, with the same args — unless a Coalesce level replaced it by its CoalesceError. -/
theorem c04_levels_faithful (E : EvalEnv) (hwf : WF E.F = true) (hint : Good E.F (E.internal "CoalesceError"))
    (hname : (E.internal "CoalesceError").cls.name = "CoalesceError")
    (ls : List Level) (x : Sp) (e out : ExcObj) (hg : Good E.F e)
    (hx : eval E x = .exc e) (h : eval E (plugLevels ls x) = .exc out) :
    ((∀ c, isInst e c = true → isInst out c = true) ∧ out.args = e.args) ∨
    isInst out "CoalesceError" = true := by
  rw [c04_levels E hwf, hx] at h
  rcases travel_derives E (WF_parts hwf) hint ls e out hg h with hd | hd
  · exact Or.inl ⟨hd.sup hg, hd.args⟩
  · right
    have hself := isInst_self (E.internal "CoalesceError")
    rw [hname] at hself
    exact hd.sup hint "CoalesceError" hself

/-- One nested `glom()` call: its default is returned exactly for the errors its caller selected. -/
theorem c04_nested_selective (E : EvalEnv) (hwf : WF E.F = true) (x : Sp) (s : Settings) (e : ExcObj)
    (ht : Tame E.F e.cls) (hx : eval E x = .exc e) :
    (eval E (.nest x s) = .val ↔ selected s e = true) := by
  have w := WF_parts hwf
  have := level_pass E w (.nest s) x
  simp only [Level.wrap] at this
  rw [this, hx]
  simp only [Level.pass]
  cases hs : selected s e with
  | true => simp
  | false =>
    obtain ⟨out, ho, _⟩ := outer_raised w s e ht
    simp [ho]

/-- **Checker theorem** — the form in which the property is also evaluated on the
    implementation's observation by the correspondence driver. -/
theorem c04_model_checks (F : Facts) (hwf : WF F = true) (s : Settings) (e : ExcObj) (ht : Tame F e.cls)
    (hlin : isInst e "GlomError" = false → e.cls.sealed = false → (wrapClass e.cls).isSome = true) :
    checkC04 s (some e) (observe (some e) (glomTop F s (.exc e))) = true ∧
    checkC04 s none (observe none (glomTop F s .val)) = true := by
  have w := WF_parts hwf
  refine ⟨?_, by simp [glomTop, observe, checkC04]⟩
  unfold checkC04
  rcases glomTop_cases w s e with ⟨hs, d, hr, hd⟩ | ⟨hs, ho⟩
  · simp only [hs, if_true, hr, hd]
    cases d <;> simp [observe]
  · simp only [hs, Bool.false_eq_true, if_false, ho]
    unfold outer
    by_cases hc : matchesAny e F.outerCatch = true
    · rw [if_pos hc]
      have hexc : isInst e "Exception" = true := by simpa [w.outerCatch, matchesAny] using hc
      cases hdb : s.debug.getD false with
      | true =>
        have hd : effDebug F s = true := by rw [effDebug_eq w]; exact hdb
        rw [handler_debug s e hd]
        simp [observe, ClassInfo.mro]
      | false =>
        have hd : effDebug F s = false := by rw [effDebug_eq w]; exact hdb
        obtain ⟨out, h', hr⟩ := handler_nodebug w s e ht hd
        rw [h']
        have hf := hr.faithful
        simp only [observe, Bool.not_false, Bool.true_or, Bool.and_true, Bool.false_or, hexc,
          Bool.not_true, Bool.and_eq_true, beq_iff_eq, Bool.or_eq_true, Bool.not_eq_true']
        refine ⟨⟨hf.1, hf.2⟩, ?_⟩
        by_cases hre : (isInst e "GlomError" || rebuildable e) = true
        · by_cases hext : extensible e = true
          · right
            have hcond : isInst e "GlomError" = true ∨
                (rebuildable e = true ∧ extensible e = true ∧ (wrapClass e.cls).isSome = true) := by
              by_cases hg : isInst e "GlomError" = true
              · exact Or.inl hg
              · have hg' : isInst e "GlomError" = false := by simpa using hg
                have hrb : rebuildable e = true := by simpa [hg'] using hre
                have hsl : e.cls.sealed = false := by
                  simp only [extensible, Bool.and_eq_true, Bool.not_eq_true'] at hext; exact hext.1.1
                exact Or.inr ⟨hrb, hext, hlin hg' hsl⟩
            obtain ⟨out', h'', hg⟩ := handler_glomerror w s e ht hd hcond
            rw [h'] at h''; cases h''; exact hg
          · left; right; simpa using hext
        · left; left; simpa using hre
    · rw [if_neg hc]
      have hexc : isInst e "Exception" = false := by simpa [w.outerCatch, matchesAny] using hc
      simp [observe, hexc, ClassInfo.mro]

/-! ### the shapes /repo had before the four repairs: concrete counter-examples
    (the theorems above are false for these facts values, which is why `WF` demands the guards) -/

private def G (name : String) (sh : Shape) (falsy := false) : ClassInfo :=
  mkClass name ["GlomError", "Exception", "BaseException", "object"] sh falsy

private def leaves (r : Res) (p : ExcObj → Bool) : Bool :=
  match r with | .exc out => p out | _ => false

private def noSettings : Settings := ⟨none, none, none⟩

private def mkExc (c : ClassInfo) (a : Args) : ExcObj := { id := 0, cls := c, args := a }

/-- before 29e0d8d (`copy.copy` unguarded): a GlomError subclass whose `__init__(a, b)` stores
    `(a,)` leaves `glom()` as a TypeError — `c04_class` fails. -/
theorem c04_class_counterexample_unguarded_copy :
    leaves (glomTop { genFacts with copyFallback := false } noSettings
      (.exc (mkExc (G "G2" (.sig 2 (some 2) false (.pre 1))) [.int 1])))
      (fun out => !isInst out "G2") = true := by decide +kernel

/-- before b697c3c (args not compared): a constructor storing `len(args)` is re-run by
    `wrap`, `.args` changes from `(2,)` to `(1,)` — `c04_args` fails. -/
theorem c04_args_counterexample_unchecked_args :
    leaves (glomTop { genFacts with wrapArgsCheck := false } noSettings
      (.exc (mkExc (mkClass "L" ["Exception", "BaseException", "object"] (.sig 0 none false .len)) [.int 2])))
      (fun out => out.args != [.int 2]) = true := by decide +kernel

/-- before 04de4c4 (`TypeMatchError.__copy__` hard-coded the class): a user subclass of
    TypeMatchError leaves `glom()` as a plain TypeMatchError — `c04_class` fails. -/
theorem c04_class_counterexample_tme_subclass :
    leaves (glomTop { genFacts with tmeCopyFixed := true } noSettings
      (.exc (mkExc (mkClass "TM" (tmeClass genFacts).mro (.sig 2 (some 2) false .tme))
        [.str tmeFmt, .obj 1, .obj 2])))
      (fun out => !isInst out "TM") = true := by decide +kernel

/-- before a8fa0d5 (`if err:`): an exception whose truth value is False leaves `glom()` as
    UnboundLocalError — `c04_class` fails. -/
theorem c04_class_counterexample_falsy :
    leaves (glomTop { genFacts with errTestTruthy := true } noSettings
      (.exc (mkExc (G "FalsyG" (.sig 0 none false .all) true) [.int 1])))
      (fun out => !isInst out "FalsyG") = true := by decide +kernel

/-- before 205945c (the `type(…)` call of `GlomError.wrap` outside its `try`): a class that refuses to be
    subclassed (`__init_subclass__` / a metaclass raises) leaves `glom()` as the TypeError of the `type(…)`
    call — `c04_class` fails. -/
theorem c04_class_counterexample_sealed :
    leaves (glomTop { genFacts with wrapTypeInTry := false } noSettings
      (.exc (mkExc (mkClass "Final" ["Exception", "BaseException", "object"] (.sig 0 none false .all)
        false .args true) [.int 1])))
      (fun out => !isInst out "Final") = true := by decide +kernel

/-! ### the hypothesis `Tame` is forced: on the shape /repo HAS (`_set_wrapped` / `_finalize` unguarded, a
    copy of another class accepted) three kinds of classes break `c04_class` — KNOWN FINDINGS
    `glomerror_refuses_setattr` (the first two) and `copy_returns_other_class` -/

/-- a GlomError subclass whose `__setattr__` raises (a frozen dataclass): the AttributeError of
    `err._set_wrapped(e)` leaves `glom()` — `c04_class` fails. -/
theorem c04_class_counterexample_frozen :
    leaves (glomTop { genFacts with attrGuarded := false } noSettings
      (.exc (mkExc (mkClass "Fz" ["GlomError", "Exception", "BaseException", "object"] (.sig 0 none false .all)
        false .args false true) [.int 1])))
      (fun out => !isInst out "Fz") = true := by decide +kernel

/-- an exception whose `__bool__` raises: `_finalize` formats the traceback of the exception being handled,
    which evaluates `bool(e)`; the RuntimeError leaves `glom()` — `c04_class` fails. -/
theorem c04_class_counterexample_bool_raises :
    leaves (glomTop { genFacts with attrGuarded := false } noSettings
      (.exc (mkExc (mkClass "Bo" ["Exception", "BaseException", "object"] (.sig 0 none false .all)
        false .args false false true) [.int 1])))
      (fun out => !isInst out "Bo") = true := by decide +kernel

/-- a GlomError subclass whose `__copy__` returns an object of another class with the same args: the
    copy is raised — `c04_class` fails (whatever the guards). -/
theorem c04_class_counterexample_foreign_copy :
    leaves (glomTop genFacts noSettings
      (.exc (mkExc (mkClass "Cp" ["GlomError", "Exception", "BaseException", "object"] (.sig 0 none false .all)
        false .foreign) [.int 1])))
      (fun out => !isInst out "Cp") = true := by decide +kernel

/-! ### non-vacuity: concrete inputs meet every hypothesis -/

private def keyErr : ExcObj :=
  mkExc (repoClass "KeyError" (.sig 0 none false .all)) [.str "k"]
private def userErr : ExcObj :=   -- class U(Exception): def __init__(self, a, b): super().__init__(a)
  mkExc (mkClass "U" ["Exception", "BaseException", "object"] (.sig 2 (some 2) false (.pre 1))) [.int 1]
private def kbd : ExcObj :=
  mkExc (mkClass "KI" ["KeyboardInterrupt", "BaseException", "object"] (.sig 0 none false .all)) [.int 1]
private def pathErr : ExcObj :=
  { id := 1000, cls := repoClass "PathAccessError" (.sig 3 (some 3) false .all), args := [.obj 1, .obj 2, .int 0] }
private def exE : EvalEnv :=
  ⟨genFacts, keyErr, fun c => { id := 1000, cls := repoClass c (.sig 0 none false .all), args := [] }⟩

/-- decidable view of an outcome: identity, class name, args -/
private def tag : Outc → Option (Nat × String × Args)
  | .val => none
  | .exc e => some (e.id, e.cls.name, e.args)

-- `Tame`: every class whose wrapper class Python can create, without a hostile `__copy__`
example : Tame genFacts keyErr.cls :=
  ⟨fun h => by revert h; decide +kernel, Or.inr rfl, by decide⟩
example : Tame genFacts pathErr.cls :=
  ⟨fun _ => Or.inr rfl, Or.inr rfl, by decide⟩
example : ClassOK keyErr.cls := fun h => by revert h; decide +kernel
-- `c04_glomerror`: a rebuildable Exception subclass, debug off → leaves as GlomError.wrap(KeyError)
example : isInst keyErr "Exception" = true ∧ rebuildable keyErr = true ∧ extensible keyErr = true ∧
    (wrapClass keyErr.cls).isSome = true ∧
    leaves (glomTop genFacts noSettings (.exc keyErr))
      (fun out => out.cls.name == "GlomError.wrap(KeyError)" && isInst out "KeyError" && isInst out "LookupError" &&
        isInst out "GlomError" && out.wrapped == some 0) = true := by
  decide +kernel
-- without `rebuildable`: class U cannot be rebuilt from `(1,)`; the original leaves, not a GlomError
example : rebuildable userErr = false ∧
    leaves (glomTop genFacts noSettings (.exc userErr)) (fun out => out.id == 0 && !isInst out "GlomError") = true := by
  decide +kernel
-- without `isInst e "Exception"`: a KeyboardInterrupt subclass is rebuildable but is never wrapped
example : isInst kbd "Exception" = false ∧ rebuildable kbd = true ∧
    leaves (glomTop genFacts noSettings (.exc kbd)) (fun out => out.id == 0 && !isInst out "GlomError") = true := by
  decide +kernel
-- without `debug off`: glom_debug=True propagates the original, which is not a GlomError
example : leaves (glomTop genFacts ⟨none, none, some true⟩ (.exc keyErr))
    (fun out => out.id == 0 && !isInst out "GlomError") = true := by decide +kernel
-- `c04_selective`: default given, skip_exc absent → GlomError selected; KeyError is not (at its origin)
example : selected ⟨some 7, none, none⟩ keyErr = false ∧
    selected ⟨some 7, some ["LookupError"], none⟩ keyErr = true ∧
    selected ⟨none, some ["KeyError", "ValueError"], none⟩ keyErr = true ∧
    selected noSettings keyErr = false := by decide +kernel
example : (match glomTop genFacts ⟨some 7, some ["LookupError"], none⟩ (.exc keyErr) with
    | .dflt (.given 7) => true | _ => false) = true := by decide +kernel
-- `c04_debug_identity` / `c04_baseexception_untouched`: hypotheses are satisfiable
example : selected ⟨none, none, some true⟩ keyErr = false ∧ isInst kbd "Exception" = false ∧
    selected ⟨some 7, none, none⟩ kbd = false := by decide +kernel
-- without `selected = false`: skip_exc naming the KeyboardInterrupt subclass replaces it by the default
example : (match glomTop genFacts ⟨some 7, some ["KI"], some true⟩ (.exc kbd) with
    | .dflt (.given 7) => true | _ => false) = true := by decide +kernel
-- `c04_wrapper_mro`: class C(A, B) with A(Exception), B(BaseException) — GlomError goes before Exception,
-- B stays between Exception and BaseException; a mix-in after BaseException stays there
example : wrapMro ["C", "A", "Exception", "B", "BaseException", "Y", "object"] =
    some ["C", "A", "GlomError", "Exception", "B", "BaseException", "Y", "object"] := by decide +kernel
-- the hypotheses of `c04_wrapper_mro` are forced: an MRO that has GlomError's bases in another order
-- (`object` before `BaseException`) has no consistent linearisation with GlomError
example : wrapMro ["C", "Exception", "object", "BaseException"] = none := by decide +kernel
-- `c04_wrap_of_wrapped`: the wrapper of KeyError's wrapper
example : wrapMro ["GlomError.wrap(KeyError)", "KeyError", "LookupError", "GlomError", "Exception", "BaseException",
    "object"] = some ["GlomError.wrap(KeyError)", "KeyError", "LookupError", "GlomError", "Exception", "BaseException",
    "object"] := by decide +kernel
-- the modelled C3 on a diamond and on an inconsistent hierarchy (Python: "Cannot create a consistent MRO")
example : linearize "D" [["B", "A", "object"], ["C", "A", "object"]] = some ["D", "B", "C", "A", "object"] ∧
    linearize "X" [["A", "object"], ["B", "A", "object"]] = none := by decide +kernel
-- `c04_selected_monotone` is not an equivalence: the wrapper of a KeyError matches `skip_exc=GlomError`, the
-- KeyError did not
example : selected ⟨some 7, none, none⟩ keyErr = false ∧
    leaves (glomTop genFacts noSettings (.exc keyErr)) (fun out => selected ⟨some 7, none, none⟩ out) = true := by
  decide +kernel
-- `c04_wrap_idempotent` / `c04_rewrap_stable`: two nested glom() calls give the class of one
example : tag (eval exE (.nest (.nest .fault noSettings) noSettings)) =
    some (2, "GlomError.wrap(KeyError)", [.str "k"]) ∧
    tag (eval exE (.nest .fault noSettings)) = some (1, "GlomError.wrap(KeyError)", [.str "k"]) := by decide +kernel
-- … without `debug off` in the first call: it re-raises the KeyError itself, the second call wraps it
example : tag (eval exE (.nest (.nest .fault ⟨none, none, some true⟩) noSettings)) =
    some (1, "GlomError.wrap(KeyError)", [.str "k"]) ∧
    tag (eval exE (.nest .fault ⟨none, none, some true⟩)) = some (0, "KeyError", [.str "k"]) := by decide +kernel
-- `c04_plain_frames`: a fault three frames deep, after siblings that return
example : (Ctx.tup [.ok] (.dct [.ok, .tup []] (.lst (.frame (.first .hole))) [.fault]) [.badPath]).PreOk exE keyErr := by
  simp only [Ctx.PreOk, and_true, List.mem_cons, List.not_mem_nil, or_false, forall_eq_or_imp, forall_eq]
  refine ⟨rfl, ⟨rfl, rfl⟩, ?_⟩
  decide +kernel
example : tag (eval exE ((Ctx.tup [.ok] (.dct [.ok, .tup []] (.lst (.frame (.first .hole))) [.fault]) [.badPath]).plug .fault))
    = some (0, "KeyError", [.str "k"]) := by decide +kernel
-- without `PreOk`: an earlier sibling fails first, with its own exception
example : tag (eval exE ((Ctx.tup [.badPath] .hole []).plug .fault)) = some (1000, "PathAccessError", []) := by
  decide +kernel
-- without the StopIteration clause of `PreOk`: the key of `First` raising StopIteration is taken by
-- `next(filter(key, …))` for the end of the iteration; nothing is raised at all
example : tag (eval { exE with inj := mkExc (repoClass "StopIteration" (.sig 0 none false .all)) [] }
    ((Ctx.first .hole).plug .fault)) = none := by
  decide +kernel
-- `c04_coalesce_selective`: KeyError passes a default Coalesce (skip_exc=GlomError), is absorbed by
-- skip_exc=LookupError; an absorbed PathAccessError precedes it
example : tag (eval exE (.coal ([.badPath] ++ .fault :: [.ok]) none false)) = some (0, "KeyError", [.str "k"]) ∧
    tag (eval exE (.coal ([.badPath] ++ .fault :: []) (some ["LookupError"]) false)) = some (1000, "CoalesceError", []) ∧
    tag (eval exE (.coal ([.badPath] ++ .fault :: [.ok]) (some ["LookupError"]) false)) = none := by
  decide +kernel
-- `c04_conv_outcome`: a KeyError of `__getitem__` becomes PathAccessError, of `__getattr__` passes,
-- of `__iter__` becomes TypeError; a KeyboardInterrupt passes everywhere
example : tag (eval exE (.faultConv .getitem)) = some (1000, "PathAccessError", []) ∧
    tag (eval exE (.faultConv .getattr)) = some (0, "KeyError", [.str "k"]) ∧
    tag (eval exE (.faultConv .iter)) = some (1000, "TypeError", []) ∧
    tag (eval { exE with inj := kbd } (.faultConv .path)) = some (0, "KI", [.int 1]) := by decide +kernel
-- `c04_levels`: Coalesce(skip_exc=LookupError) inside glom(default=…) inside a plain frame: the KeyError is
-- skipped by the Coalesce, its CoalesceError (a GlomError) is replaced by the nested call's default;
-- without the Coalesce the KeyError passes the nested call (wrapped: now ALSO a GlomError) and is replaced
-- by the default of a second, outer nested call
example : tag (eval exE (plugLevels [.plain, .nest ⟨some 7, none, none⟩, .coal (some ["LookupError"]) false] .fault)) = none ∧
    tag (eval exE (plugLevels [.nest ⟨some 7, none, none⟩] .fault)) = some (1, "GlomError.wrap(KeyError)", [.str "k"]) ∧
    tag (eval exE (plugLevels [.nest ⟨some 7, none, none⟩, .nest ⟨some 7, none, none⟩] .fault)) = none := by
  decide +kernel

end Glom.Props.C04
