import Glom.Lemmas.C04
import Glom.Model.C04Env
/-
  C04 — Exceptions keep their class; glom failures are GlomErrors; default is selective.

  Property theorems only; helper lemmas are in `Glom/Lemmas/C04.lean`.
  Every theorem is for ALL exception classes (any MRO, any constructor
  `ctor : Args → Option Args`, truthy or falsy instances), all `.args`, all
  `(default, skip_exc, glom_debug)` combinations, all specs / nesting depths,
  and all facts values that satisfy the decidable predicate `WF`;
  `c04_facts_wf` discharges `WF` for the facts regenerated from /repo on this run.
-/
namespace Glom.Props.C04
open Glom Glom.C04

/-- **Facts obligation**: `glom()` in /repo has the documented keyword defaulting, the two
    nested `try` blocks in the modelled order, an outer `except Exception`, both guards
    around `copy.copy` and inside `GlomError.wrap`, `if err is not None`, a
    `TypeMatchError.__copy__` that keeps the class, `_glom` re-raising unchanged. -/
theorem c04_facts_wf : WF genFacts = true := by decide +kernel

/-- **Facts obligation** (`c04_internal_subtypes`): every `raise X(…)` in glom's own modules
    names a glom exception class with GlomError in its MRO, or a builtin `Exception` class
    that stores its args unchanged (hence leaves `glom()` as a GlomError by
    `c04_glomerror`); PathAccessError is a KeyError, IndexError and AttributeError,
    BadSpec and TypeMatchError are TypeErrors. -/
theorem c04_internal_subtypes :
    internalWF Generated.excTable Generated.excCtor Generated.raiseTable Generated.raiseUnresolved
      Generated.raisedBuiltinStoreAll = true := by decide +kernel

/-- Whatever leaves `glom()` is an instance of the class of the exception originally raised. -/
theorem c04_class (F : Facts) (hwf : WF F = true) (s : Settings) (e out : ExcObj)
    (h : glomTop F s (.exc e) = .exc out) : isInst out e.cls.name = true := by
  have w := WF_parts hwf
  rcases glomTop_cases w s e with ⟨_, d, _, hd⟩ | ⟨_, ho⟩
  · rw [hd] at h; cases h
  · obtain ⟨out', h', hf⟩ := outer_faithful w s e
    rw [ho, h'] at h; cases h; exact hf.1

/-- … with the same args. -/
theorem c04_args (F : Facts) (hwf : WF F = true) (s : Settings) (e out : ExcObj)
    (h : glomTop F s (.exc e) = .exc out) : out.args = e.args := by
  have w := WF_parts hwf
  rcases glomTop_cases w s e with ⟨_, d, _, hd⟩ | ⟨_, ho⟩
  · rw [hd] at h; cases h
  · obtain ⟨out', h', hf⟩ := outer_faithful w s e
    rw [ho, h'] at h; cases h; exact hf.2

/-- Whenever the class is an `Exception` subclass that can be rebuilt from its args (or is
    a GlomError already) the raised object is also a GlomError (`glom_debug` off). -/
theorem c04_glomerror (F : Facts) (hwf : WF F = true) (s : Settings) (e out : ExcObj)
    (hdebug : s.debug.getD false = false)
    (hexc : isInst e "Exception" = true)
    (hre : (isInst e "GlomError" || rebuildable e) = true)
    (h : glomTop F s (.exc e) = .exc out) : isInst out "GlomError" = true := by
  have w := WF_parts hwf
  rcases glomTop_cases w s e with ⟨_, d, _, hd⟩ | ⟨_, ho⟩
  · rw [hd] at h; cases h
  · have hd : effDebug F s = false := by rw [effDebug_eq w]; exact hdebug
    obtain ⟨out', h', _, hg⟩ := handler_nodebug w s e hd
    have hc : matchesAny e F.outerCatch = true := by simp [w.outerCatch, matchesAny, hexc]
    rw [ho] at h
    unfold outer at h
    rw [if_pos hc, h'] at h
    cases h; exact hg hre

/-- The default is returned exactly for the errors the caller selected (they match
    `skip_exc` — by default GlomError — AT THEIR ORIGIN, before any wrapping), and what is
    returned is the default object itself (the object passed as `default=`, else `None`). -/
theorem c04_selective (F : Facts) (hwf : WF F = true) (s : Settings) (e : ExcObj) :
    ((∃ d, glomTop F s (.exc e) = .dflt d) ↔ selected s e = true) ∧
    (∀ d, glomTop F s (.exc e) = .dflt d → refDefault s = some d) ∧
    (glomTop F s (.exc e) ≠ .value) := by
  have w := WF_parts hwf
  rcases glomTop_cases w s e with ⟨hs, d, hr, hd⟩ | ⟨hs, ho⟩
  · refine ⟨⟨fun _ => hs, fun _ => ⟨d, hd⟩⟩, ?_, ?_⟩
    · intro d' h'; rw [hd] at h'; cases h'; exact hr
    · rw [hd]; intro h'; cases h'
  · obtain ⟨out, h', _⟩ := outer_faithful w s e
    refine ⟨⟨?_, ?_⟩, ?_, ?_⟩
    · rintro ⟨d, hd⟩; rw [ho, h'] at hd; cases hd
    · intro h; rw [hs] at h; cases h
    · intro d hd; rw [ho, h'] at hd; cases hd
    · rw [ho, h']; intro h; cases h

/-- `glom_debug=True` propagates the original exception OBJECT (unless the caller
    selected it for replacement by the default). -/
theorem c04_debug_identity (F : Facts) (hwf : WF F = true) (s : Settings) (e : ExcObj)
    (hdebug : s.debug = some true) (hsel : selected s e = false) :
    glomTop F s (.exc e) = .exc e := by
  have w := WF_parts hwf
  rcases glomTop_cases w s e with ⟨hs, _⟩ | ⟨_, ho⟩
  · rw [hsel] at hs; cases hs
  · rw [ho]; unfold outer
    split
    · exact handler_debug s e (by simp [effDebug, hdebug])
    · rfl

/-- `BaseException`-only classes (KeyboardInterrupt, SystemExit, GeneratorExit and their
    subclasses) pass untouched: the very object, whatever `glom_debug` says. -/
theorem c04_baseexception_untouched (F : Facts) (hwf : WF F = true) (s : Settings) (e : ExcObj)
    (hbase : isInst e "Exception" = false) (hsel : selected s e = false) :
    glomTop F s (.exc e) = .exc e := by
  have w := WF_parts hwf
  rcases glomTop_cases w s e with ⟨hs, _⟩ | ⟨_, ho⟩
  · rw [hsel] at hs; cases hs
  · rw [ho]; unfold outer
    simp [w.outerCatch, matchesAny, hbase]

/-- Nothing raised: the computed value is returned, never the default. -/
theorem c04_value_passthrough (F : Facts) (s : Settings) : glomTop F s .val = .value := rfl

/-- `_glom`'s `except Exception: …; raise` hands on the same exception object. -/
theorem c04_frame_transparent (E : EvalEnv) (o : Outc) : frameG E o = o := frameG_id E o

/-- **Where the fault originates.**  A fault at any depth, under any number of nested
    tuple / dict / list / `Spec` / `First(key)` frames whose earlier siblings return, reaches `glom()`'s
    handler as the same exception object (a StopIteration does not cross a `First(key)` frame). -/
theorem c04_plain_frames (E : EvalEnv) (c : Ctx) (x : Sp) (o : Origin)
    (hpre : c.PreOk E o) (hx : eval E x = .exc o) : eval E (c.plug x) = .exc o :=
  plug_propagates E c x o hpre hx

/-- A `Coalesce` whose earlier alternatives were all skipped lets the fault of the next
    alternative through exactly when it does not match the Coalesce's own `skip_exc`. -/
theorem c04_coalesce_selective (E : EvalEnv) (pre post : List Sp) (x : Sp)
    (skip : Option (List String)) (d : Bool) (o : Origin)
    (hpre : ∀ p ∈ pre, ∃ o', eval E p = .exc o' ∧ E.caught o' (skip.getD E.F.coalesceSkipDefault) = true)
    (hx : eval E x = .exc o) :
    eval E (.coal (pre ++ x :: post) skip d) =
      if E.caught o (skip.getD E.F.coalesceSkipDefault) then eval E (.coal post skip d) else .exc o := by
  simp only [eval, frameG_id]
  rw [evalCoal_absorb E pre post x _ d hpre]
  simp only [evalCoal, hx]

/-- The exception that reaches `glom()`'s handler is the injected object (only if the spec
    contains the faulting callable) or one of the errors glom itself raises. -/
theorem c04_origin_sound (E : EvalEnv) (s : Sp) :
    match eval E s with
    | .val => True
    | .exc .injected => hasFault s = true
    | .exc (.internal c) => c ∈ internalClasses := by
  have := (eval_origin E).1 s
  unfold OriginOk at this
  exact this

/-- The correspondence driver evaluates the checker against the origin computed with the
    DOCUMENTED Coalesce default (`skip_exc=GlomError`) rather than the extracted one; for
    well-formed facts the two coincide. -/
theorem c04_reference_origin (F : Facts) (hwf : WF F = true) :
    ({ F with coalesceSkipDefault := ["GlomError"], frameCatch := ["Exception"] } : Facts) = F := by
  have w := WF_parts hwf
  cases F
  simp only [Facts.mk.injEq, true_and, and_true]
  exact ⟨w.frameCatch.symm, w.coalesceSkip.symm⟩

/-- **Checker theorem** — the form in which the property is also evaluated on the
    implementation's observation by the correspondence driver. -/
theorem c04_model_checks (F : Facts) (hwf : WF F = true) (s : Settings) (e : ExcObj) :
    checkC04 s (some e) (observe (some e) (glomTop F s (.exc e))) = true ∧
    checkC04 s none (observe none (glomTop F s .val)) = true := by
  have w := WF_parts hwf
  refine ⟨?_, by simp [glomTop, observe, checkC04]⟩
  unfold checkC04
  rcases glomTop_cases w s e with ⟨hs, d, hr, hd⟩ | ⟨hs, ho⟩
  · simp only [hs, if_true, hr, hd]
    cases d <;> simp [observe]
  · simp only [hs, Bool.false_eq_true, if_false, ho]
    unfold outer
    by_cases hc : matchesAny e F.outerCatch = true
    · rw [if_pos hc]
      have hexc : isInst e "Exception" = true := by simpa [w.outerCatch, matchesAny] using hc
      cases hdb : s.debug.getD false with
      | true =>
        have hd : effDebug F s = true := by rw [effDebug_eq w]; exact hdb
        rw [handler_debug s e hd]
        simp [observe, ClassInfo.mro]
      | false =>
        have hd : effDebug F s = false := by rw [effDebug_eq w]; exact hdb
        obtain ⟨out, h', hf, hg⟩ := handler_nodebug w s e hd
        rw [h']
        simp only [observe, Bool.not_false, Bool.true_or, Bool.and_true, Bool.false_or, hexc,
          Bool.not_true, Bool.and_eq_true, beq_iff_eq, Bool.or_eq_true, Bool.not_eq_true']
        refine ⟨⟨hf.1, hf.2⟩, ?_⟩
        by_cases hre : (isInst e "GlomError" || rebuildable e) = true
        · right; exact hg hre
        · left; simpa using hre
    · rw [if_neg hc]
      have hexc : isInst e "Exception" = false := by simpa [w.outerCatch, matchesAny] using hc
      simp [observe, hexc, ClassInfo.mro]

/-! ### the shapes /repo had before the four repairs: concrete counter-examples
    (the theorems above are false for these facts values, which is why `WF` demands the guards) -/

private def G (name : String) (sh : Shape) (falsy := false) : ClassInfo :=
  mkClass name ["GlomError", "Exception", "BaseException", "object"] sh falsy

private def leaves (r : Res) (p : ExcObj → Bool) : Bool :=
  match r with | .exc out => p out | _ => false

private def noSettings : Settings := ⟨none, none, none⟩

/-- before 29e0d8d (`copy.copy` unguarded): a GlomError subclass whose `__init__(a, b)` stores
    `(a,)` leaves `glom()` as a TypeError — `c04_class` fails. -/
theorem c04_class_counterexample_unguarded_copy :
    leaves (glomTop { genFacts with copyFallback := false } noSettings
      (.exc ⟨0, G "G2" (.sig 2 (some 2) false (.pre 1)), [.int 1]⟩))
      (fun out => !isInst out "G2") = true := by decide +kernel

/-- before b697c3c (args not compared): a constructor storing `len(args)` is re-run by
    `wrap`, `.args` changes from `(2,)` to `(1,)` — `c04_args` fails. -/
theorem c04_args_counterexample_unchecked_args :
    leaves (glomTop { genFacts with wrapArgsCheck := false } noSettings
      (.exc ⟨0, mkClass "L" ["Exception", "BaseException", "object"] (.sig 0 none false .len), [.int 2]⟩))
      (fun out => out.args != [.int 2]) = true := by decide +kernel

/-- before 04de4c4 (`TypeMatchError.__copy__` hard-coded the class): a user subclass of
    TypeMatchError leaves `glom()` as a plain TypeMatchError — `c04_class` fails. -/
theorem c04_class_counterexample_tme_subclass :
    leaves (glomTop { genFacts with tmeCopyFixed := true } noSettings
      (.exc ⟨0, mkClass "TM" (genFacts.tmeClass.mro) (.sig 2 (some 2) false .tme),
        [.str tmeFmt, .obj 1, .obj 2]⟩))
      (fun out => !isInst out "TM") = true := by decide +kernel

/-- before a8fa0d5 (`if err:`): an exception whose truth value is False leaves `glom()` as
    UnboundLocalError — `c04_class` fails. -/
theorem c04_class_counterexample_falsy :
    leaves (glomTop { genFacts with errTestTruthy := true } noSettings
      (.exc ⟨0, G "FalsyG" (.sig 0 none false .all) true, [.int 1]⟩))
      (fun out => !isInst out "FalsyG") = true := by decide +kernel

/-! ### non-vacuity: concrete inputs meet every hypothesis -/

private def keyErr : ExcObj :=
  ⟨0, repoClass "KeyError" (.sig 0 none false .all), [.str "k"]⟩
private def userErr : ExcObj :=   -- class U(Exception): def __init__(self, a, b): super().__init__(a)
  ⟨0, mkClass "U" ["Exception", "BaseException", "object"] (.sig 2 (some 2) false (.pre 1)), [.int 1]⟩
private def kbd : ExcObj :=
  ⟨0, mkClass "KI" ["KeyboardInterrupt", "BaseException", "object"] (.sig 0 none false .all), [.int 1]⟩
private def exE : EvalEnv := ⟨genFacts, keyErr.cls.mro⟩

-- `c04_glomerror`: a rebuildable Exception subclass, debug off → leaves as GlomError.wrap(KeyError)
example : isInst keyErr "Exception" = true ∧ (isInst keyErr "GlomError" || rebuildable keyErr) = true ∧
    leaves (glomTop genFacts noSettings (.exc keyErr))
      (fun out => out.cls.name == "GlomError.wrap(KeyError)" && isInst out "KeyError" && isInst out "GlomError") = true := by
  decide +kernel
-- without `rebuildable`: class U cannot be rebuilt from `(1,)`; the original leaves, not a GlomError
example : rebuildable userErr = false ∧
    leaves (glomTop genFacts noSettings (.exc userErr)) (fun out => out.id == 0 && !isInst out "GlomError") = true := by
  decide +kernel
-- without `isInst e "Exception"`: a KeyboardInterrupt subclass is rebuildable but is never wrapped
example : isInst kbd "Exception" = false ∧ rebuildable kbd = true ∧
    leaves (glomTop genFacts noSettings (.exc kbd)) (fun out => out.id == 0 && !isInst out "GlomError") = true := by
  decide +kernel
-- without `debug off`: glom_debug=True propagates the original, which is not a GlomError
example : leaves (glomTop genFacts ⟨none, none, some true⟩ (.exc keyErr))
    (fun out => out.id == 0 && !isInst out "GlomError") = true := by decide +kernel
-- `c04_selective`: default given, skip_exc absent → GlomError selected; KeyError is not (at its origin)
example : selected ⟨some 7, none, none⟩ keyErr = false ∧
    selected ⟨some 7, some ["LookupError"], none⟩ keyErr = true ∧
    selected ⟨none, some ["KeyError", "ValueError"], none⟩ keyErr = true ∧
    selected noSettings keyErr = false := by decide +kernel
example : (match glomTop genFacts ⟨some 7, some ["LookupError"], none⟩ (.exc keyErr) with
    | .dflt (.given 7) => true | _ => false) = true := by decide +kernel
-- `c04_debug_identity` / `c04_baseexception_untouched`: hypotheses are satisfiable
example : selected ⟨none, none, some true⟩ keyErr = false ∧ isInst kbd "Exception" = false ∧
    selected ⟨some 7, none, none⟩ kbd = false := by decide +kernel
-- without `selected = false`: skip_exc naming the KeyboardInterrupt subclass replaces it by the default
example : (match glomTop genFacts ⟨some 7, some ["KI"], some true⟩ (.exc kbd) with
    | .dflt (.given 7) => true | _ => false) = true := by decide +kernel
-- `c04_plain_frames`: a fault three frames deep, after siblings that return
example : (Ctx.tup [.ok] (.dct [.ok, .tup []] (.lst (.frame (.first .hole))) [.fault]) [.badPath]).PreOk exE .injected := by
  simp only [Ctx.PreOk, and_true]
  decide +kernel
example : eval exE ((Ctx.tup [.ok] (.dct [.ok, .tup []] (.lst (.frame (.first .hole))) [.fault]) [.badPath]).plug .fault)
    = .exc .injected := by decide +kernel
-- without `PreOk`: an earlier sibling fails first, with its own exception
example : eval exE ((Ctx.tup [.badPath] .hole []).plug .fault) = .exc (.internal "PathAccessError") := by
  decide +kernel
-- without the StopIteration clause of `PreOk`: the key of `First` raising StopIteration is taken by
-- `next(filter(key, …))` for the end of the iteration; nothing is raised at all
example : eval ⟨genFacts, ["StopIteration", "Exception", "BaseException", "object"]⟩ ((Ctx.first .hole).plug .fault) = .val := by
  decide +kernel
-- `c04_coalesce_selective`: KeyError passes a default Coalesce (skip_exc=GlomError), is absorbed by
-- skip_exc=LookupError; an absorbed PathAccessError precedes it
example : eval exE (.coal ([.badPath] ++ .fault :: [.ok]) none false) = .exc .injected ∧
    eval exE (.coal ([.badPath] ++ .fault :: []) (some ["LookupError"]) false) = .exc (.internal "CoalesceError") ∧
    eval exE (.coal ([.badPath] ++ .fault :: [.ok]) (some ["LookupError"]) false) = .val := by
  decide +kernel

end Glom.Props.C04
