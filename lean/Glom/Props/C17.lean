import Glom.Lemmas.C17
import Glom.Lemmas.C17Source
import Glom.Lemmas.C17Streams
import Glom.Lemmas.C17Lazy
import Glom.Lemmas.C17Boltons
import Glom.Lemmas.C17Mono
import Glom.Lemmas.C17Ref
import Glom.Model.C17Env
/-
  C17 — Iter pipelines equal the itertools composition, stay lazy, never mutate specs.

  Property theorems only; helper lemmas are in `Glom/Lemmas/C17.lean`.

  PARTIAL: the theorems are about the model of `glom/streaming.py` in
  `Glom/Model/C17.lean`.  What glom's own code does is modelled from its source
  (stack newest-first, callbacks folded in reversed stack order, `_iterate`'s
  SKIP / STOP / sentinel branches, `_add_op` / `Invoke.*` copy-on-write — the
  shape facts are re-extracted on every run and discharged by `c17_facts_wf`).
  What the *callbacks* do: boltons' `chunked_iter`, `windowed_iter`, `split_iter`,
  `unique_iter` are transcribed from their source (`Model/C17Boltons.lean`) and proved
  to yield the traces of the transducers (`c17_boltons_*`; the transcription is run against
  the installed boltons by the correspondence); `islice`, `takewhile`, `dropwhile`,
  `chain`, `tee`, `zip`, `map`, `filter` are C code of CPython, modelled from their
  documentation and observed behaviour — only the correspondence validates those.  The full
  statement ("the real iterator objects of CPython behave like these transducers") is not
  provable here.

  Every theorem is for all stage lists of any length, all user functions
  `V → Except Err V`, all sources (finite, finite-then-raising, infinite), all
  `k` and all fuel; `wf` only excludes arguments the real code rejects or that
  leave the value domain (`size ≥ 1`, `step ≥ 1`, `maxsplit ≠ 0`).
-/
namespace Glom.Props.C17
open Glom.C17

/-- **Facts obligation** (re-checked on every run against the tables regenerated from
    /repo): no method of `Iter` / `Invoke` other than `__init__` writes `self`; `_add_op`
    passes a *new* list `[entry] + self._iter_stack` and forwards the sentinel;
    `Invoke.constants/specs/star` build a fresh instance with `dict(self._cur_kwargs)`;
    `_iterate` continues on SKIP and returns on the sentinel / STOP before yielding, and
    uses the iterator of the target as the iterable of its `for` loop and for nothing else;
    `glomit` folds the callbacks in `reversed(self._iter_stack)` order; every builder
    method's callback calls the iterator function the model gives it, and no callback (no function
    nested in a builder method) writes a variable of the method's frame — the stage state is
    the stream's (`c17_stream_isolation`), none is kept per spec (`c17_shared_state_counterexample`). -/
theorem c17_facts_wf : genFacts.WF = true := by decide

/-! ### chaining order -/

/-- `glomit` applies `_iterate` first and then the callbacks in the order the methods were
    chained: chaining one more method appends one stage at the *end*. -/
theorem c17_chaining_order (it : Iter) (e : Entry) :
    (it.addOp true e).kinds = it.kinds ++ [e.kind] := by
  simp [Iter.kinds, Iter.addOp]

/-- the same for any number of chained methods -/
theorem c17_chaining_order_all (sub : BaseFn) (s : Option V) (es : List Entry) :
    (es.foldl (Iter.addOp true) ⟨sub, s, []⟩).kinds = .base sub s :: es.map (·.kind) := by
  have : ∀ (es : List Entry) (it : Iter), (es.foldl (Iter.addOp true) it).kinds = it.kinds ++ es.map (·.kind) := by
    intro es
    induction es with
    | nil => intro it; simp
    | cons e es ih => intro it; simp [ih, c17_chaining_order]
  simpa [Iter.kinds] using this es ⟨sub, s, []⟩

/-- The defect repaired by 59d643f, kept as a theorem about the *unrepaired* shape
    (`fwd = false`): without `sentinel=self.sentinel` in `_add_op` a chained Iter no longer
    stops at its sentinel.  `Iter(sentinel=0).map(T)` on `[1, 2, 0, 3]`: -/
theorem c17_sentinel_lost_without_forward_counterexample :
    let it : Iter := ⟨fun x => .ok (.val x), some (.int 0), []⟩
    let e : Entry := ⟨"map", .map (fun x => .ok x)⟩
    let src : Src := .fin [.int 1, .int 2, .int 0, .int 3] none
    ((runAll (it.addOp false e).kinds src 20).items == [V.int 1, .int 2, .int 0, .int 3]) = true ∧
    ((runAll (it.addOp true e).kinds src 20).items == [V.int 1, .int 2]) = true := by
  decide

/-! ### the sentinel is an object -/

/-- **`_iterate` stops at THE sentinel, not at its equals.**  Whatever the subspec returns
    for an item: the stream ends there iff that value *is* the sentinel object (`V.is`);
    every other value — equal to the sentinel or not — is yielded.  Three relations are kept
    apart: `1.0` and `True` are not `1` (`is`), they are equal to `1` (`==`: `split(sep=1)`
    splits at them), and a set holds one of them (`unique`). -/
theorem c17_sentinel_is_identity (sub : BaseFn) (s v x : V) (h : sub x = .ok (.val v)) :
    ((Core.init (.base sub (some s))).push x).1 = (if v.is s then [] else [v]) ∧
    (v.is s = true → (foldCore (Core.init (.base sub (some s))) [x] .more).term = .eof) ∧
    (v.is s = false → ∀ us t, foldCore (Core.init (.base sub (some s))) (x :: us) t =
      (foldCore (Core.init (.base sub (some s))) us t).prepend [v]) := by
  refine ⟨?_, ?_, ?_⟩
  · by_cases hv : v.is s = true <;> simp [Core.push, Core.init, h, hv]
  · intro hv; simp [foldCore, Core.push, Core.init, h, hv]
  · intro hv us t; simp [foldCore, Core.push, Core.init, h, hv]

/-- the numeric twins, an equal string and an equal tuple built elsewhere are not the sentinel;
    the sentinel object itself is (whatever its value), and so are CPython's one-object-per-value
    values; `==` and set membership see the twins as equal -/
theorem c17_twins_are_not_the_sentinel :
    (V.flt 1).is (.int 1) = false ∧ (V.bool true).is (.int 1) = false ∧ (V.int 1).is (.int 1) = true ∧
    (V.int 1000).is (.int 1000) = false ∧ (V.str "ab").is (.str "ab") = false ∧
    (V.ref 1 (.str "ab")).is (.ref 1 (.str "ab")) = true ∧ (V.ref 1 (.str "ab")).is (.ref 2 (.str "ab")) = false ∧
    (V.tup [.int 1]).is (.tup [.int 1]) = false ∧ (V.tup []).is (.tup []) = true ∧ (V.ref 7 (.obj 1)).is (.int 1) = false ∧
    (match (V.flt 1).pyEqAtom (.int 1), (V.bool true).pyEqAtom (.int 1), (V.ref 7 (.obj 1)).pyEqAtom (.int 1) with
      | .ok true, .ok true, .ok true => true | _, _, _ => false) = true ∧
    ((V.flt 1).key == (V.int 1).key && (V.bool true).key == (V.int 1).key &&
      (V.tup [.flt 1]).key == (V.tup [.bool true]).key && !((V.ref 7 (.obj 1)).key == (V.int 1).key)) = true := by
  decide

/-- **SKIP and STOP mean something to `Iter(subspec)` itself and to nothing else** (the reading of
    "honouring SKIP, STOP").  (1) When the subspec — for `Iter()` the item itself — gives the SKIP object the
    item is dropped, at the STOP object the stream ends, before the sentinel is looked at.  (2) A `map`
    function that gives SKIP / STOP yields that object as an ordinary item and the stream goes on (glom:
    `list(glom([1,2,3], Iter().map(lambda x: SKIP if x == 2 else x))) == [1, SKIP, 3]`).  (3) For `filter` /
    `takewhile` / `dropwhile` a key that gives SKIP / STOP is a falsy key (boltons' sentinels are falsy):
    the item is dropped / the stream ends / the dropping ends — because it is falsy, not because it is SKIP. -/
theorem c17_skip_stop_only_in_subspec (f : Fn) (s : Option V) (x : V) (b : Bool) (h : f x = .ok (.sent b)) (c : Core) :
    ((Core.init (.base (BaseFn.ofFn f) s)).push x).1 = [] ∧
    (match ((Core.init (.base (BaseFn.ofFn f) s)).push x).2.2, b with
      | .go, false => True | .stop, true => True | _, _ => False) ∧
    (c.kind = .map f → (c.push x).1 = [.sent b] ∧ (match (c.push x).2.2 with | .go => True | _ => False)) ∧
    (c.kind = .filter f → (c.push x).1 = [] ∧ (match (c.push x).2.2 with | .go => True | _ => False)) ∧
    (c.kind = .takewhile f → (c.push x).1 = [] ∧ (match (c.push x).2.2 with | .stop => True | _ => False)) := by
  refine ⟨?_, ?_, ?_, ?_, ?_⟩
  · cases b <;> simp [Core.push, Core.init, BaseFn.ofFn, h, Except.map, Yield.ofV]
  · cases b <;> simp [Core.push, Core.init, BaseFn.ofFn, h, Except.map, Yield.ofV]
  · intro hc; simp [Core.push, hc, h]
  · intro hc; simp [Core.push, hc, h, V.truthy]
  · intro hc; simp [Core.push, hc, h, V.truthy]

/-! ### semantics -/

/-- **Trace soundness, every source.**  Whatever a `take k` run observes — for any source,
    finite or infinite, any fuel — is what the composition of the stage functions
    determines: the items are a prefix of the composed trace at every horizon `N` at or
    beyond the pulled prefix, the iterator ends / raises exactly where the composed trace
    does, unless `glomit` itself raised while priming a window (then nothing was yielded
    and the exception is that of the chain below the window). -/
theorem c17_trace (kinds : List Kind) (src : Src) (fuel k : Nat)
    (h : (runTake kinds src fuel k).fin ≠ .oof) :
    TraceOK kinds src k (runTake kinds src fuel k) ∨
    ((runTake kinds src fuel k).items = [] ∧ ∃ e, (runTake kinds src fuel k).fin = .raised e ∧
      ∀ N, (runTake kinds src fuel k).pulls ≤ N → PrimeRaised src [] kinds e N) :=
  (runTake_spec src fuel kinds k h).result

/-- **Semantics (`c17_semantics`).**  For every stage list (of any length, stages in
    chaining order), every finite source and all user functions: if the composition of
    the list functions — `map, filter, takeWhile, dropWhile, slice, chunked, windowed,
    split, unique, join` after the base `Iter(subspec, sentinel)` — evaluates to `ys`,
    then `Iter….all()` terminates and returns exactly `ys`. -/
theorem c17_semantics (kinds : List Kind) (hw : ∀ k ∈ kinds, k.wf = true) (xs ys : List V)
    (h : composeE kinds xs = .ok ys) :
    ∃ F, ∀ fuel, F ≤ fuel →
      (runAll kinds (.fin xs none) fuel).items = ys ∧ (runAll kinds (.fin xs none) fuel).fin = .exhausted := by
  obtain ⟨F, hF⟩ := runAll_terminates (.fin xs none) xs.length kinds hw
    (primeAnswered_nil_of_all _ _ kinds (fun b => det_fin_not_more b xs none)) (det_fin_not_more kinds xs none)
  refine ⟨F, fun fuel hf => ?_⟩
  have hspec := runAll_spec (.fin xs none) fuel kinds (hF fuel hf)
  have hpl := (hspec.bounded xs.length (srcBound_fin xs none)).1
  have hdet : det kinds (.fin xs none) xs.length = ⟨ys, .eof⟩ := by
    rw [det_fin_full]; exact compose_ref kinds xs ys hw h
  rcases hspec.result with htr | ⟨e, _, hraised⟩
  · have := htr xs.length hpl
    revert this
    cases (runAll kinds (.fin xs none) fuel).fin with
    | gotK => intro h; exact absurd h id
    | exhausted => intro hd; rw [hdet] at hd; exact ⟨by injection hd with h1 _; exact h1.symm, rfl⟩
    | raised e => intro hd; rw [hdet] at hd; injection hd with _ h2; cases h2
    | oof => intro h; exact absurd h id
  · -- a window cannot meet an error below it when the composition evaluates
    obtain ⟨b, k, a, zs, hk, _, hd⟩ := hraised xs.length hpl
    obtain ⟨ws, hws⟩ := composeE_prefix b (k :: a) xs ys (by rw [← hk]; exact h)
    have := compose_ref b xs ws (fun k' hk' => hw k' (by rw [hk]; simp [hk'])) hws
    simp only [List.nil_append] at hd
    rw [det_fin_full, this] at hd
    injection hd with _ h2; cases h2

/-- **What is determined stays determined, and it is a prefix of the composition.**  On every
    source the outputs determined by the first `n` items are extended (never revised) by those the
    first `m ≥ n` items determine; and whenever the composition of the list functions evaluates on
    the whole of a finite source, every one of them is a prefix of its value — the per-prefix traces the
    checker works with (`det`, built from the stages' step functions) never say anything the list
    functions do not. -/
theorem c17_determined_monotone (kinds : List Kind) (src : Src) (n m : Nat) (h : n ≤ m) :
    (det kinds src n).items <+: (det kinds src m).items ∧
    ((det kinds src n).term ≠ .more → det kinds src m = det kinds src n) := by
  have hle := det_mono kinds src h
  refine ⟨hle.items, fun hne => ?_⟩
  rcases hle with ⟨h1, _⟩ | h1
  · exact absurd h1 hne
  · exact h1.symm

theorem c17_determined_prefix_of_composition (kinds : List Kind) (hw : ∀ k ∈ kinds, k.wf = true) (xs ys : List V)
    (h : composeE kinds xs = .ok ys) (n : Nat) : (det kinds (.fin xs none) n).items <+: ys :=
  det_prefix_of_compose kinds hw xs ys h n

/-- **The checkers accept only the composition.**  `checkTake` / `checkAll` compare an observation with
    `det` (the stages' own step functions folded over the source) — but whenever the composition of the
    LIST functions evaluates to `ys`, an observation they accept has exactly the first `k` items of `ys`
    (all of `ys`), and ends as `ys` does.  (The driver evaluates `composeE` as well and compares the
    implementation with it directly.) -/
theorem c17_checker_accepts_only_the_composition (kinds : List Kind) (hw : ∀ k ∈ kinds, k.wf = true) (xs ys : List V)
    (h : composeE kinds xs = .ok ys) (o : TakeObs) :
    (∀ k, checkTake kinds (.fin xs none) k o = true →
      o.items = ys.take k ∧ o.fin = (if ys.length ≥ k then .gotK else .exhausted)) ∧
    (checkAll kinds (.fin xs none) o = true → o.items = ys ∧ o.fin = .exhausted) :=
  ⟨fun k hc => checkTake_sound kinds hw xs ys k o h hc, fun hc => checkAll_sound kinds hw xs ys o h hc⟩

/-- the same for `take k`: the first `k` items of the composition -/
theorem c17_semantics_take (kinds : List Kind) (hw : ∀ k ∈ kinds, k.wf = true) (xs ys : List V) (k : Nat)
    (h : composeE kinds xs = .ok ys) :
    ∃ F, ∀ fuel, F ≤ fuel → (runTake kinds (.fin xs none) fuel k).items = ys.take k := by
  obtain ⟨F, hF⟩ := runTake_terminates_fin kinds xs none k hw
  refine ⟨F, fun fuel hf => ?_⟩
  have hspec := runTake_spec (.fin xs none) fuel kinds k (hF fuel hf)
  have hpl := (hspec.bounded xs.length (srcBound_fin xs none)).1
  have hdet : det kinds (.fin xs none) xs.length = ⟨ys, .eof⟩ := by
    rw [det_fin_full]; exact compose_ref kinds xs ys hw h
  rcases hspec.result with htr | ⟨_, e, _, hraised⟩
  · have := htr xs.length hpl
    have hne := hF fuel hf
    revert this hne
    cases (runTake kinds (.fin xs none) fuel k).fin with
    | gotK =>
      intro ⟨hlen, rest, hrest⟩ _
      rw [hdet] at hrest
      have : ys = (runTake kinds (.fin xs none) fuel k).items ++ rest.items := by
        injection hrest with h1 _
      rw [this, List.take_append_of_le_length (by omega), List.take_of_length_le (by omega)]
    | exhausted =>
      intro ⟨hlen, hd⟩ _
      rw [hdet] at hd
      injection hd with h1 _
      rw [h1, List.take_of_length_le (by omega)]
    | raised e => intro ⟨_, hd⟩ _; rw [hdet] at hd; injection hd with _ h2; cases h2
    | oof => intro _ hne; exact absurd rfl hne
  · obtain ⟨b, k', a, zs, hk, _, hd⟩ := hraised xs.length hpl
    obtain ⟨ws, hws⟩ := composeE_prefix b (k' :: a) xs ys (by rw [← hk]; exact h)
    have := compose_ref b xs ws (fun k'' hk'' => hw k'' (by rw [hk]; simp [hk''])) hws
    simp only [List.nil_append] at hd
    rw [det_fin_full, this] at hd
    injection hd with _ h2; cases h2

/-- the reference list functions are the ones of the standard library when the user
    functions are total (`ok ∘ g`) -/
theorem c17_ref_is_itertools (g : V → V) (xs : List V) :
    refE (.map (fun x => .ok (g x))) xs = .ok (xs.map g) ∧
    refE (.filter (fun x => .ok (g x))) xs = .ok (xs.filter (fun x => (g x).truthy)) ∧
    refE (.takewhile (fun x => .ok (g x))) xs = .ok (xs.takeWhile (fun x => (g x).truthy)) ∧
    refE (.dropwhile (fun x => .ok (g x))) xs = .ok (xs.dropWhile (fun x => (g x).truthy)) := by
  refine ⟨?_, ?_, ?_, ?_⟩
  · induction xs with
    | nil => rfl
    | cons x xs ih => simp only [refE] at ih ⊢; simp [ih, bind, Except.bind, pure, Except.pure]
  · induction xs with
    | nil => rfl
    | cons x xs ih =>
      simp only [refE] at ih ⊢
      simp only [filterE, ih, bind, Except.bind, pure, Except.pure, List.filter_cons]
  · induction xs with
    | nil => rfl
    | cons x xs ih =>
      simp only [refE] at ih ⊢
      simp only [takeWhileE, bind, Except.bind, pure, Except.pure, List.takeWhile_cons]
      split
      · simp [ih]
      · rfl
  · induction xs with
    | nil => rfl
    | cons x xs ih =>
      simp only [refE] at ih ⊢
      simp only [dropWhileE, bind, Except.bind, pure, Except.pure, List.dropWhile_cons]
      split
      · simp [ih]
      · rfl

/-- **The reference list functions, described without their recursion.**  `slice`: output `i` is the item
    at `start + i·step` if that is below `stop`; `chunked`: chunk `i` is the items `[i·size, (i+1)·size)`, padded
    when a fill is given; `windowed`: window `i` is the items `[i, i+size)`; `split` (every separator, no
    limit): the groups hold exactly the non-separators in order, no group holds a separator, and there is
    one more group than separators; `unique`: item `i` is kept iff its key is none of the keys before it. -/
theorem c17_ref_anchors (xs : List V) (i : Nat) :
    (∀ a stop step, 1 ≤ step → (sliceL a stop step xs)[i]? =
      if (match stop with | some s => decide (a + i * step < s) | none => true) then xs[a + i * step]? else none) ∧
    (∀ size fill, 1 ≤ size → (chunkedL size fill xs)[i]? =
      if i * size < xs.length then some (.list (padTo size fill ((xs.drop (i * size)).take size))) else none) ∧
    (∀ size, 1 ≤ size → (windowedL size xs)[i]? =
      if i + size ≤ xs.length then some (.tup ((xs.drop i).take size)) else none) ∧
    (∀ p : V → Bool, (splitL p false true none xs).flatten = xs.filter (fun x => !p x) ∧
      (splitL p false true none xs).length = xs.countP p + 1 ∧
      ∀ g ∈ splitL p false true none xs, ∀ x ∈ g, p x = false) ∧
    (∀ ks : List V, uniqueAux [] (xs.zip ks) =
      ((xs.zip ks).zipIdx).filterMap (fun p =>
        if (((xs.zip ks).take p.2).map (·.2)).contains p.1.2 then none else some p.1.1)) :=
  ⟨fun a stop step h => sliceL_getElem? a stop step h xs i, fun size fill h => chunkedL_getElem? size fill h xs i,
   fun size h => windowedL_getElem? size h xs i, fun p => splitL_plain_spec p xs true,
   fun ks => by simpa using uniqueAux_spec (xs.zip ks) [] 0⟩

/-- `limit(n)` / `slice(a, None)` are `take` / `drop`; `flatten` is `join` -/
theorem c17_ref_slices (n a : Nat) (xs : List V) (ls : List (List V)) :
    refE (.slice 0 (some n) 1) xs = .ok (xs.take n) ∧ refE (.slice a none 1) xs = .ok (xs.drop a) ∧
    refE .flatten (ls.map V.list) = .ok ls.flatten := by
  have h1 : ∀ l : List V, stepAux 1 0 l = l := by
    intro l; induction l with
    | nil => rfl
    | cons x l ih => simp [stepAux, ih]
  have h2 : ∀ (a : Nat) (l : List V), stepAux 1 a l = l.drop a := by
    intro a; induction a with
    | zero => intro l; simp [h1]
    | succ a ih => intro l; cases l <;> simp [stepAux, ih]
  refine ⟨by simp [refE, sliceL, h1], by simp [refE, sliceL, h2], ?_⟩
  have hm : ∀ ls : List (List V), (ls.map V.list).mapM iterE = .ok ls := by
    intro ls
    induction ls with
    | nil => rfl
    | cons l ls ih => rw [List.map_cons, List.mapM_cons, ih]; rfl
  simp only [refE, flattenE]; rw [hm]; rfl

/-! ### laziness -/

/-- **Laziness (`c17_lazy`).**  For every source (finite or infinite), every stage list and
    every `k`: every source position the run pulled was *needed* — either a `windowed`
    stage was being primed and the chain below it had not yet delivered its `size - 1`
    items on that prefix, or the prefix does not determine `k` outputs nor the end of the
    stream.  So nothing beyond the shortest sufficient prefix is ever pulled. -/
theorem c17_lazy (kinds : List Kind) (src : Src) (fuel k : Nat)
    (h : (runTake kinds src fuel k).fin ≠ .oof) :
    ∀ m, m < (runTake kinds src fuel k).pulls →
      PrimeNeeded src [] kinds m ∨ (det kinds src m).answers k = false :=
  (runTake_spec src fuel kinds k h).needed

/-- without a `windowed` stage nothing is pulled by `glomit` itself -/
theorem c17_lazy_no_window (kinds : List Kind) (hnw : ∀ k ∈ kinds, k.primeCount = 0) (src : Src) (fuel k : Nat)
    (h : (runTake kinds src fuel k).fin ≠ .oof) :
    ∀ m, m < (runTake kinds src fuel k).pulls → (det kinds src m).answers k = false := by
  intro m hm
  rcases c17_lazy kinds src fuel k h m hm with ⟨b, k', a, hk, hn⟩ | h'
  · have := hnw k' (by rw [hk]; simp)
    simp [this, Tr.answers] at hn
  · exact h'

/-- on a finite source: `pulls ≤ need(k)`, the least prefix length that determines `k`
    outputs or the end (searched upwards from what `glomit`'s priming needs) -/
theorem c17_lazy_bound (kinds : List Kind) (xs : List V) (tail : Option Err) (fuel k : Nat)
    (h : (runTake kinds (.fin xs tail) fuel k).fin ≠ .oof) :
    (runTake kinds (.fin xs tail) fuel k).pulls ≤
      needFrom kinds (.fin xs tail) xs.length k (primeNeed kinds (.fin xs tail) xs.length) := by
  obtain ⟨_, hres⟩ := (runTake_spec _ fuel kinds k h).bounded xs.length (srcBound_fin xs tail)
  rcases hres with ⟨e, _, _, _, hpn⟩ | ⟨_, hneed⟩
  · exact Nat.le_trans hpn (le_leastFrom_start _ _ _ _)
  · exact hneed

/-- **Infinite sources work.**  If the first `N` items of *any* source (e.g. an infinite
    one) determine `k` outputs (or the end) and give every window its items, then `take k`
    terminates, pulls at most `N` items, and yields what the composition determines. -/
theorem c17_infinite_sources (kinds : List Kind) (hw : ∀ k ∈ kinds, k.wf = true) (src : Src) (N k : Nat)
    (hpa : PrimeAnswered src N [] kinds) (hans : (det kinds src N).answers k = true) :
    ∃ F, ∀ fuel, F ≤ fuel →
      (runTake kinds src fuel k).fin ≠ .oof ∧ (runTake kinds src fuel k).pulls ≤ N := by
  obtain ⟨F, hF⟩ := runTake_terminates src N kinds k hw hpa hans
  refine ⟨F, fun fuel hf => ⟨hF fuel hf, ?_⟩⟩
  rcases Nat.lt_or_ge N (runTake kinds src fuel k).pulls with hlt | hge
  · rcases c17_lazy kinds src fuel k (hF fuel hf) N hlt with ⟨b, k', a, hk, hn⟩ | hn
    · rw [hpa b k' a hk] at hn; cases hn
    · rw [hans] at hn; cases hn
  · exact hge

/-- **`all()` terminates exactly on finite streams.**  `Iter….all()` returns (or raises)
    iff some finite prefix of the source already determines the end of the stream and
    gives every window its items; in particular on every finite source. -/
theorem c17_all_terminates_iff_finite (kinds : List Kind) (hw : ∀ k ∈ kinds, k.wf = true) (src : Src) :
    (∃ fuel, (runAll kinds src fuel).fin ≠ .oof) ↔
    (∃ N, PrimeAnswered src N [] kinds ∧ (det kinds src N).term.isMore = false) := by
  constructor
  · rintro ⟨fuel, h⟩
    have hspec := runAll_spec src fuel kinds h
    refine ⟨(runAll kinds src fuel).pulls, hspec.primed _ (Nat.le_refl _), ?_⟩
    rcases hspec.result with htr | ⟨e, _, hraised⟩
    · have := htr _ (Nat.le_refl _)
      revert this
      cases (runAll kinds src fuel).fin with
      | gotK => intro h; exact absurd h id
      | exhausted => intro hd; rw [hd]; rfl
      | raised e => intro hd; rw [hd]; rfl
      | oof => intro h; exact absurd h id
    · obtain ⟨b, k, a, ys, hk, _, hd⟩ := hraised _ (Nat.le_refl _)
      subst hk
      rcases hm : (det (b ++ k :: a) src (runAll (b ++ k :: a) src fuel).pulls).term.isMore with _ | _
      · rfl
      · simp only [det, pipeTr_append] at hm
        have := pipeTr_isMore _ _ hm
        simp only [List.nil_append, det] at hd
        rw [hd] at this; cases this
  · rintro ⟨N, hpa, hterm⟩
    obtain ⟨F, hF⟩ := runAll_terminates src N kinds hw hpa hterm
    exact ⟨F, hF F (Nat.le_refl _)⟩

theorem c17_all_terminates_finite_source (kinds : List Kind) (hw : ∀ k ∈ kinds, k.wf = true)
    (xs : List V) (tail : Option Err) : ∃ fuel, (runAll kinds (.fin xs tail) fuel).fin ≠ .oof :=
  (c17_all_terminates_iff_finite kinds hw _).mpr
    ⟨xs.length, primeAnswered_nil_of_all _ _ kinds (fun b => det_fin_not_more b xs tail), det_fin_not_more kinds xs tail⟩

/-- **`first()` terminates as documented**: as soon as a finite prefix determines an item
    with a truthy key (or a raising key, or the end of the stream), `first(key, default)`
    returns that item (the default at the end), having pulled nothing beyond that prefix. -/
theorem c17_first_terminates (kinds : List Kind) (hw : ∀ k ∈ kinds, k.wf = true) (src : Src) (key : Fn) (N : Nat)
    (hpa : PrimeAnswered src N [] kinds)
    (href : firstRef key (det kinds src N).items (det kinds src N).term 0 ≠ .atEnd .more) :
    ∃ F, ∀ fuel, F ≤ fuel →
      FirstSpec kinds src key (runFirst kinds src fuel key).1 (runFirst kinds src fuel key).2 := by
  obtain ⟨F, hF⟩ := runFirst_terminates src N kinds key hw hpa href
  exact ⟨F, fun fuel hf => runFirst_spec src fuel kinds key (hF fuel hf)⟩

/-! ### the builder methods at the edges of their arguments -/

/-- **What the builder methods make of the values a caller can write, and when a bad one is rejected**
    (`Model/C17Args.lean`; every row is run against glom by the `args` cases).  `slice` validates when it is
    called: `ValueError` for a negative / float / string bound and for a step below 1, `TypeError` for no or four
    arguments.  `limit(-1)` builds, and `islice` raises `ValueError` inside `glomit`.  `chunked(0)` /
    `chunked(-1)` raise `ValueError` at the first `next()` (nothing pulled), `chunked(1.5)` is `chunked(1)`,
    (`chunked('2')` is `chunked(2)`: `Arg.toInt`,) `chunked(None)` a `TypeError` at the first `next()`.  `windowed(0)` is the empty
    stream, `windowed(-1)` / `windowed(1.5)` raise `ValueError` / `TypeError` inside `glomit`.  `split(sep, 0)` hands
    out `[<the upstream iterator>]`, a negative `maxsplit` never splits, `split(sep, 1.5)` is `split(sep, 1)`. -/
theorem c17_builder_arguments :
    (match sliceMethod [.int (-1)], sliceMethod [.flt 1 true], sliceMethod [.str "a"], sliceMethod [.int 0, .int 5, .int 0],
        sliceMethod [], sliceMethod [.int 1, .int 2, .int 3, .int 4] with
      | .error "ValueError", .error "ValueError", .error "ValueError", .error "ValueError", .error "TypeError",
        .error "TypeError" => true
      | _, _, _, _, _, _ => false) = true ∧
    (match sliceMethod [.none], sliceMethod [.bool true], sliceMethod [.int 1, .none, .int 2] with
      | .ok (.slice 0 none 1), .ok (.slice 0 (some 1) 1), .ok (.slice 1 none 2) => true
      | _, _, _ => false) = true ∧
    (match limitMethod (.int (-1)), limitMethod (.flt 2 true), limitMethod (.str "a"), limitMethod (.int 3), limitMethod .none with
      | .raises "ValueError" true, .raises "ValueError" true, .raises "ValueError" true, .slice 0 (some 3) 1, .slice 0 none 1 => true
      | _, _, _, _, _ => false) = true ∧
    (match chunkedMethod (.int 0) none, chunkedMethod (.int (-1)) none, chunkedMethod (.flt 1 false) none,
        chunkedMethod (.flt 0 false) none, chunkedMethod .none none with
      | .raises "ValueError" false, .raises "ValueError" false, .chunked 1 none, .raises "ValueError" false,
        .raises "TypeError" false => true
      | _, _, _, _, _ => false) = true ∧
    (match windowedMethod (.int 0), windowedMethod (.int (-1)), windowedMethod (.flt 1 false), windowedMethod (.int 3),
        windowedMethod (.bool true) with
      | .slice 0 (some 0) 1, .raises "ValueError" true, .raises "TypeError" true, .windowed 3, .windowed 1 => true
      | _, _, _, _, _ => false) = true ∧
    (match splitMethod .none (.int 0), splitMethod .none (.int (-1)), splitMethod .none (.flt 1 false), splitMethod .none .none with
      | .wrapIter, .split .none (some 0), .split .none (some 1), .split .none none => true
      | _, _, _, _ => false) = true := by
  decide

/-- **A callback that raises inside `glomit`** (`limit(-1)`, `windowed(-1)`): `glom()` itself raises that exception,
    nothing is yielded, and the source has been pulled exactly as far as the stages chained BEFORE the bad one
    pulled while they were built (a `windowed(size)` before it: `size - 1` items) — the observation of the model passes
    the checker `checkTakeG`, which says just that. -/
theorem c17_model_checks_take_glomit (kinds : List Kind) (xs : List V) (tail : Option Err) (fuel k : Nat)
    (h : (runTakeG kinds (.fin xs tail) fuel k).fin ≠ .oof) :
    let out := runTakeG kinds (.fin xs tail) fuel k
    checkTakeG kinds (.fin xs tail) k ⟨out.items, out.fin, out.pulls⟩ = true :=
  checkTakeG_model kinds xs tail fuel k h

/-- **What a key is for each stage.**  The result of a key is read for its truth value; for a result WITHOUT one
    (`bool()` raises): `filter` drops the item silently (its `Check(key, default=SKIP)` turns the failure into
    SKIP), `takewhile` / `dropwhile` / `first` / a callable `split` separator raise.  `filter` also drops an item that
    IS the SKIP object whatever its key says (a passing `Check` returns the item).  A `Check` instance given to
    `filter` is the check itself: a failing one keeps the item unless its default is SKIP, or raises `CheckError`. -/
theorem c17_keys_per_stage (f validate : Fn) (x y : V) (h : f x = .ok y) (hy : y.truthyE = .error "ValueError") :
    Fn.asFilterKey f x = .ok (.bool false) ∧ Fn.asPredicate f x = .error "ValueError" ∧
    (∀ g : Fn, Fn.asFilterKey g (.sent false) = .ok (.bool false) ∨ ∃ e, Fn.asFilterKey g (.sent false) = .error e) ∧
    (validate x = .ok (.bool false) →
      Fn.ofCheck validate .keep x = .ok (.bool true) ∧ Fn.ofCheck validate .skip x = .ok (.bool false) ∧
      Fn.ofCheck validate .raises x = .error "CheckError") ∧
    (validate x = .ok (.int 0) → x ≠ .sent false → Fn.ofCheck validate .raises x = .ok (.bool true)) := by
  refine ⟨by simp [Fn.asFilterKey, h, hy], by simp [Fn.asPredicate, h, hy], ?_, ?_, ?_⟩
  · intro g
    simp only [Fn.asFilterKey]
    cases hg : g (.sent false) with
    | error e => right; exact ⟨e, rfl⟩
    | ok z => left; cases hz : z.truthyE with
      | error e => simp [hz]
      | ok b => cases b <;> simp [hz]
  · intro hv; simp [Fn.ofCheck, hv]
  · intro hv hx
    simp only [Fn.ofCheck, hv]
    cases x <;> first | rfl | (rename_i b; cases b <;> first | rfl | exact absurd rfl hx)

/-! ### going on after an exception -/

/-- **What a stage is after an exception has passed through it** (its own, or one from below).  The exception is
    raised ONCE.  `map` / `filter` / `takewhile` / `dropwhile` — iterator objects whose `__next__` just lets the
    exception through — are what they were (same counters, same flags) and answer the next `next()` with the next
    element; every other stage — the generators `_iterate`, `chunked_iter`, `split_iter`, `unique_iter`, and
    `islice` / `chain.from_iterable`, which drop their source — is finished: `StopIteration` from then on, whatever
    it was holding (an open chunk, a group) is lost, and it pulls no further. -/
theorem c17_after_exception (s : StageSt) (e : Err) (ho : s.out = []) (he : s.err = some e) :
    s.poll = (.fail e, s.afterError) ∧
    (∀ a s', s.afterError.poll = (a, s') → ∀ e', a ≠ .fail e') ∧
    (s.core.kind.survives = true → s.afterError = { s with err := none }) ∧
    (s.core.kind.survives = false → s.afterError.poll = (.done, s.afterError)) ∧
    (∀ k : Kind, k.survives = true ↔ (match k with
      | .map _ | .filter _ | .takewhile _ | .dropwhile _ => True | _ => False)) := by
  refine ⟨by simp [StageSt.poll, ho, he], ?_, ?_, ?_, ?_⟩
  · intro a s' h e' hae
    subst hae
    by_cases hs : s.core.kind.survives = true
    · simp [StageSt.afterError, hs, StageSt.poll, ho] at h
      split at h <;> simp at h
    · simp [StageSt.afterError, hs, StageSt.poll] at h
  · intro hs; simp [StageSt.afterError, hs]
  · intro hs; simp [StageSt.afterError, hs, StageSt.poll]
  · intro k; cases k <;> simp [Kind.survives]

/-- **Up to the first exception the event reference is the trace reference**: for a stage that does not survive an
    exception, the events a catch-and-continue consumer sees on an exception-free input (`evFold`, the reference of the
    `events` cases) are the items of the stage's trace, then the exception it ends with, then nothing.  (Full statement,
    validated by the correspondence only: for every chain, `nextN` — the model pulled on after every exception — yields
    the first events of `evPipe kinds (srcEvents xs tail)`.) -/
theorem c17_events_until_first_exception_partial (us : List V) (c : Core) (h : c.kind.survives = false) :
    evFold c (us.map .item) = (foldCore c us .eof).events :=
  evFold_eq_trace us c h

/-! ### laziness in closed form -/

/-- **How much lookahead each stage has**, for the stages whose lookahead does not depend on the
    data: for `n` outputs (or its end) the stage needs at most this many items of its input —
    `Iter(subspec)` without SKIP, `map`, `takewhile`: `n`;  `chunked(size)`: `n * size`;
    `windowed(size)`: `n + size - 1`;  `slice(start, stop, step)` / `limit`: `start + (n-1)*step + 1`.
    (`filter`, `dropwhile`, `unique`, `split`, `flatten` and a subspec that answers SKIP have no
    such bound: a run of rejected items can be arbitrarily long — `c17_lazy` is the statement for them.) -/
theorem c17_stage_lookahead (sub : BaseFn) (s : Option V) (hns : NoSkip sub) (f : Fn) (size a step : Nat)
    (fill : Option V) (stop : Option Nat) (hsize : 1 ≤ size) (hstep : 1 ≤ step) :
    StageBound (.base sub s) id ∧ StageBound (.map f) id ∧ StageBound (.takewhile f) id ∧
    StageBound (.chunked size fill) (· * size) ∧
    StageBound (.windowed size) (fun n => if n = 0 then 0 else n + size - 1) ∧
    StageBound (.slice a stop step) (fun n => if n = 0 then 0 else a + (n - 1) * step + 1) :=
  ⟨stageBound_base sub s hns, stageBound_map f, stageBound_takewhile f, stageBound_chunked size fill hsize,
   stageBound_windowed size hsize, stageBound_slice a stop step hstep⟩

/-- **Laziness of a composition, in closed form (`c17_lazy_closed_form`).**  When every stage of a
    pipeline has a lookahead bound (`bs`, stage by stage), then on EVERY source — finite,
    raising, infinite — `take k` terminates and pulls at most `N` source items, for any `N`
    that covers the composed bound `b₁ (b₂ (… (bₘ k)))` and, for every `windowed` stage, what
    the stages below it need to hand it its first `size - 1` items while `glomit` runs. -/
theorem c17_lazy_closed_form (kinds : List Kind) (hw : ∀ k ∈ kinds, k.wf = true) (bs : List (Nat → Nat))
    (hb : StageBounds kinds bs) (src : Src) (k N : Nat) (hN : pipeBound bs k ≤ N)
    (hprime : ∀ b k' a, kinds = b ++ k' :: a → pipeBound (bs.take b.length) k'.primeCount ≤ N) :
    ∃ F, ∀ fuel, F ≤ fuel →
      (runTake kinds src fuel k).fin ≠ .oof ∧ (runTake kinds src fuel k).pulls ≤ N := by
  apply c17_infinite_sources kinds hw src N k
  · intro b k' a hk
    have htake : kinds.take b.length = b := by rw [hk]; simp
    have hsb := stageBounds_take kinds bs hb b.length
    rw [htake] at hsb
    simp only [List.nil_append, det]
    exact pipeBound_answers b _ hsb _ _ (answers_mono (pfx_answers src N) (hprime b k' a hk))
  · exact pipeBound_answers kinds bs hb _ _ (answers_mono (pfx_answers src N) hN)

/-! ### boltons' helpers, as written, are the stages

  `Model/C17Boltons.lean` transcribes `unique_iter`, `chunked_iter`, `split_iter` and
  `windowed_iter` from boltons' source, statement by statement, as generators over an upstream
  iterator (the `for` loops with their `continue`s, `list(islice(src_iter, size))`, the
  `seen` set, `cur_group` / `split_count`, `itertools.tee` with its shared buffer and
  `zip(*tees)`); the correspondence runs them against the installed boltons.  Here: on every
  finite upstream — ending normally or by raising — each of them yields exactly the trace of
  the transducer the C17 theorems are about (same items, same end, same exception), hence
  (with `stage_ref`) the list function; and how far each `next()` moves the upstream. -/

open Glom.C17.Boltons in
theorem c17_boltons_unique (xs : List V) (tail : Option Err) (key : Fn) (fuel n : Nat)
    (hf : xs.length < fuel) (hn : xs.length < n) :
    collect (uniqueNext (.fin xs tail) key fuel) n ⟨0, [], false⟩ [] =
      ((stageTr (.unique key) ⟨xs, termOf tail⟩).items, resOf (stageTr (.unique key) ⟨xs, termOf tail⟩).term) := by
  have := unique_collect xs tail key fuel hf n ⟨0, [], false⟩ [] rfl (by simp; omega)
  simpa [stageTr, Kind.initStopped, uniqueCore, Core.init] using this

open Glom.C17.Boltons in
/-- … and one `next()` of `chunked_iter` pulls at most `size` items -/
theorem c17_boltons_chunked (xs : List V) (tail : Option Err) (size : Nat) (fill : Option V) (hsize : 1 ≤ size) (n : Nat)
    (hn : xs.length < n) :
    collect (chunkedNext (.fin xs tail) size fill) n ⟨0, false⟩ [] =
      ((stageTr (.chunked size fill) ⟨xs, termOf tail⟩).items, resOf (stageTr (.chunked size fill) ⟨xs, termOf tail⟩).term) ∧
    ∀ g : ChunkedGen, g.finished = false →
      (chunkedNext (.fin xs tail) size fill g).2.pos ≤ g.pos + size := by
  constructor
  · have := chunked_collect xs tail size fill hsize n ⟨0, false⟩ [] rfl (by simp; omega)
    simpa [stageTr, Kind.initStopped, chunkCore, Core.init] using this
  · intro g hg
    simp only [chunkedNext, hg, Bool.false_eq_true, ↓reduceIte]
    rw [isliceList_fin xs tail size g.pos [] (xs.drop g.pos) rfl]
    by_cases hle : size ≤ (xs.drop g.pos).length
    · simp only [hle, ↓reduceIte]; split <;> simp_all
    · simp only [hle, ↓reduceIte]
      have : (xs.drop g.pos).length < size := by omega
      cases tail with
      | none => simp only; split <;> simp_all <;> omega
      | some e => simp only; omega

open Glom.C17.Boltons in
theorem c17_boltons_split (xs : List V) (tail : Option Err) (sep : Sep) (m : Option Nat) (fuel n : Nat)
    (hf : xs.length < fuel) (hn : xs.length + 1 < n) :
    collect (splitNext (.fin xs tail) sep m fuel) n ⟨0, [], 0, false⟩ [] =
      ((stageTr (.split sep m) ⟨xs, termOf tail⟩).items, resOf (stageTr (.split sep m) ⟨xs, termOf tail⟩).term) := by
  have := split_collect xs tail sep m fuel hf n ⟨0, [], 0, false⟩ [] rfl (by simp; omega)
  simpa [stageTr, Kind.initStopped, splitCore, Core.init] using this

open Glom.C17.Boltons in
/-- `windowed_iter` is a plain function: calling it (which `glomit` does) staggers the tees, which pulls
    `size - 1` items — all there are, when there are fewer — and raises what the source raises
    meanwhile; after that `zip(*tees)` yields the windows -/
theorem c17_boltons_windowed (xs : List V) (tail : Option Err) (size : Nat) (hsize : 1 ≤ size) :
    match windowedInit (.fin xs tail) 0 size with
    | .ok g =>
      g.pos = min (size - 1) xs.length ∧
      ∀ n, xs.length < n → collect (windowedNext (.fin xs tail)) n g [] =
        ((stageTr (.windowed size) ⟨xs, termOf tail⟩).items, resOf (stageTr (.windowed size) ⟨xs, termOf tail⟩).term)
    | .error (e, p) => p = xs.length ∧ stageTr (.windowed size) ⟨xs, termOf tail⟩ = ⟨[], .err e⟩ := by
  have := windowed_collect xs tail size hsize
  revert this
  cases windowedInit (.fin xs tail) 0 size with
  | ok g => intro h; simpa [stageTr, Kind.initStopped, winCore, Core.init] using h
  | error ep => intro h; simpa [stageTr, Kind.initStopped, winCore, Core.init] using h

open Glom.C17.Boltons in
/-- **The stage laws, of the code as written**: on an upstream `xs` that ends normally, the four
    generators yield what the list functions `uniqueE`, `chunkedL`, `splitE`, `windowedL` give. -/
theorem c17_boltons_stage_laws (k : Kind) (hw : k.wf = true) (xs ys : List V) (h : refE k xs = .ok ys) (fuel n : Nat)
    (hf : xs.length < fuel) (hn : xs.length + 1 < n) :
    (∀ key, k = .unique key → collect (uniqueNext (.fin xs none) key fuel) n ⟨0, [], false⟩ [] = (ys, .eof)) ∧
    (∀ size fill, k = .chunked size fill → collect (chunkedNext (.fin xs none) size fill) n ⟨0, false⟩ [] = (ys, .eof)) ∧
    (∀ sep m, k = .split sep m → collect (splitNext (.fin xs none) sep m fuel) n ⟨0, [], 0, false⟩ [] = (ys, .eof)) ∧
    (∀ size, k = .windowed size → ∃ g, windowedInit (.fin xs none) 0 size = .ok g ∧
      collect (windowedNext (.fin xs none)) n g [] = (ys, .eof)) := by
  have href := stage_ref k hw xs ys h
  refine ⟨?_, ?_, ?_, ?_⟩
  · intro key hk; subst hk
    rw [c17_boltons_unique xs none key fuel n hf (by omega)]
    simp only [termOf, href, resOf]
  · intro size fill hk; subst hk
    have hsize : 1 ≤ size := by simpa [Kind.wf] using hw
    rw [(c17_boltons_chunked xs none size fill hsize n (by omega)).1]
    simp only [termOf, href, resOf]
  · intro sep m hk; subst hk
    rw [c17_boltons_split xs none sep m fuel n hf hn]
    simp only [termOf, href, resOf]
  · intro size hk; subst hk
    have hsize : 1 ≤ size := by simpa [Kind.wf] using hw
    have hwin := c17_boltons_windowed xs none size hsize
    revert hwin
    cases windowedInit (.fin xs none) 0 size with
    | ok g =>
      intro ⟨_, hc⟩
      refine ⟨g, rfl, ?_⟩
      rw [hc n (by omega)]
      simp only [termOf, href, resOf]
    | error ep =>
      intro ⟨_, he⟩
      simp only [termOf, href] at he
      cases he

/-! ### the source after a run -/

/-- **Source remainder (`c17_source_remainder`).**  For every stage composition, every source
    (finite, raising, infinite), every `k`, fuel, and every position `p` the source object was
    at when the pipeline was started on it: the effect of the run on the source is exactly
    the pulled prefix.  (1) Seen from where it started, the run *is* the run over the suffix
    `src.drop p` — same items, same end, same number of pulls; (2) the position never moves
    backwards; (3) what `next()` finds on the source afterwards is what it finds on the
    fresh suffix `src.drop pulls`: nothing lost, nothing pushed back; (4) every later consumer
    of the same object — any stage list, any `k'` — behaves as on that suffix.  (That the source is
    not *closed* is not a theorem: the model has no `close()` at all — the source is touched through
    `Src.next` only — and what ties that to the code is the fact `iterateOnlyNexts` plus the
    `closed` flag observed on instrumented sources; `checkSource_after` in `Lemmas/C17Source.lean`
    is the definitional remark that the model's own source observation passes `checkSource`.) -/
theorem c17_source_remainder (kinds : List Kind) (src : Src) (fuel k p r : Nat) :
    let out := runTakeFrom kinds src fuel k p
    out = (runTake kinds (src.drop p) fuel k).shift p ∧
    p ≤ out.pulls ∧
    src.after out.pulls r = (src.drop out.pulls).after 0 r ∧
    ∀ (kinds' : List Kind) (fuel' k' : Nat),
      runTakeFrom kinds' src fuel' k' out.pulls = (runTake kinds' (src.drop out.pulls) fuel' k').shift out.pulls := by
  refine ⟨runTakeFrom_drop kinds src fuel k p, ?_, after_drop src _ r, fun kinds' fuel' k' => runTakeFrom_drop kinds' src fuel' k' _⟩
  rw [runTakeFrom_drop]; exact Nat.le_add_right _ _

/-- on a finite source, in plain list terms: after the run `next()` yields `xs.drop pulls` -/
theorem c17_source_remainder_fin (kinds : List Kind) (xs : List V) (tail : Option Err) (fuel k r : Nat) :
    ((Src.fin xs tail).after (runTake kinds (.fin xs tail) fuel k).pulls r).rest =
      (xs.drop (runTake kinds (.fin xs tail) fuel k).pulls).take r := by
  cases tail <;> rfl

/-- the same for `all()` and `first()` started on a used source -/
theorem c17_source_remainder_all (kinds : List Kind) (src : Src) (fuel p : Nat) :
    runAllFrom kinds src fuel p = (runAll kinds (src.drop p) fuel).shift p :=
  runAllFrom_drop kinds src fuel p

theorem c17_source_remainder_first (kinds : List Kind) (src : Src) (fuel : Nat) (key : Fn) (p : Nat) :
    firstObsOf (runFirstFrom kinds src fuel key p).1 = firstObsOf (runFirst kinds (src.drop p) fuel key).1 ∧
    (runFirstFrom kinds src fuel key p).2 = p + (runFirst kinds (src.drop p) fuel key).2 :=
  runFirstFrom_drop kinds src fuel key p

/-- **Two pipelines over one stream.**  After *any* first pipeline took `k` items from a
    finite stream (having pulled `pulls₁` items, which `c17_lazy_bound` bounds), a second
    pipeline's `all()` over the same stream object returns exactly the composition of its
    list functions over the items after the pulled prefix — `[[1,2],[3,4],[5]]` when
    sentinel-separated groups are read one `glom` call at a time. -/
theorem c17_second_pipeline (kinds₁ kinds₂ : List Kind) (hw : ∀ k ∈ kinds₂, k.wf = true) (xs ys : List V)
    (fuel₁ k : Nat)
    (h : composeE kinds₂ (xs.drop (runTake kinds₁ (.fin xs none) fuel₁ k).pulls) = .ok ys) :
    ∃ F, ∀ fuel, F ≤ fuel →
      (runAllFrom kinds₂ (.fin xs none) fuel (runTake kinds₁ (.fin xs none) fuel₁ k).pulls).items = ys ∧
      (runAllFrom kinds₂ (.fin xs none) fuel (runTake kinds₁ (.fin xs none) fuel₁ k).pulls).fin = .exhausted := by
  obtain ⟨F, hF⟩ := c17_semantics kinds₂ hw _ ys h
  refine ⟨F, fun fuel hf => ?_⟩
  rw [runAllFrom_drop]
  exact hF fuel hf

/-- **A suspended iterator that is resumed** after somebody else took the items `[p, q)`
    from the source goes on exactly as if those items had never been in the source: the
    pipeline sees the sequence of items *it* pulls, whoever else reads the same object. -/
theorem c17_resume (src : Src) (p q : Nat) (hpq : p ≤ q)
    (hlen : match src with | .fin xs _ => p ≤ xs.length | .inf _ => True)
    (fuel k : Nat) (sts : List StageSt) (acc : List V) :
    (takeK (src.without p q) fuel k sts p acc).1.items = (takeK src fuel k sts q acc).1.items ∧
    (takeK (src.without p q) fuel k sts p acc).1.fin = (takeK src fuel k sts q acc).1.fin ∧
    (takeK (src.without p q) fuel k sts p acc).2 = (takeK src fuel k sts q acc).2 ∧
    (takeK (src.without p q) fuel k sts p acc).1.pulls + q = (takeK src fuel k sts q acc).1.pulls + p := by
  obtain ⟨h1, h2, h3, j, h4, h5⟩ := takeK_agree (srcAgree_without src p q hpq hlen) fuel k sts 0 acc
  simp only [Nat.add_zero] at h1 h2 h3 h4 h5
  exact ⟨h1, h2, h3, by omega⟩

/-! ### several live streams: every stream owns its state -/

/-- **`glomit` allocates, it never writes.**  Opening a stream (any spec, any source, any
    world of live streams) leaves every existing stage-state cell as it was: the new stream's
    cells are new. -/
theorem c17_open_allocates (srcs : List Src) (fuel : Nat) (w : World) (id : Nat) (kinds : List Kind) (si : Nat) :
    ∀ a, a < w.heap.length →
      (w.step srcs fuel (.open id kinds si)).1.heap.getD a default = w.heap.getD a default := by
  intro a ha
  cases hl : w.streams id with
  | some s => rw [step_open_some srcs fuel w id kinds si s hl]
  | none =>
    rw [step_open_none srcs fuel w id kinds si hl]
    cases construct (srcs.getD si (.fin [] none)) fuel kinds [] (w.pos si) with
    | ok sts pos' => simp [World.afterOpen, List.getD_eq_getElem?_getD, List.getElem?_append_left ha]
    | err e pos' => rfl
    | oof => rfl

/-- **Stream isolation (`c17_stream_isolation`).**  Any number of live streams — made from the
    same spec object, from specs derived from it, from any specs — each reading the source
    that belongs to it (`own`), opened, pulled, run to their end (`all()` / `first()`) in ANY
    order (`sched`, of any length): what stream `i` yields, event by event, and what it is
    afterwards (its stage states, the position of its source, ended or not) is exactly what
    it yields and is when the events of stream `i` are run ALONE.  Proved by induction over
    the schedule, from any two well-formed worlds in which stream `i` is the same thing. -/
theorem c17_stream_isolation_general (own : Nat → Nat) (hinj : ∀ a b, own a = own b → a = b)
    (srcs : List Src) (fuel : Nat) (i : Nat) (sched : List Ev) (w1 w2 : World)
    (hw1 : w1.WF) (hw2 : w2.WF) (ho1 : w1.Owns own) (ho2 : w2.Owns own)
    (hs : ∀ e ∈ sched, e.srcOk own) (ha : World.Agree own i w1 w2) :
    (w1.run srcs fuel sched).2.filter (·.1 == i) = (w2.run srcs fuel (sched.filter (·.id == i))).2 ∧
    World.Agree own i (w1.run srcs fuel sched).1 (w2.run srcs fuel (sched.filter (·.id == i))).1 :=
  run_isolated own hinj srcs fuel i sched w1 w2 hw1 hw2 ho1 ho2 hs ha

/-- … from the start: every stream of every schedule equals its solo run -/
theorem c17_stream_isolation (own : Nat → Nat) (hinj : ∀ a b, own a = own b → a = b)
    (srcs : List Src) (fuel : Nat) (sched : List Ev) (hs : ∀ e ∈ sched, e.srcOk own) (i : Nat) :
    (World.empty.run srcs fuel sched).2.filter (·.1 == i) =
      (World.empty.run srcs fuel (sched.filter (·.id == i))).2 ∧
    (World.empty.run srcs fuel sched).1.view i =
      (World.empty.run srcs fuel (sched.filter (·.id == i))).1.view i :=
  let r := run_isolated own hinj srcs fuel i sched World.empty World.empty World.empty_wf World.empty_wf
    (fun _ _ h => by simp [World.empty] at h) (fun _ _ h => by simp [World.empty] at h) hs ⟨rfl, rfl⟩
  ⟨r.1, r.2.1⟩

/-- the invariants behind it hold along every schedule: cells in bounds, no cell owned twice -/
theorem c17_streams_own_their_cells (srcs : List Src) (fuel : Nat) (sched : List Ev) :
    (World.empty.run srcs fuel sched).1.WF :=
  run_wf srcs fuel sched World.empty World.empty_wf

/-- **The solo run is the `take`**: a stream that was opened at the start of its source and
    asked `k` times (with whatever else going on in between, by `c17_stream_isolation`) has
    yielded `take k` of its pipeline — `takeK`, the function all semantics and laziness
    theorems above are about; one more `next` is one more item of the same `take`. -/
theorem c17_next_extends_take (src : Src) (fuel k : Nat) (sts0 : List StageSt) (pos0 : Nat) (items : List V) (p : Nat)
    (sts : List StageSt) (h : takeK src fuel k sts0 pos0 [] = (⟨items, .gotK, p⟩, sts)) :
    takeK src fuel (k + 1) sts0 pos0 [] = afterPull items (pullFrom src fuel sts p) :=
  takeK_snoc src fuel k sts0 pos0 [] items p sts h

/-! ### builders -/

/-- **Builder purity (`c17_builder_pure`).**  On a heap of spec objects, `_add_op` (every
    `Iter` method) returns a *new* object whose stack is the entry in front of the old
    stack, and every object that existed before — in particular the spec it was called on —
    is exactly what it was. -/
theorem c17_builder_pure (fwd : Bool) (h : BHeap) (hw : h.wf) (self : Nat) (e : Entry) (it : Iter)
    (hv : h.view self = some it) :
    (h.addOp fwd self e).1.view (h.addOp fwd self e).2 = some (it.addOp fwd e) ∧
    (h.addOp fwd self e).2 = h.iters.length ∧
    ∀ i, i < h.iters.length → (h.addOp fwd self e).1.view i = h.view i :=
  ⟨(BHeap.addOp_view_new fwd h hw self e it hv).2, (BHeap.addOp_view_new fwd h hw self e it hv).1,
   fun i hi => BHeap.addOp_view_old fwd h hw self e i hi⟩

/-- … for every history of builder calls (any spec re-used any number of times) -/
theorem c17_builder_history (fwd : Bool) (h : BHeap) (hw : h.wf) (calls : List (Nat × Entry)) :
    ∀ i, i < h.iters.length → (h.history fwd calls).view i = h.view i :=
  BHeap.history_view fwd calls h hw

/-- `Invoke.constants / specs / star`: a new instance with a copied `_cur_kwargs`; every
    existing instance is exactly what it was, for every history of calls -/
theorem c17_invoke_pure (h : IHeap) (hw : h.wf) (self : Nat) (c : ICall) (inv : Invoke)
    (hv : h.view self = some inv) :
    (h.call self c).1.view (h.call self c).2 = some (inv.call c) ∧
    ∀ i, i < h.objs.length → (h.call self c).1.view i = h.view i :=
  ⟨IHeap.call_view_new h hw self c inv hv, fun i hi => IHeap.call_view_old h hw self c i hi⟩

theorem c17_invoke_history (h : IHeap) (hw : h.wf) (calls : List (Nat × ICall)) :
    ∀ i, i < h.objs.length → (h.history calls).view i = h.view i :=
  IHeap.history_view calls h hw

/-! ### checker theorems — the form in which the property is evaluated on the implementation -/

theorem c17_model_checks_take (kinds : List Kind) (xs : List V) (tail : Option Err) (fuel k : Nat)
    (h : (runTake kinds (.fin xs tail) fuel k).fin ≠ .oof) :
    let out := runTake kinds (.fin xs tail) fuel k
    checkTake kinds (.fin xs tail) k ⟨out.items, out.fin, out.pulls⟩ = true :=
  checkTake_of_spec kinds xs tail k _ h (runTake_spec _ fuel kinds k h)

theorem c17_model_checks_all (kinds : List Kind) (xs : List V) (tail : Option Err) (fuel : Nat)
    (h : (runAll kinds (.fin xs tail) fuel).fin ≠ .oof) :
    let out := runAll kinds (.fin xs tail) fuel
    checkAll kinds (.fin xs tail) ⟨out.items, out.fin, out.pulls⟩ = true :=
  checkAll_of_spec kinds xs tail _ (runAll_spec _ fuel kinds h)

theorem c17_model_checks_first (kinds : List Kind) (xs : List V) (tail : Option Err) (fuel : Nat) (key : Fn)
    (h : match (runFirst kinds (.fin xs tail) fuel key).1 with | .oof => False | _ => True) :
    let out := runFirst kinds (.fin xs tail) fuel key
    checkFirst kinds (.fin xs tail) key (firstObsOf out.1) out.2 = true :=
  checkFirst_of_spec kinds xs tail key _ _ (runFirst_spec _ fuel kinds key h)

/-- a pipeline started on a used source (a second `glom` call, another value of the same dict
    spec) passes the `take k` check against the composition over the *remaining* items -/
theorem c17_model_checks_take_from (kinds : List Kind) (xs : List V) (tail : Option Err) (fuel k p : Nat)
    (h : (runTakeFrom kinds (.fin xs tail) fuel k p).fin ≠ .oof) :
    let out := runTakeFrom kinds (.fin xs tail) fuel k p
    checkTake kinds (.fin (xs.drop p) tail) k ⟨out.items, out.fin, out.pulls - p⟩ = true := by
  have hd := runTakeFrom_drop kinds (.fin xs tail) fuel k p
  simp only
  rw [hd] at h ⊢
  simp only [RunOut.shift, Nat.add_sub_cancel_left] at h ⊢
  exact c17_model_checks_take kinds (xs.drop p) tail fuel k h

theorem c17_model_checks_all_from (kinds : List Kind) (xs : List V) (tail : Option Err) (fuel p : Nat)
    (h : (runAllFrom kinds (.fin xs tail) fuel p).fin ≠ .oof) :
    let out := runAllFrom kinds (.fin xs tail) fuel p
    checkAll kinds (.fin (xs.drop p) tail) ⟨out.items, out.fin, out.pulls - p⟩ = true := by
  have hd := runAllFrom_drop kinds (.fin xs tail) fuel p
  simp only
  rw [hd] at h ⊢
  simp only [RunOut.shift, Nat.add_sub_cancel_left] at h ⊢
  exact c17_model_checks_all kinds (xs.drop p) tail fuel h

theorem c17_model_checks_first_from (kinds : List Kind) (xs : List V) (tail : Option Err) (fuel : Nat) (key : Fn) (p : Nat)
    (h : match (runFirstFrom kinds (.fin xs tail) fuel key p).1 with | .oof => False | _ => True) :
    let out := runFirstFrom kinds (.fin xs tail) fuel key p
    checkFirst kinds (.fin (xs.drop p) tail) key (firstObsOf out.1) (out.2 - p) = true :=
  checkFirst_from kinds xs tail fuel key p h

/-- **The step checker on the model** — the form in which "several pipelines over one source
    object" is evaluated on the implementation.  Full statement: for every list of steps
    (`take k` on a pipe, resuming its suspended iterator when it has one; `all`; `first`),
    `checkSteps` holds of the observations of `modelSteps`.  Proved here for the step lists in
    which every step starts a fresh iterator (`all` / `first`: every dict spec, every
    sequence of `glom(src, spec.all())` calls), for any number of steps, pipes and any
    position the source is at.  For a resumed `take` the pieces are `c17_resume` (the resumed
    chain runs as on the source without the items others took) and `c17_model_checks_take`;
    their composition over a whole schedule is validated by the correspondence only. -/
theorem c17_model_checks_steps_partial (fuel : Nat) (xs : List V) (tail : Option Err) (pipes : List (List Kind))
    (steps : List Step) (pos : Nat) (live : List (Option (List StageSt))) (mem : List Resumed)
    (hfresh : ∀ st ∈ steps, st.mode.isFresh = true)
    (hfuel : ∀ o ∈ modelSteps fuel (.fin xs tail) pipes steps pos live, o.isOof = false) :
    checkSteps xs tail pipes (steps.take (modelSteps fuel (.fin xs tail) pipes steps pos live).length)
      ((modelSteps fuel (.fin xs tail) pipes steps pos live).map StepOut.obs) pos mem = true :=
  checkSteps_fresh fuel xs tail pipes steps pos live mem hfresh hfuel

/-- **The stream checker on the model** — the form in which stream isolation is evaluated on the
    implementation: for every schedule of `open` / `next` / `all` / `first` events over any
    number of streams, each on the (finite) source that belongs to it, the observations of the
    heap model pass `checkStreams`: after every event, what the stream has yielded so far is
    a `take` of the composition of ITS stages over ITS source alone, and no more of its
    source was pulled than that needs. -/
theorem c17_model_checks_streams (own : Nat → Nat) (hinj : ∀ a b, own a = own b → a = b)
    (srcsFin : List (List V × Option Err)) (fuel : Nat) (sched : List Ev) (hs : ∀ e ∈ sched, e.srcOk own)
    (hfuel : ∀ o ∈ (World.empty.run (srcsOfFin srcsFin) fuel sched).2, o.2.isOof = false) :
    checkStreams srcsFin sched ((World.empty.run (srcsOfFin srcsFin) fuel sched).2.map (fun o => o.2.obs))
      (fun _ => none) = true :=
  checkStreams_model own hinj srcsFin fuel sched World.empty (fun _ => none) World.empty_wf
    (fun _ _ h => by simp [World.empty] at h) hs (streamInv_empty own srcsFin fuel) hfuel

/-- **Builder purity in the checker's form** — the scenario the harness runs, on the heap model:
    a prefix spec `ip` (any well-formed heap, any spec `it`), a first derivation `ip.E1…` that is
    thrown away, a second one `ip.E2…` from the SAME object.  Afterwards (1) the object `ip` is
    still `it`, so a run of it — any source, any `k`, any fuel — is the run before; (2) the derived
    object is `it` with `E2` chained, whose stages are `it`'s followed by `E2`'s (the sentinel is
    kept), i.e. the spec built afresh; so the model's four observations pass `checkReuse`. -/
theorem c17_model_checks_reuse (h : BHeap) (hw : h.wf) (ip : Nat) (it : Iter) (hv : h.view ip = some it)
    (e1 e2 : List Entry) (src : Src) (fuel k : Nat) :
    let h2 := (h.chain true ip e1).1
    let r3 := h2.chain true ip e2
    let obs := fun (x : Iter) => (⟨(runTake x.kinds src fuel k).items, (runTake x.kinds src fuel k).fin,
      (runTake x.kinds src fuel k).pulls⟩ : TakeObs)
    ∃ pAfter d2, r3.1.view ip = some pAfter ∧ r3.1.view r3.2 = some d2 ∧
      pAfter = it ∧ d2.kinds = it.kinds ++ e2.map (·.kind) ∧
      checkReuse true (obs it) (obs pAfter) (obs d2) (obs (e2.foldl (Iter.addOp true) it)) = true := by
  intro h2 r3 obs
  have hip : ip < h.iters.length := by
    simp only [BHeap.view] at hv
    cases hs : h.iters[ip]? with
    | none => simp [hs] at hv
    | some o => exact (List.getElem?_eq_some_iff.mp hs).1
  obtain ⟨hw2, _, hle2, hold2⟩ := BHeap.chain_spec true e1 h ip it hw hv
  have hv2 : h2.view ip = some it := by rw [hold2 ip hip]; exact hv
  obtain ⟨_, hnew3, _, hold3⟩ := BHeap.chain_spec true e2 h2 ip it hw2 hv2
  have hkinds : ∀ (es : List Entry) (x : Iter), (es.foldl (Iter.addOp true) x).kinds = x.kinds ++ es.map (·.kind) := by
    intro es
    induction es with
    | nil => intro x; simp
    | cons e es ih => intro x; simp [ih, c17_chaining_order]
  have hr : ∀ t : TakeObs, (t == t) = true := fun t => by
    show (t.items == t.items && t.fin == t.fin && t.pulls == t.pulls) = true
    simp
  refine ⟨it, e2.foldl (Iter.addOp true) it, ?_, hnew3, rfl, hkinds e2 it, by simp [checkReuse, hr]⟩
  rw [hold3 ip (Nat.lt_of_lt_of_le hip hle2)]; exact hv2

/-! ### non-vacuity: concrete inputs meet every hypothesis; counter-examples without them -/

private def inc : Fn := fun x => match x with | .int i => .ok (.int (i + 1)) | _ => .error "TypeError"
private def odd : Fn := fun x => match x with | .int i => .ok (.int (i % 2)) | _ => .error "TypeError"
private def idBase : BaseFn := fun x => .ok (.val x)
private def nat : Src := .inf (fun n => .int n)

/-- `Iter().map(inc).filter(odd).chunked(2).windowed(2)` -/
private def exKinds : List Kind := [.base idBase none, .map inc, .filter odd, .chunked 2 none, .windowed 2]

example : (exKinds.all Kind.wf) = true := by decide
-- the composition evaluates (hypothesis of `c17_semantics`) and is not trivial
example : (match composeE exKinds [.int 0, .int 1, .int 2, .int 3, .int 4, .int 5, .int 6, .int 7, .int 8] with
    | .ok ys => ys == [.tup [.list [.int 1, .int 3], .list [.int 5, .int 7]], .tup [.list [.int 5, .int 7], .list [.int 9]]]
    | .error _ => false) = true := by decide
-- the model agrees, with little fuel
example : ((runAll exKinds (.fin [.int 0, .int 1, .int 2, .int 3, .int 4, .int 5, .int 6, .int 7, .int 8] none) 40).items
    == [.tup [.list [.int 1, .int 3], .list [.int 5, .int 7]], .tup [.list [.int 5, .int 7], .list [.int 9]]]) = true := by decide
-- infinite source (hypotheses of `c17_infinite_sources` with N = 7, k = 1): seven items suffice
example : ((det exKinds nat 7).answers 1 && (det [.base idBase none, .map inc, .filter odd, .chunked 2 none] nat 7).answers 1) = true := by
  decide
example : ((runTake exKinds nat 40 1).pulls == 7 && (runTake exKinds nat 40 1).items.length == 1) = true := by decide
-- six items do not suffice: the seventh pull is needed (`c17_lazy` is tight here)
example : (det exKinds nat 6).answers 1 = false := by decide
-- `all()` on an infinite source without a stopping stage does not terminate within the fuel: oof
example : ((runAll [.base idBase none, .map inc] nat 30).fin == .oof) = true := by decide
-- … and with `limit(3)` it does (`c17_all_terminates_iff_finite`, N = 3)
example : ((det [.base idBase none, .map inc, .slice 0 (some 3) 1] nat 3).term.isMore) = false := by decide
-- hypothesis `wf` is needed: `chunked(0)` (rejected by boltons with ValueError) — the model's
-- transducer and the list function disagree outside the domain
example : ((runAll [.base idBase none, .chunked 0 none] (.fin [.int 1] none) 20).items == [V.list [.int 1]]) = true ∧
    (match composeE [.base idBase none, .chunked 0 none] [.int 1] with | .ok ys => ys == [V.list []] | _ => false) = true := by
  decide
-- `c17_source_remainder` / `c17_second_pipeline`: sentinel-separated groups read from ONE stream
-- `1 2 ∅ 3 4 ∅ 5` by three runs of `Iter(sentinel=None).all()`: each run starts where the
-- previous one stopped (positions 3, 6, 7) and yields the next group
private def groupKinds : List Kind := [.base idBase (some .none)]
private def stream : Src := .fin [.int 1, .int 2, .none, .int 3, .int 4, .none, .int 5] none
example : ((runAllFrom groupKinds stream 40 0).items == [V.int 1, .int 2] && (runAllFrom groupKinds stream 40 0).pulls == 3 &&
    (runAllFrom groupKinds stream 40 3).items == [V.int 3, .int 4] && (runAllFrom groupKinds stream 40 3).pulls == 6 &&
    (runAllFrom groupKinds stream 40 6).items == [V.int 5] && (runAllFrom groupKinds stream 40 6).pulls == 7) = true := by decide
-- after the first group `next()` goes on with `3`; the source was not closed
example : ((stream.after 3 2).rest == [V.int 3, .int 4] && !(stream.after 3 2).closed) = true := by decide
-- an observation in which the rest of the stream is gone after the first stop (what closing the
-- source does) fails the source check; so does one that reports `close()`
example : checkSource stream 3 2 ⟨[], true, false⟩ = false ∧ checkSource stream 3 2 ⟨[.int 3, .int 4], false, true⟩ = false ∧
    checkSource stream 3 2 ⟨[.int 3, .int 4], false, false⟩ = true := by decide
-- the step checker on the three groups, and on the observation `[[1,2],[],[]]`
private def allStep : Step := ⟨0, .all⟩
example : checkSteps [.int 1, .int 2, .none, .int 3, .int 4, .none, .int 5] none [groupKinds] [allStep, allStep, allStep]
    [.run ⟨[.int 1, .int 2], .exhausted, 3⟩, .run ⟨[.int 3, .int 4], .exhausted, 6⟩, .run ⟨[.int 5], .exhausted, 7⟩]
    0 [{}] = true := by decide
example : checkSteps [.int 1, .int 2, .none, .int 3, .int 4, .none, .int 5] none [groupKinds] [allStep, allStep, allStep]
    [.run ⟨[.int 1, .int 2], .exhausted, 3⟩, .run ⟨[], .exhausted, 3⟩, .run ⟨[], .exhausted, 3⟩]
    0 [{}] = false := by decide
-- hypotheses of `c17_model_checks_steps_partial`: three fresh `all` steps, enough fuel
example : ((modelSteps 40 stream [groupKinds] [allStep, allStep, allStep] 0 [none]).all (fun o => !o.isOof) &&
    (modelSteps 40 stream [groupKinds] [allStep, allStep, allStep] 0 [none]).length == 3) = true := by decide
-- `c17_resume`: hypotheses met by a two-stage chain suspended at position 1 while somebody else
-- takes the items at [1, 3)
example : (match (Src.inf (fun n => V.int n)) with | .fin xs _ => 1 ≤ xs.length | .inf _ => True) := trivial
-- a callable separator: `split(sep=odd)` on `2 1 4 6 3` gives `[2] [4 6] []`
example : (match composeE [.base idBase none, .split (.fn odd) none] [.int 2, .int 1, .int 4, .int 6, .int 3] with
    | .ok ys => ys == [.list [.int 2], .list [.int 4, .int 6], .list []]
    | .error _ => false) = true := by decide
-- `c17_lazy_closed_form` on `Iter().map(inc).chunked(2).windowed(3)`: `k` windows need `2 * (k + 2)` source items
private def lazyKinds : List Kind := [.base idBase none, .map inc, .chunked 2 none, .windowed 3]
private def lazyBounds : List (Nat → Nat) := [id, id, (· * 2), fun n => if n = 0 then 0 else n + 3 - 1]
example : StageBounds lazyKinds lazyBounds :=
  .cons (stageBound_base idBase none (fun x => by simp [idBase])) (.cons (stageBound_map inc)
    (.cons (stageBound_chunked 2 none (by omega)) (.cons (stageBound_windowed 3 (by omega)) .nil)))
example : pipeBound lazyBounds 1 = 6 ∧ pipeBound lazyBounds 4 = 12 ∧ pipeBound (lazyBounds.take 3) 2 = 4 := by decide
-- … and the bound is met: exactly 6 and 12 items of an infinite source are pulled (4 of them while `glomit` runs)
example : ((runTake lazyKinds nat 60 1).pulls == 6 && (runTake lazyKinds nat 60 4).pulls == 12 &&
    (runTake lazyKinds nat 60 0).pulls == 4) = true := by decide
-- without `NoSkip` there is no bound: `Iter(lambda x: SKIP if x < 9 else x)` pulls ten items for one output
example : ((runTake [.base (fun x => match x with | .int i => if i < 9 then .ok .skip else .ok (.val x) | _ => .ok (.val x)) none]
    nat 60 1).pulls == 10) = true := by decide
-- `c17_sentinel_is_identity` in a run: `Iter(sentinel=1)` over `0, 1.0, True, <equal to everything>, 1, 5` yields the
-- first four items and stops at the `1`; a design that compared with `==` would have yielded `0` only
example : ((runAll [.base idBase (some (.int 1))]
    (.fin [.int 0, .flt 1, .bool true, .ref 9 (.obj 1), .int 1, .int 5] none) 30).items
    == [.int 0, .flt 1, .bool true, .ref 9 (.obj 1)]) = true := by decide
-- the boltons generators, run: `chunked_iter(it, 2, fill=0)` on five items, `windowed_iter(it, 3)` (two items are
-- pulled by the call itself, one per window afterwards — also on an infinite source), `split_iter(it, sep=0, maxsplit=1)`
private def five : List V := [.int 1, .int 2, .int 3, .int 4, .int 5]
open Glom.C17.Boltons in
example : (match collect (chunkedNext (.fin five none) 2 (some (.int 0))) 9 ⟨0, false⟩ [] with
    | (ys, .eof) => ys == [.list [.int 1, .int 2], .list [.int 3, .int 4], .list [.int 5, .int 0]]
    | _ => false) = true := by decide
open Glom.C17.Boltons in
example : (match windowedInit (.fin five none) 0 3 with
    | .ok g => g.pos == 2 && (match collect (windowedNext (.fin five none)) 9 g [] with
      | (ys, .eof) => ys == [.tup [.int 1, .int 2, .int 3], .tup [.int 2, .int 3, .int 4], .tup [.int 3, .int 4, .int 5]]
      | _ => false)
    | .error _ => false) = true := by decide
open Glom.C17.Boltons in
example : (match windowedInit nat 0 3 with
    | .ok g => g.pos == 2 && (windowedNext nat g).2.pos == 3
    | .error _ => false) = true := by decide
open Glom.C17.Boltons in
example : (match collect (splitNext (.fin [.int 1, .int 0, .int 2, .int 0, .int 3] none) (.scalar (.int 0)) (some 1) 20) 9
      ⟨0, [], 0, false⟩ [] with
    | (ys, .eof) => ys == [.list [.int 1], .list [.int 2, .int 0, .int 3]]
    | _ => false) = true := by decide
-- hypothesis `1 ≤ size` of `c17_boltons_chunked` is forced: `islice(it, 0)` is always empty, `chunked_iter(it, 0)`
-- as written ends at once (boltons rejects size 0 before) while the transducer would yield `[x]` chunks
open Glom.C17.Boltons in
example : (match collect (chunkedNext (.fin five none) 0 none) 9 ⟨0, false⟩ [] with | (ys, .eof) => ys.isEmpty | _ => false) = true ∧
    ((stageTr (.chunked 0 none) ⟨five, .eof⟩).items.length == 5) = true := by decide
-- `c17_stream_isolation` / `c17_model_checks_streams`: two streams of ONE spec `Iter().unique()`, pulled alternately
private def uniqKinds : List Kind := [.base idBase none, .unique (fun x => .ok x)]
private def srcA : List V := [.int 1, .int 1, .int 2, .int 1, .int 3]
private def srcB : List V := [.int 5, .int 5, .int 1, .int 6]
private def zipSched : List Ev :=
  [.open 0 uniqKinds 0, .open 1 uniqKinds 1, .next 0, .next 1, .next 0, .next 1, .next 1, .next 1]
private def outInt : EvOut → Option Int
  | .item (.int i) _ => some i
  | _ => none
-- the hypotheses are met: every event on the source that belongs to its stream (`own = id`), enough fuel
example : ∀ e ∈ zipSched, e.srcOk id := by
  intro e he
  simp only [zipSched, List.mem_cons, List.not_mem_nil, or_false] at he
  rcases he with rfl | rfl | rfl | rfl | rfl | rfl | rfl | rfl <;> simp [Ev.srcOk]
example : ((World.empty.run [.fin srcA none, .fin srcB none] 30 zipSched).2.all (fun o => !o.2.isOof)) = true := by decide
-- stream 1 yields 5, 1, 6 and then ends — what `Iter().unique()` yields on `5 5 1 6` alone
example : ((World.empty.run [.fin srcA none, .fin srcB none] 30 zipSched).2.filter (·.1 == 1)).map (outInt ·.2)
    = [none, some 5, some 1, some 6, none] := by decide
/-- **Why the state must be the stream's, not the spec's** (counter-example without ownership).
    The other design — one set of stage cells per *spec*, re-initialised whenever a stream starts
    ("the spec keeps a single set of seen keys which is emptied whenever a new stream starts") —
    is indistinguishable as long as streams run one after the other, and wrong as soon as two are
    alive: on the schedule above the second stream of `Iter().unique()` loses its `1`, because the
    first stream has seen a `1`. -/
theorem c17_shared_state_counterexample :
    let srcs : List Src := [.fin srcA none, .fin srcB none]
    let w0 : World := ⟨[default, default], fun _ => 0, fun _ => none⟩
    let w1 := (w0.openShared srcs 30 0 uniqKinds 0 [0, 1]).1
    let w2 := (w1.openShared srcs 30 1 uniqKinds 1 [0, 1]).1
    let sched : List Ev := [.next 0, .next 1, .next 0, .next 1, .next 1, .next 1]
    -- state per spec: stream 1 yields 5, 6
    ((w2.run srcs 30 sched).2.filter (·.1 == 1)).map (outInt ·.2) = [some 5, some 6, none, none] ∧
    -- state per stream (the model of the code): 5, 1, 6 — its solo run
    ((World.empty.run srcs 30 zipSched).2.filter (·.1 == 1)).map (outInt ·.2) = [none, some 5, some 1, some 6, none] ∧
    -- one stream at a time the two designs agree
    ((w1.run srcs 30 [.next 0, .next 0, .next 0, .next 0]).2.map (outInt ·.2)) = [some 1, some 2, some 3, none] := by
  decide
-- a heap with a re-used prefix spec (hypotheses of `c17_builder_pure` / `c17_model_checks_reuse`): `Iter(sentinel=0)` at
-- address 0, well-formed, and the view of object 0 exists
private def heap1 : BHeap := ((BHeap.mk [] []).newIter idBase (some (.int 0))).1
example : heap1.wf := BHeap.newIter_wf _ (by intro i o h; simp at h) _ _
example : (match heap1.view 0 with | some it => it.stack.isEmpty && it.kinds.length == 1 | none => false) = true := by decide
-- … after `p.map(inc)` and `p.chunked(2)` from the same object, object 0 is what it was and object 2 has two stages
example : (match ((heap1.chain true 0 [⟨"map", .map inc⟩]).1.chain true 0 [⟨"chunked", .chunked 2 none⟩]) with
    | (h, i) => i == 2 && (match h.view 0, h.view 2 with
      | some p, some d => p.stack.isEmpty && d.kinds.length == 2
      | _, _ => false)) = true := by decide
-- `c17_invoke_pure`: an Invoke heap with one instance (`Invoke(f)`), well-formed, viewed
private def iheap1 : IHeap := ⟨[[]], [([], 0)]⟩
example : iheap1.wf := by
  intro i o h
  cases i with
  | zero => simp [iheap1] at h; subst h; simp [iheap1]
  | succ i => simp [iheap1] at h
example : (match iheap1.view 0 with | some inv => inv.args.isEmpty | none => false) = true := by decide
-- `c17_first_terminates`: `href` holds for `first(odd)` over the naturals at N = 2 (item `1` is found), and `hpa` trivially
example : (match firstRef odd (det [.base idBase none] nat 2).items (det [.base idBase none] nat 2).term 0 with
    | .found (.int 1) 2 => true | _ => false) = true := by decide
-- `c17_stream_isolation_general`: two worlds in which stream 1 is the same thing — the world after `open 0, open 1` and
-- the world after `open 1` alone: same view of stream 1, same position of its source
example : (match ((World.empty.run [.fin srcA none, .fin srcB none] 30 [.open 0 uniqKinds 0, .open 1 uniqKinds 1]).1.view 1),
      ((World.empty.run [.fin srcA none, .fin srcB none] 30 [.open 1 uniqKinds 1]).1.view 1) with
    | some (s1, p1, d1, i1), some (s2, p2, d2, i2) => s1.length == s2.length && p1 == p2 && d1 == d2 && i1 == i2
    | _, _ => false) = true := by decide
-- `c17_after_exception` in a run: `Iter().map(bad3)` over `1 2 3 4 5`, pulled six times: `1 2 <ValueError> 4 5 <end>`, all five
-- items pulled; with `Iter(bad3)` (the generator `_iterate`) the stream ends after the exception and `4 5` stay in the source
private def bad3 : Fn := fun x => match x with | .int 3 => .error "ValueError" | _ => .ok x
private def oneToFive : Src := .fin [.int 1, .int 2, .int 3, .int 4, .int 5] none
example : (match runEvents [.base idBase none, .map bad3] oneToFive 30 6 with
    | .opened [(some (.item (.int 1)), 1), (some (.item (.int 2)), 2), (some (.err "ValueError"), 3),
               (some (.item (.int 4)), 4), (some (.item (.int 5)), 5), (none, 5)] => true
    | _ => false) = true := by decide
example : (match runEvents [.base (BaseFn.ofFn bad3) none] oneToFive 30 6 with
    | .opened [(some (.item (.int 1)), 1), (some (.item (.int 2)), 2), (some (.err "ValueError"), 3), (none, 3)] => true
    | _ => false) = true := by decide
-- the reference says the same, and rejects a stream that ends where `map` goes on
example : checkEvents [.base idBase none, .map bad3] [.int 1, .int 2, .int 3, .int 4] none
    [some (.item (.int 1)), some (.item (.int 2)), some (.err "ValueError"), some (.item (.int 4)), none] = true ∧
    checkEvents [.base idBase none, .map bad3] [.int 1, .int 2, .int 3, .int 4] none
    [some (.item (.int 1)), some (.item (.int 2)), some (.err "ValueError"), none] = false := by decide
-- `c17_model_checks_take_glomit`: `Iter().windowed(2).limit(-1)`: glom() raises ValueError after ONE item was pulled
-- (the window's priming), `Iter().limit(-1).windowed(2)`: after none; `chunked(0)` raises at the first next(), nothing pulled
example : (match runTakeG [.base idBase none, .windowed 2, limitMethod (.int (-1))] nat 30 3 with
    | ⟨[], .raised "ValueError", 1⟩ => true | _ => false) = true := by decide
example : (match runTakeG [.base idBase none, limitMethod (.int (-1)), .windowed 2] nat 30 3 with
    | ⟨[], .raised "ValueError", 0⟩ => true | _ => false) = true := by decide
example : (match runTakeG [.base idBase none, chunkedMethod (.int 0) none] nat 30 3 with
    | ⟨[], .raised "ValueError", 0⟩ => true | _ => false) = true := by decide
-- `split(sep, 0)`: one item, a list holding the upstream iterator; nothing pulled
example : (match runTakeG [.base idBase none, splitMethod .none (.int 0)] nat 30 3 with
    | ⟨[.list [.gen]], .exhausted, 0⟩ => true | _ => false) = true := by decide
-- `c17_checker_accepts_only_the_composition`: the hypothesis is met by `exKinds` on nine items, and an observation with
-- a wrong item is rejected by `checkTake`
example : checkTake exKinds (.fin [.int 0, .int 1, .int 2, .int 3, .int 4, .int 5, .int 6, .int 7, .int 8] none) 1
    ⟨[.tup [.list [.int 1, .int 3], .list [.int 5, .int 9]]], .gotK, 7⟩ = false := by decide
-- `c17_skip_stop_only_in_subspec`: `Iter().map(skip2)` on `1 2 3` yields `1 SKIP 3`; `Iter(skip2)` yields `1 3`
private def skip2 : Fn := fun x => match x with | .int 2 => .ok (.sent false) | _ => .ok x
example : ((runAll [.base idBase none, .map skip2] (.fin [.int 1, .int 2, .int 3] none) 30).items
    == [.int 1, .sent false, .int 3]) = true ∧
    ((runAll [.base (BaseFn.ofFn skip2) none] (.fin [.int 1, .int 2, .int 3] none) 30).items == [.int 1, .int 3]) = true := by
  decide

end Glom.Props.C17
