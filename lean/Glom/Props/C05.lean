import Glom.Spec.C05
/-
  C05 — Error messages carry a faithful target-spec trace down to the failing spec.  (partial)

  This file: local property theorems about the bookkeeping algorithm (`_glom`'s exception
  handler, `chain_child`, `_unpack_stack`, `_format_trace_value`), for every frame store, every
  event and every width.

  The structural theorems about *whole evaluations* are in Glom/Props/C05Spine.lean: for every
  well-formed evaluation tree (domain membership of every recorded real evaluation is checked by
  the driver) the frame store after `replay` is given in closed form (`c05_frames`, including the
  NO_PYFRAME walk), the rows of `_unpack_stack` from any frame are `rowsAt` (`c05_unpack_rows`),
  and the rows from the root call (and from every branch that is shown last where the linear
  descent stops) follow the path of the root error: first row = root call, the reference spine
  (`spine (callsOf evs) e`) occurs among the rows in evaluation order, the extra rows are completed
  earlier chain steps, exactly one row shows the root error and it is the innermost call of the
  listed path, the branches of a row are its frame's CHILD_ERRORS (`c05_spine`, `c05_spine_from`,
  `c05_first_row`, `c05_branches`); the last row is a call that raised and shows its own error
  (`c05_last_row`; before glom commit effa985 the loop went on into a last child that had returned
  normally: `c05_last_row_counterexample` about `unpackLoopOld`).

  The property on the MESSAGE (`str()` of the error that left `glom()`; `checkMessageC05`): the
  header `GlomError.__str__` writes is preamble (`c05_header_is_preamble`), a message without a
  `Target:` line fails (`c05_message_needs_target_line`: the message of a wrapped KeyError / OSError /
  user exception with its own `__str__` before glom commit 949a58d).

  *Partial*: the lift from rows to the rendered text (that `formatTrace`'s output satisfies the
  four clauses of `checkC05`) is not proved; it is validated on every run by evaluating
  `checkC05` on the model's and on the implementation's text (thousands of recorded evaluations,
  the model reproducing the real text character for character).  `repr` of arbitrary objects and
  the Python traceback lines after the trace are Python's.
-/
set_option linter.unusedSimpArgs false
namespace Glom.Props.C05
open Glom.C05

/-! ### the trace follows the branch that really raised -/

/-- consecutive rows descend through LAST_CHILD_SCOPE pointers -/
def FollowsLastChild (fs : Array Frame) : List Row → Prop
  | a :: b :: rest => (fs[a.frame]?.bind (·.lastChild)) = some b.frame ∧ FollowsLastChild fs (b :: rest)
  | _ => True

theorem followsLastChild_append (fs : Array Frame) (acc : List Row) (r : Row)
    (hacc : FollowsLastChild fs acc)
    (hlink : ∀ a, acc.getLast? = some a → (fs[a.frame]?.bind (·.lastChild)) = some r.frame) :
    FollowsLastChild fs (acc ++ [r]) := by
  induction acc with
  | nil => simp [FollowsLastChild]
  | cons a rest ih =>
    cases rest with
    | nil =>
      simp only [List.cons_append, List.nil_append, FollowsLastChild, and_true]
      exact hlink a (by simp)
    | cons b rest' =>
      simp only [List.cons_append, FollowsLastChild] at hacc ⊢
      refine ⟨hacc.1, ?_⟩
      apply ih hacc.2
      intro x hx
      apply hlink x
      simpa using hx

/-- **`_unpack_stack` descends through the most recently evaluated child at every level**: each
    row's frame is the LAST_CHILD_SCOPE of the previous row's frame. -/
theorem c05_follows_last_child (fs : Array Frame) :
    ∀ (fuel cur : Nat) (acc : List Row), FollowsLastChild fs acc →
      (∀ a, acc.getLast? = some a → (fs[a.frame]?.bind (·.lastChild)) = some cur) →
      FollowsLastChild fs (unpackLoop fs fuel cur acc) := by
  intro fuel
  induction fuel with
  | zero => intro cur acc hacc _; simpa [unpackLoop] using hacc
  | succ fuel ih =>
    intro cur acc hacc hlink
    simp only [unpackLoop]
    cases hf : fs[cur]? with
    | none => simpa using hacc
    | some f =>
      simp only
      cases hlc : f.lastChild with
      | none => exact followsLastChild_append fs acc _ hacc hlink
      | some child =>
        simp only
        generalize (if f.childErrors == [child] then [] else f.childErrors) = branches
        have happ := followsLastChild_append fs acc ⟨cur, f.curError, branches⟩ hacc hlink
        split
        · exact happ
        · split
          · exact happ
          · apply ih child _ happ
            intro a ha
            simp at ha
            subst ha
            simp [hf, hlc]

/-- **Entering a call makes it the LAST_CHILD_SCOPE of the scope it was called with** (so the
    pointer always designates the most recently started sub-evaluation: the one that raised, since
    evaluation stops at the first exception that is not caught). -/
theorem c05_enter_sets_last_child (s : RState) (parent : Nat) (flagged : Bool) (spec target : Str)
    (tid : Nat) (tlen slen : Option Nat) (hp : parent < s.frames.size) :
    let s' := step s (.enter parent flagged spec target tid tlen slen)
    (s'.frames[parent]?.bind (·.lastChild)) = some s.frames.size ∧ s'.frames.size = s.frames.size + 1 ∧
    s'.stack = s.frames.size :: s.stack := by
  simp only [step]
  have hsz : ∀ (fs : Array Frame) (i : Nat) (g : Frame → Frame), (modFrame fs i g).size = fs.size := by
    intro fs i g; unfold modFrame; split <;> simp
  refine ⟨?_, ?_, ?_⟩
  · cases flagged <;> simp [modFrame, hp, hsz, Array.getElem?_push, Nat.lt_succ_of_lt hp, Array.getElem?_set]
  · cases flagged <;> simp [hsz]
  · cases flagged <;> simp [hsz]

/-- **A chained step forgives the earlier branches of the frame it continues from**:
    `chain_child` marks the frame NO_PYFRAME and empties its CHILD_ERRORS. -/
theorem c05_chain_forgives (s : RState) (parent : Nat) (spec target : Str) (tid : Nat) (tlen slen : Option Nat)
    (hp : parent < s.frames.size) :
    let s' := step s (.enter parent true spec target tid tlen slen)
    (s'.frames[parent]?.map (·.childErrors)) = some [] ∧ (s'.frames[parent]?.map (·.noPy)) = some true := by
  simp only [step]
  have hsz : ∀ (fs : Array Frame) (i : Nat) (g : Frame → Frame), (modFrame fs i g).size = fs.size := by
    intro fs i g; unfold modFrame; split <;> simp
  constructor <;>
    simp [modFrame, hp, hsz, Array.getElem?_push, Nat.lt_succ_of_lt hp, Array.getElem?_set,
      Array.getElem_push, Array.getElem_set]

/-! ### `_unpack_stack`'s list surgery -/

/-- "push errors down" keeps every row and the last row's error: an error is shown where it was
    first raised. -/
theorem c05_pushdown (rows : List Row) :
    (pushDown rows).length = rows.length ∧ (pushDown rows).getLast?.map (·.error) = rows.getLast?.map (·.error) ∧
    (pushDown rows).map (·.frame) = rows.map (·.frame) := by
  induction rows with
  | nil => simp [pushDown]
  | cons a rest ih =>
    cases rest with
    | nil => simp [pushDown]
    | cons b rest' =>
      simp only [pushDown]
      obtain ⟨h1, h2, h3⟩ := ih
      refine ⟨by simp [h1], ?_, ?_⟩
      · have hne : pushDown (b :: rest') ≠ [] := by
          intro h; rw [h] at h1; simp at h1
        rw [List.getLast?_cons_of_ne_nil hne, h2]
        simp
      · simp only [List.map_cons]
        rw [h3]
        split <;> rfl

/-- trimming keeps a non-empty prefix: the trace always has at least the root row. -/
theorem c05_trim_prefix (rows : List Row) (hne : rows ≠ []) :
    trimTail rows ≠ [] ∧ ∃ dropped, rows = trimTail rows ++ dropped := by
  unfold trimTail
  have key : ∀ (l : List Row), l ≠ [] → dropNoneKeepOne l ≠ [] ∧ ∃ pre, l = pre ++ dropNoneKeepOne l := by
    intro l
    induction l with
    | nil => intro h; exact absurd rfl h
    | cons x r ih =>
      intro _
      cases r with
      | nil => exact ⟨by simp [dropNoneKeepOne], [], by simp [dropNoneKeepOne]⟩
      | cons y r' =>
        simp only [dropNoneKeepOne]
        split
        · obtain ⟨h1, pre, h2⟩ := ih (by simp)
          exact ⟨h1, x :: pre, by rw [List.cons_append, ← h2]⟩
        · exact ⟨by simp, [], by simp⟩
  obtain ⟨h1, pre, h2⟩ := key rows.reverse (by simpa using hne)
  refine ⟨by simpa using h1, pre.reverse, ?_⟩
  have := congrArg List.reverse h2
  simpa using this

/-! ### `_format_trace_value` -/

theorem pySliceTo_prefix (s : Str) (k : Int) : ∃ rest, s = pySliceTo s k ++ rest := by
  unfold pySliceTo
  split
  · exact ⟨s.drop k.toNat, (List.take_append_drop _ _).symm⟩
  · exact ⟨s.drop (s.length - (-k).toNat), (List.take_append_drop _ _).symm⟩

/-- **Truncation is prefix preserving and fits the width**: a value that fits is shown in full;
    otherwise a prefix of it is shown followed by the `...` / `... (len=n)` suffix, and when the
    available width can hold the suffix the result is exactly that wide. -/
theorem c05_truncate (s : Str) (vlen : Option Nat) (maxlen : Int) :
    ((s.length : Int) ≤ maxlen → formatValue s vlen maxlen = s) ∧
    ((s.length : Int) > maxlen →
      ∃ (pre suffix rest : Str), formatValue s vlen maxlen = pre ++ suffix ∧ s = pre ++ rest ∧
        (suffix = "...".toList ∨ ∃ n, vlen = some n ∧ suffix = "... (len=".toList ++ natStr n ++ ")".toList) ∧
        ((suffix.length : Int) ≤ maxlen → ((pre ++ suffix).length : Int) = maxlen)) := by
  constructor
  · intro h
    unfold formatValue
    rw [if_neg (by omega)]
  · intro h
    unfold formatValue
    rw [if_pos h]
    cases vlen with
    | none =>
      simp only
      obtain ⟨rest, hrest⟩ := pySliceTo_prefix s (maxlen - ("...".toList.length : Nat))
      refine ⟨_, _, rest, rfl, hrest, Or.inl rfl, ?_⟩
      intro hs
      unfold pySliceTo
      rw [if_pos (by omega)]
      simp only [List.length_append, List.length_take]
      omega
    | some n =>
      simp only
      generalize hsuf : ("... (len=".toList ++ natStr n ++ ")".toList) = suf
      obtain ⟨rest, hrest⟩ := pySliceTo_prefix s (maxlen - (suf.length : Nat))
      refine ⟨_, _, rest, rfl, hrest, ?_, ?_⟩
      · exact Or.inr ⟨n, rfl, hsuf.symm⟩
      · intro hs
        unfold pySliceTo
        rw [if_pos (by omega)]
        simp only [List.length_append, List.length_take]
        omega

/-! ### non-vacuity: a concrete recorded evaluation (tuple step → Coalesce with two failing branches) -/

private def exEvents : List Ev :=
  [ .enter 0 false "('a', Coalesce('x', 'y'))".toList "{'a': 1}".toList 1 (some 1) (some 2),
    .enter 1 false "'a'".toList "{'a': 1}".toList 1 (some 1) (some 1), .exitOk,
    .enter 2 true "Coalesce('x', 'y')".toList "1".toList 2 none none,
    .enter 3 false "'x'".toList "1".toList 2 none (some 1), .exitErr 1,
    .enter 3 false "'y'".toList "1".toList 2 none (some 1), .exitErr 2,
    .exitErr 3, .exitErr 3 ]

example : (unpack (replay exEvents) 1).map (·.frame) = [1, 2, 3] := by decide
example : ((replay exEvents)[3]?.map (·.childErrors)) = some [4, 5] := by decide
example : (unpack (replay exEvents) 3).map (·.branches) = [[4, 5]] := by decide

/-! ### the property on the message (`str()` of the error that left `glom()`) -/

/-- a line without a newline, followed by a newline, is a line of its own -/
theorem splitLines_line (l rest : Str) (hl : l.all (fun c => c != '\n') = true) :
    splitLines (l ++ '\n' :: rest) = l :: splitLines rest := by
  induction l with
  | nil => simp [splitLines]
  | cons c cs ih =>
    simp only [List.all_cons, Bool.and_eq_true, bne_iff_ne, ne_eq] at hl
    simp only [List.cons_append, splitLines]
    rw [if_neg (by simpa using hl.1), ih (by simpa using hl.2)]

/-- **the header `GlomError.__str__` puts before the trace is preamble**: its two lines carry no
    `Target:` label, so the trace read from a message starts in what follows the header. -/
theorem c05_header_is_preamble (body : Str) :
    msgTraceLines (msgHeader ++ body) = msgTraceLines body := by
  have h1 : msgHeader ++ body =
      "error raised while processing, details below.".toList ++ '\n' ::
        (" Target-spec trace (most recent last):".toList ++ '\n' :: body) := by
    have h0 : msgHeader = "error raised while processing, details below.".toList ++ '\n' ::
        (" Target-spec trace (most recent last):".toList ++ ['\n']) := by decide +kernel
    rw [h0]
    simp only [List.append_assoc, List.cons_append, List.nil_append]
  unfold msgTraceLines
  rw [h1, splitLines_line "error raised while processing, details below.".toList _ (by decide +kernel),
    splitLines_line " Target-spec trace (most recent last):".toList _ (by decide +kernel)]
  have a1 : (afterLabel "Target".toList "error raised while processing, details below.".toList).isNone = true := by
    decide +kernel
  have a2 : (afterLabel "Target".toList " Target-spec trace (most recent last):".toList).isNone = true := by
    decide +kernel
  simp only [List.dropWhile_cons, a1, a2, if_true]

/-- **a message without a `Target:` line does not satisfy the property**, whatever was evaluated
    (before glom commit 949a58d the `str()` of a wrapped KeyError / OSError / user exception with its
    own `__str__` was that class's text only). -/
theorem c05_message_needs_target_line (evs : List Ev) (errText : Nat → Str) (e : Nat) (message : String)
    (h : msgTraceLines (dropRootError errText e message.toList) = []) :
    checkMessageC05 evs errText e message = false := by
  have hc : checkC05 evs errText e (msgTrace errText e message) = false := by
    unfold checkC05 clausesC05
    simp only [msgTrace, h, joinNl]
    have hl : splitLines (String.ofList ([] : Str)).toList = [[]] := by simp [splitLines]
    simp only [hl]
    split <;> simp [clause1, afterLabel, isPrefix]
  simp [checkMessageC05, hc]

/-- the message of `glom({'a': 1}, ('a', f))`, `f` raising `KeyError('k')`, before that repair -/
example (evs : List Ev) :
    checkMessageC05 evs (fun _ => "KeyError: 'k'".toList) 1 "'k'" = false :=
  c05_message_needs_target_line evs _ 1 _ (by decide +kernel)

end Glom.Props.C05
