import Glom.Lemmas.C20
import Glom.Lemmas.C20Arg
import Glom.Lemmas.C20Err
import Glom.Lemmas.C20Trace
import Glom.Lemmas.C20Scope
import Glom.Model.C20Env
/-
  C20 — Concurrent and re-entrant glom calls behave exactly as when run alone.

  Property theorems only; helper lemmas are in `Glom/Lemmas/C20.lean`.

  PARTIAL: the theorems are about the interleaving model in `Glom/Model/C20.lean`.
  They hold for every number of threads, every evaluation (any sequence of path
  parses, handler lookups, user callables and nested calls) and every schedule
  of micro-steps.  Two things are assumed and cannot be exhibited by a theorem:
  that a single dict lookup / store of CPython is atomic under the GIL, and that
  `sys.exc_info()` and the Python call stack are per thread.  That the state
  modelled as shared is *all* the state calls share, and that the scope dicts are
  built per call, are facts re-extracted from /repo on every run (`c20_facts_wf`).
-/
namespace Glom.Props.C20
open Glom.C20

/-- **Facts obligation**: `Path.from_text` accesses the cache exactly as the model's
    micro-steps do (membership test, overflow test with early return, store, final
    lookup) and `_MAX_CACHE ≥ 1`; `get_handler` likewise (an unregistered type raises before
    anything is stored); the *only* writes to module- or class-level state inside any
    function of glom's core, matching, mutation, grouping, reduction and streaming modules
    are `Path._CACHE` and `Path._STAR_WARNED`, and no function has a mutable default argument
    (an object shared by all calls); among the objects calls share — module-level singletons and
    spec objects (classes with `glomit`) — only the registry's methods write `self`; `arg_val`
    builds its `_ArgValuator` per call, and `_ArgValuator.mode` (abstractly executed for each container
    type) returns a container built in this call or its cache entry for the argument, never the
    argument itself, and caches only containers built in this call; `bbrepr`'s recursion guard is
    reprlib's (per thread);
    `glom()` derives the scope of a call from
    `_DEFAULT_SCOPE.new_child` with a dict literal whose containers are fresh (`[]`,
    `ScopeVars({}, {})`), `_glom` gives every evaluation step a fresh child dict with a
    fresh `CHILD_ERRORS` list; the registry methods on the evaluation path write only
    `_type_cache`; `_BBRepr.repr1` keys its guard on the shared instance by `(id(x), get_ident())`;
    and re-entry with a scope handed in (`resetsCover`): AFTER merging that scope, `Spec.glom` and
    `glom()` both drop or rebind every bookkeeping key the exception handler of `_glom` writes or
    tests (`CHILD_ERRORS`, `CUR_ERROR`, `NO_PYFRAME`) and the parent link `LAST_CHILD_SCOPE`,
    `CHILD_ERRORS` to a fresh list, and rebind the in-place-extended `Path` list to a copy. -/
theorem c20_facts_wf : genFacts.WF = true := by decide

/-- **Cache invariant under every schedule (`c20_cache_inv`).**  Any number of evaluations,
    any schedule of micro-steps — the membership test, the store and the final lookup of
    `Path.from_text` / `get_handler` being separate steps between which other threads run —
    and after every step (every prefix of the schedule) each cached path equals a fresh parse
    of its text and each cached handler a fresh lookup. -/
theorem c20_cache_inv (max : Nat) (reg : Reg) (evs : List Ev) (sh0 : Sh) (h0 : Inv reg sh0)
    (sched : List Nat) (n : Nat) :
    Inv reg ((Sys.mk sh0 (evs.map (compile max reg))).run (sched.take n)).sh :=
  (sysOK_run (sched.take n) _ (sysOK_init max reg evs sh0 h0)).1.1

/-- … and entries are never lost or changed: what a thread saw in a cache stays there -/
theorem c20_cache_monotone (max : Nat) (reg : Reg) (evs : List Ev) (sh0 : Sh) (h0 : Inv reg sh0)
    (sched : List Nat) :
    sh0.le ((Sys.mk sh0 (evs.map (compile max reg))).run sched).sh :=
  (sysOK_run sched _ (sysOK_init max reg evs sh0 h0)).2

/-- **Non-interference (`c20_noninterference`).**  For every schedule, a call that has
    finished has exactly the outcome (value, or exception class and trace text) that it has
    when it is run alone from the initial state — and run alone it does finish. -/
theorem c20_noninterference (max : Nat) (reg : Reg) (evs : List Ev) (sh0 : Sh) (h0 : Inv reg sh0)
    (sched : List Nat) (i : Nat) (ev : Ev) (o : Out) (hev : evs[i]? = some ev)
    (hdone : ((Sys.mk sh0 (evs.map (compile max reg))).run sched).threads[i]? = some (.done o)) :
    ∃ n, (runAlone (compile max reg ev) sh0 n).1 = .done o := by
  have hok := (sysOK_run sched _ (sysOK_init max reg evs sh0 h0)).1
  have : o = denote reg ev := sysOK_done hok i o _ hdone (by simp [hev])
  rw [this]
  exact alone_outcome max reg ev sh0 h0

/-- the same at the harness's granularity: threads switch only at user callables -/
theorem c20_noninterference_segments (max : Nat) (reg : Reg) (evs : List Ev) (sh0 : Sh) (h0 : Inv reg sh0)
    (fuel : Nat) (sched : List Nat) (i : Nat) (ev : Ev) (o : Out) (hev : evs[i]? = some ev)
    (hdone : ((Sys.mk sh0 (evs.map (compile max reg))).runSegments fuel sched).threads[i]? = some (.done o)) :
    o = denote reg ev ∧ ∃ n, (runAlone (compile max reg ev) sh0 n).1 = .done o := by
  have hok := sysOK_runSegments fuel sched _ (sysOK_init max reg evs sh0 h0)
  have : o = denote reg ev := sysOK_done hok i o _ hdone (by simp [hev])
  exact ⟨this, by rw [this]; exact alone_outcome max reg ev sh0 h0⟩

/-- the outcome of a call does not depend on what the caches hold when it starts (cold, warm,
    filled by other calls): it is its denotation -/
theorem c20_cache_independent (max : Nat) (reg : Reg) (ev : Ev) (sh sh' : Sh) (h : Inv reg sh) (h' : Inv reg sh') :
    ∃ n n', (runAlone (compile max reg ev) sh n).1 = (runAlone (compile max reg ev) sh' n').1 := by
  obtain ⟨n, hn⟩ := alone_outcome max reg ev sh h
  obtain ⟨n', hn'⟩ := alone_outcome max reg ev sh' h'
  exact ⟨n, n', by rw [hn, hn']⟩

/-- **Re-entrancy, outcomes (`c20_nested`).**  A call whose callable calls glom() itself
    (`.nested inner k`: the micro-steps of the inner call are part of the thread's program and
    interleave with the other threads like any others): under every schedule, when it has finished
    its outcome is the one it has when the inner call is replaced by the constant the inner call
    evaluates to ALONE — a value, or a failure that an outer Coalesce (the continuation `k`) catches
    — and the inner call alone does finish with that constant. -/
theorem c20_nested (max : Nat) (reg : Reg) (evs : List Ev) (sh0 : Sh) (h0 : Inv reg sh0) (sched : List Nat)
    (i : Nat) (inner : Ev) (k : Out → Ev) (o : Out) (hev : evs[i]? = some (.nested inner k))
    (hdone : ((Sys.mk sh0 (evs.map (compile max reg))).run sched).threads[i]? = some (.done o)) :
    o = denote reg (k (denote reg inner)) ∧
    ∃ n, (runAlone (compile max reg inner) sh0 n).1 = .done (denote reg inner) := by
  have hok := (sysOK_run sched _ (sysOK_init max reg evs sh0 h0)).1
  have : o = denote reg (.nested inner k) := sysOK_done hok i o _ hdone (by simp [hev])
  exact ⟨this, alone_outcome max reg inner sh0 h0⟩

/-! ### the scopes of calls that run concurrently: no call observes another call's target, bindings, mode or accumulators

`Glom/Model/C20Scope.lean`: ONE heap of scope maps for all threads.  `glom()` allocates the root
map of a call under the shared default scope, `_glom` a map per evaluation step (and writes
`LAST_CHILD_SCOPE` into the calling scope's map), specs write the target, `S`-bindings, `MODE`,
accumulators into maps of their chain, and read through the chain down to the default scope.  Threads
take turns operation by operation in ANY order, so allocation order and every address depend on the
schedule.  The reference (`Spec/C20Scope.lean`) is the call alone, without heap or addresses. -/

section scopes
open Glom.C20.Sc

/-- **Non-observation through scopes (`c20_scope_noninterference`).**  Any number of threads, each any
    sequence of `start` (a glom() call; also from inside a running call of the thread, to any
    nesting depth) / `finish` / `child` / `set` at any depth / `get` / `pop`, any default scope, ANY
    schedule of single operations: whatever a call has read through its scope so far — its target,
    a binding, the mode, an accumulator, an entry of the default scope — is exactly what the call
    reads when it is alone (`locRun`, in which no other call exists), for the operations it has
    done; and the default scope, the one map all calls share, is what it was. -/
theorem c20_scope_noninterference (dflt : Vars) (progs : List (List Op)) (sched : List Nat) :
    ((Sc.Sys.init dflt progs).run sched).heap[0]? = some ⟨dflt⟩ ∧
    ∀ (i : Nat) (ops0 : List Op) (t : Sc.Thread), progs[i]? = some ops0 →
      ((Sc.Sys.init dflt progs).run sched).threads[i]? = some t →
      ∃ done, ops0 = done ++ t.ops ∧ t.reads = (locRun dflt done {}).reads := by
  have inv := sinv_run sched _ (sinv_init dflt progs)
  refine ⟨inv.h0, ?_⟩
  intro i ops0 t h0 ht
  obtain ⟨done, _, _, h1, _, _, h3, _⟩ := (inv.thr i t ops0 ht h0).ex
  exact ⟨done, h1, h3⟩

/-- **No thread's calls write a map of another thread's calls (`c20_scope_private`).**  After any
    schedule the maps of the scopes of two different threads — of their running calls and of the
    calls that wait for a nested one — are disjoint (they share the default scope only, which nobody
    writes), so no `set` of one call — a binding, a mode switch, an accumulator update — can land in
    a map another call reads. -/
theorem c20_scope_private (dflt : Vars) (progs : List (List Op)) (sched : List Nat) (i j : Nat) (ti tj : Sc.Thread)
    (hij : i ≠ j) (hi : ((Sc.Sys.init dflt progs).run sched).threads[i]? = some ti)
    (hj : ((Sc.Sys.init dflt progs).run sched).threads[j]? = some tj) :
    ∀ a ∈ own ti, a ∉ own tj :=
  (sinv_run sched _ (sinv_init dflt progs)).disj i j ti tj hij hi hj

/-- **Checker theorem for scope reads**: when all calls have finished, under any schedule, what they
    read through their scopes passes `checkScope` against what they read alone. -/
theorem c20_scope_model_checks (dflt : Vars) (progs : List (List Op)) (sched : List Nat)
    (hall : ∀ t ∈ ((Sc.Sys.init dflt progs).run sched).threads, t.ops = []) :
    checkScope (progs.map fun ops => (locRun dflt ops {}).reads)
      (((Sc.Sys.init dflt progs).run sched).threads.map (·.reads)) = true := by
  have inv := sinv_run sched _ (sinv_init dflt progs)
  generalize (Sc.Sys.init dflt progs).run sched = s at inv hall
  simp only [checkScope, beq_iff_eq]
  apply List.ext_getElem?
  intro i
  simp only [List.getElem?_map]
  cases ht : s.threads[i]? with
  | none =>
    have : progs[i]? = none := by
      rw [List.getElem?_eq_none_iff] at ht ⊢
      rw [← inv.len]; exact ht
    rw [this]; rfl
  | some t =>
    have hil : i < progs.length := by rw [← inv.len]; exact (List.getElem?_eq_some_iff.mp ht).1
    have h0 : progs[i]? = some progs[i] := List.getElem?_eq_getElem hil
    rw [h0]
    simp only [Option.map_some]
    rw [tinv_done (inv.thr i t _ ht h0) (hall t (List.mem_of_getElem? ht))]

/-- call A binds `x` and later reads it, switches its mode in a child scope; call B does the same with
    other values -/
private def scA : List Op :=
  [.start [("T", "tA"), ("MODE", "AUTO")], .child [("T", "a1")], .set 1 "x" "A", .set 0 "MODE" "FILL", .get "MODE",
   .start [("T", "inner"), ("MODE", "AUTO")], .set 0 "x" "inner-x", .get "x", .get "MODE", .finish,   -- a nested call
   .pop, .get "x", .get "MODE", .get "T", .get "registry"]
private def scB : List Op :=
  [.start [("T", "tB"), ("MODE", "AUTO")], .set 0 "x" "B", .child [("T", "b1")], .get "x", .get "T", .get "MODE"]

-- the theorem says something: under an interleaving in which the two calls alternate (their maps
-- are allocated interleaved: A's root at 1, B's at 2, A's child at 3, B's child at 4) each reads its
-- own target, binding and mode, and the shared default entry
example : ((Sc.Sys.init [("registry", "R")] [scA, scB]).run
      [0, 1, 0, 1, 0, 1, 0, 1, 0, 1, 0, 1, 0, 0, 0, 0, 0, 0, 0, 0, 0]).threads.map (·.reads)
    = [[some "FILL", some "inner-x", some "AUTO", some "A", some "AUTO", some "tA", some "R"],
       [some "B", some "b1", some "AUTO"]] := by decide
-- … and it is not true of a heap discipline in which a call writes where another reads: were `set`
-- allowed to reach the default scope (depth = the last map), B would read A's binding
example : lookupChain (writeFrame [⟨[("registry", "R")]⟩] 0 "x" "A") [0] "x" = some "A" := by decide

end scopes

/-! ### re-entry with the scope of the running call handed in

`Spec(inner).glom(t, scope=scope)` and `glom(t, inner, scope=scope)` from inside a custom spec's
`glomit`: the per-call error bookkeeping (`Glom/Model/C20Reentry.lean`) is heap state, and the
`CHILD_ERRORS` list is an object that a flattened copy of the scope shares with the caller. -/

open Glom.C20.Re in
/-- **Non-interference of a re-entrant call that resets the bookkeeping (`c20_reentry_frames`).**
    Any heap of scope maps and failed-branch lists `st` (no assumption: also mid-evaluation, also
    ill-formed), any scope `a` of it, any way `how` of starting the inner call that covers the keys
    that matter (`glom(t, inner)`; or the scope of `a` handed in and `CHILD_ERRORS` rebound to a
    fresh list and `NO_PYFRAME` dropped), any inner spec — with children, Coalesces, tuple chains
    and further re-entries to any depth, each covering too: after the inner call EVERY scope map
    and EVERY failed-branch list that existed before it is exactly what it was, and the inner
    call's outcome is its denotation, the outcome it has in any scope (in particular alone). -/
theorem c20_reentry_frames (st : BSt) (a : Nat) (how : How) (inner : RSpec)
    (hhow : how.covers = true) (hin : inner.covered = true) :
    (∀ i, i < st.frames.length →
        (eval inner (start st a how).1 (start st a how).2).1.frames[i]? = st.frames[i]?) ∧
    (∀ l, l < st.lists.length →
        (eval inner (start st a how).1 (start st a how).2).1.lists[l]? = st.lists[l]?) ∧
    (eval inner (start st a how).1 (start st a how).2).2 = denote inner := by
  have hown : Own st.frames.length st.lists.length st :=
    ⟨Nat.le_refl _, Nat.le_refl _, fun b f hb hf => by
      have := (List.getElem?_eq_some_iff.mp hf).1; omega⟩
  obtain ⟨s1, s2, s3⟩ := step_start hown a how hhow
  have h := eval_owned st.frames.length st.lists.length inner _ _ hin s1.own s2 s3
  exact ⟨fun i hi => (s1.same.trans h.1.same).fr i hi, fun l hl => (s1.same.trans h.1.same).ls l hl, h.2⟩

open Glom.C20.Re in
/-- … for the resets the CURRENT SOURCE of `Spec.glom` and of `glom()` performs (extracted facts) -/
theorem c20_reentry_frames_extracted (st : BSt) (a : Nat) (inner : RSpec) (hin : inner.covered = true)
    (how : How) (hhow : how = .handed (resetsOf genFacts.specGlomResets) ∨ how = .handed (resetsOf genFacts.glomResets)) :
    (∀ i, i < st.frames.length →
        (eval inner (start st a how).1 (start st a how).2).1.frames[i]? = st.frames[i]?) ∧
    (∀ l, l < st.lists.length →
        (eval inner (start st a how).1 (start st a how).2).1.lists[l]? = st.lists[l]?) := by
  have hc : how.covers = true := by
    rcases hhow with h | h <;> subst h <;> decide
  exact ⟨(c20_reentry_frames st a how inner hc hin).1, (c20_reentry_frames st a how inner hc hin).2.1⟩

open Glom.C20.Re in
/-- **Any nesting depth (`c20_reentry_depth`).**  `n` re-entrant calls inside one another (each handed
    the scope of the running call in a covering way, or none), the innermost evaluating any covered
    spec: every scope map and failed-branch list that existed before the outermost of them is what
    it was, for every `n` (`c20_reentry_frames`, whose induction over the inner spec passes through
    every level of the nesting). -/
theorem c20_reentry_depth (st : BSt) (a : Nat) (how : How) (body : RSpec) (n : Nat)
    (hhow : how.covers = true) (hbody : body.covered = true) :
    (∀ i, i < st.frames.length →
        (eval (nestRe how body n) (start st a how).1 (start st a how).2).1.frames[i]? = st.frames[i]?) ∧
    (∀ l, l < st.lists.length →
        (eval (nestRe how body n) (start st a how).1 (start st a how).2).1.lists[l]? = st.lists[l]?) ∧
    (eval (nestRe how body n) (start st a how).1 (start st a how).2).2 = denote (nestRe how body n) :=
  c20_reentry_frames st a how (nestRe how body n) hhow (nestRe_covered how body hhow hbody n)

open Glom.C20.Re in
/-- **The outcome and the error trace of a call do not see the re-entrant calls made inside it
    (`c20_reentry_trace_alone`).**  Any call whose custom specs make re-entrant calls — with no scope,
    or handed the scope of the running call in a covering way; inner specs with Coalesces, chains,
    failures that are caught, further re-entries to any depth; anywhere in the outer spec: under dict
    values, Coalesce alternatives, after earlier links of a tuple chain: the whole call — its value,
    or its error AND the trace rendered from the error bookkeeping (`_unpack_stack`,
    `format_target_spec_trace`: every line, branch and depth) — is exactly that of the same call in
    which no inner call is made at all (`erase`: the re-entering spec just evaluates what it
    evaluates afterwards).  Proof: the heap of the run without inner calls embeds into the heap of
    the real run by an injection of addresses that every step of `_glom` (new_child, the exception
    handler with its NO_PYFRAME walk, chain_child) preserves and that an inner call leaves untouched
    (`c20_reentry_frames`); rendering from related roots yields the same lines; the loops of the
    handler and of `_unpack_stack` terminate within the fuel the model gives them because parents are
    older and children / failed branches younger than a scope (`WFB`). -/
theorem c20_reentry_trace_alone (spec : RSpec) (hc : spec.covered = true) :
    runCall spec = runCall (erase spec) :=
  runCall_erase spec hc

open Glom.C20.Re in
/-- … so two calls that differ only in their inner calls — which calls are made, how the scope is
    handed over, what they evaluate, whether they fail — have the same outcome and trace: the inner
    call may be replaced by the constant it evaluates to in isolation. -/
theorem c20_reentry_inner_irrelevant (s1 s2 : RSpec) (h1 : s1.covered = true) (h2 : s2.covered = true)
    (h : erase s1 = erase s2) : runCall s1 = runCall s2 := by
  rw [runCall_erase s1 h1, runCall_erase s2 h2, h]

section reentryExamples
open Glom.C20.Re

/-- `{'x': Re}` where `Re.glomit` makes the inner call `'missing'` (fails, caught) and then
    evaluates `'outer.om'` (fails): the demo of the seeded change C20-s5, depth 1 -/
private def demo1 (h : How) : RSpec :=
  .sub 1 (.reent 2 h (.leaf 3 (.error (.raised 1))) (.leaf 4 (.error (.raised 2))))

/-- `Coalesce(Re(…, after = Re2(…)), 'zz')`: depth 2 under an outer Coalesce -/
private def demo2 (h : How) : RSpec :=
  .coal 1 (.orElse (.reent 2 h (.leaf 3 (.error (.raised 1)))
      (.reent 4 h (.leaf 5 (.error (.raised 2))) (.leaf 6 (.error (.raised 3)))))
    (.leaf 7 (.error (.raised 4))))

/-- with `CHILD_ERRORS` rebound and `NO_PYFRAME` dropped the whole call — error and rendered
    trace — is what it is with the inner call made in isolation … -/
theorem c20_reentry_reset_examples :
    runCall (demo1 (.handed ⟨true, true⟩)) = runCall (demo1 .isolated) ∧
    runCall (demo2 (.handed ⟨true, true⟩)) = runCall (demo2 .isolated) ∧
    runCall (demo1 .isolated) = .err (.raised 2) [(0, .spec 1), (0, .spec 2), (0, .spec 4)] := by
  decide +kernel

/-- **Counter-example: `CHILD_ERRORS` not rebound (the seeded change C20-s5, and `glom()` before
    /repo 6021378).**  The inner call's failed scope is appended to the CALLER's list: the list of
    the scope that made the call is no longer what it was, and the trace of the outer call grows a
    spurious branch showing the finished inner call (`+ Spec: Re` / `'missing'` / its error). -/
theorem c20_reentry_shared_list_counterexample :
    runCall (demo1 (.handed ⟨false, true⟩)) =
      .err (.raised 2) [(0, .spec 1), (0, .branching 2), (1, .spec 3), (1, .error (.raised 1)), (1, .spec 4)] ∧
    runCall (demo1 (.handed ⟨false, true⟩)) ≠ runCall (demo1 .isolated) ∧
    runCall (demo2 (.handed ⟨false, true⟩)) ≠ runCall (demo2 .isolated) ∧
    (let s1 := enter (newRoot ⟨[], []⟩).1 0 2
     let s0 := start s1.1 s1.2 (.handed ⟨false, true⟩)
     (eval (.leaf 3 (.error (.raised 1))) s0.1 s0.2).1.lists[1]? ≠ s1.1.lists[1]?) := by
  decide +kernel

/-- **Counter-example: `NO_PYFRAME` not dropped (F16, /repo 94cf76d).**  A re-entry made from a
    later link of a tuple chain, `(T, First(len))`: the copy of the scope carries the marker of the
    chain, the handler of the failing inner evaluation walks up from a one-map ChainMap, and the
    inner call ends with IndexError instead of its own error. -/
theorem c20_reentry_marker_counterexample :
    let s1 := enter (newRoot ⟨[], []⟩).1 0 1                   -- the tuple
    let s2 := eval (.leaf 2 (.ok 0)) s1.1 s1.2                 -- its first link
    let s3 := chainChild s2.1 s1.2
    let s4 := enter s3.1 s3.2 3                                -- First(len), under the chained scope
    (let s0 := start s4.1 s4.2 (.handed ⟨true, false⟩)
     errOf (eval (.leaf 4 (.error (.raised 1))) s0.1 s0.2).2 = some .indexError) ∧
    (let s0 := start s4.1 s4.2 (.handed ⟨true, true⟩)
     errOf (eval (.leaf 4 (.error (.raised 1))) s0.1 s0.2).2 = some (.raised 1)) := by
  decide +kernel

-- `c20_reentry_trace_alone` says something: a call with a branching trace two levels deep, a
-- re-entry under a Coalesce alternative behind a chain link; without `covered` it fails
-- (`c20_reentry_shared_list_counterexample`: `demo1 (.handed ⟨false, true⟩)` is not covered)
example : (demo2 (.handed ⟨true, true⟩)).covered = true := by decide
example : runCall (demo2 (.handed ⟨true, true⟩)) = runCall (erase (demo2 .isolated)) ∧
    runCall (erase (demo2 .isolated)) = .err (.coalesce 1)
      [(0, .branching 1), (1, .spec 2), (1, .spec 4), (1, .spec 6), (1, .error (.raised 3)), (1, .spec 7),
       (1, .error (.raised 4))] := by decide +kernel
example : (demo1 (.handed ⟨false, true⟩)).covered = false ∧
    runCall (demo1 (.handed ⟨false, true⟩)) ≠ runCall (erase (demo1 (.handed ⟨false, true⟩))) := by decide +kernel

-- the hypotheses of `c20_reentry_frames` are satisfiable by a non-trivial input: a covering
-- re-entry whose inner spec has a Coalesce, a chain and a further re-entry
example : (RSpec.reent 1 (.handed ⟨true, true⟩)
    (.coal 2 (.orElse (.sub 3 (.andThen (.leaf 4 (.ok 1)) (.reent 5 .isolated (.leaf 6 (.error (.raised 1))) (.leaf 7 (.error (.raised 2))))))
      (.pure 0))) (.leaf 8 (.ok 2))).covered = true := by decide
example : (How.handed (resetsOf genFacts.specGlomResets)).covers = true ∧
    (How.handed (resetsOf genFacts.glomResets)).covers = true := by decide

end reentryExamples

/-- Why "no registration while calls run" is an assumption: with a `register` (which rebinds
    `_type_cache = {}`) scheduled between the store and the final lookup of `get_handler`, the
    lookup fails with KeyError — the call's outcome differs from its outcome alone. -/
theorem c20_register_race_counterexample :
    let reg : Reg := fun key => if key = ("dict", "get") then some "getitem" else none
    let call := compile 10 reg (.handler ("dict", "get") true fun r => .ret (match r with
      | .ok (.found h) => .val h | .ok _ => .val "unregistered" | .error e => .err e ""))
    let registrar := Prog.tcReset (.done (.val "registered"))
    (((Sys.mk {} [call, registrar]).run [0, 0, 1, 0]).threads[0]?).bind Prog.outcome? = some (.err "KeyError" "") ∧
    (((Sys.mk {} [call, registrar]).run [0, 0, 0, 1]).threads[0]?).bind Prog.outcome? = some (.val "getitem") := by
  decide

/-- the call `glom(5, [T])`, as far as the handler memo can see it: `get_handler('iterate', 5)`
    (raising), and the outcome that follows from what it returns -/
private def iterCall (lookup : TKey → Bool → (Except Err HRes → Prog) → Prog) : Prog :=
  lookup ("int", "iterate") true fun r => .done (match r with
    | .ok (.found h) => .val h
    | .ok .unregistered => .err "UnregisteredTarget" ""
    | .ok .noHandler => .err "TypeError" "'bool' object is not callable"
    | .error e => .err e "")
/-- user code asks the registry whether a type can be iterated: `get_handler('iterate', 5, raise_exc=False)` -/
private def probeCall (lookup : TKey → Bool → (Except Err HRes → Prog) → Prog) : Prog :=
  lookup ("int", "iterate") false fun _ => .done (.val "probed")

/-- **Counter-example: a remembered `False` handed out as it is (`get_handler` before /repo
    8b51f6e, audit finding G6).**  A `raise_exc=False` lookup — made by user code in another call —
    stores `False` in the memo; with the final lookup returned unchecked, a later raising lookup of
    the same type gets `False` and the call ends in `TypeError: 'bool' object is not callable`
    instead of `UnregisteredTarget`, its outcome alone.  With the code as it is (`getHandlerP`: the
    entry read last is re-checked) the call ends as alone under the same schedule, and under the one
    in which the probe runs between the call's membership test and its raise. -/
theorem c20_remembered_false_counterexample :
    let reg : Reg := fun _ => none
    (((Sys.mk {} [iterCall (getHandlerNoRecheck reg), probeCall (getHandlerNoRecheck reg)]).run [1, 1, 1, 0, 0]).threads[0]?).bind
      Prog.outcome? = some (.err "TypeError" "'bool' object is not callable") ∧
    (((Sys.mk {} [iterCall (getHandlerNoRecheck reg)]).run [0, 0]).threads[0]?).bind Prog.outcome?
      = some (.err "UnregisteredTarget" "") ∧
    (((Sys.mk {} [iterCall (getHandlerP reg), probeCall (getHandlerP reg)]).run [1, 1, 1, 0, 0]).threads[0]?).bind
      Prog.outcome? = some (.err "UnregisteredTarget" "") ∧
    (((Sys.mk {} [iterCall (getHandlerP reg), probeCall (getHandlerP reg)]).run [0, 1, 1, 1, 0]).threads[0]?).bind
      Prog.outcome? = some (.err "UnregisteredTarget" "") := by
  decide

/-- **The repr guard between threads (`c20_repr_guard_threads`).**  Whatever other threads are
    rendering at the moment (any keys of other threads in the shared `_active` set), a render in
    thread `tid` produces what it produces with an empty set: the guard `(id(x), get_ident())` that
    `c20_facts_wf` demands lets no thread see another thread's rendering (seeded changes C20-s3, s9). -/
theorem c20_repr_guard_threads (tid call : Nat) (c : RChain) (active : List (Nat × Nat × Nat))
    (h : ∀ k ∈ active, k.2.1 ≠ tid) :
    renderGuarded false active tid call c = renderGuarded false [] tid call c := by
  apply renderGuarded_congr
  intro k hk
  have : ¬ k ∈ active := fun hm => h k hm hk
  simp [this]

/-- **Counter-example: the same guard WITHIN a thread (audit finding G1, known finding
    `reentry_from_repr_during_render`).**  The `__repr__` of a target makes a glom call on the very
    object while the outer call's error trace is rendered, and renders that call's error: the inner
    trace shows `...` for its target — the guard finds the object active in this thread — where the
    same call made alone shows the object.  NOT repaired in /repo.  A guard that also knew which
    glom call it serves (`perCall`) would show the object, and would still cut a container that
    contains itself. -/
theorem c20_repr_guard_reentry_counterexample :
    renderGuarded false [] 0 0 (.node 1 "Tgt()" .call (.leaf 1 "Tgt()")) = ["Tgt()", "..."] ∧
    renderGuarded false [] 0 1 (.leaf 1 "Tgt()") = ["Tgt()"] ∧
    renderGuarded true [] 0 0 (.node 1 "Tgt()" .call (.leaf 1 "Tgt()")) = ["Tgt()", "Tgt()"] ∧
    renderGuarded true [] 0 0 (.node 1 "[" .item (.leaf 1 "[")) = ["[", "..."] ∧
    renderGuarded false [] 0 0 (.node 1 "Tgt()" .call (.leaf 2 "Tgt()")) = ["Tgt()", "Tgt()"] := by
  decide

/-- **Checker theorem** — the form in which the property is evaluated on the implementation:
    when all calls have finished, under any schedule, the observation passes `checkC20`
    against the outcomes of the calls alone. -/
theorem c20_model_checks (max : Nat) (reg : Reg) (evs : List Ev) (sh0 : Sh) (h0 : Inv reg sh0)
    (fuel : Nat) (sched : List Nat)
    (hall : ∀ p ∈ ((Sys.mk sh0 (evs.map (compile max reg))).runSegments fuel sched).threads, ∃ o, p = .done o) :
    checkC20 (evs.map (denote reg))
      (observe reg ((Sys.mk sh0 (evs.map (compile max reg))).runSegments fuel sched)) = true := by
  have hok := sysOK_runSegments fuel sched _ (sysOK_init max reg evs sh0 h0)
  generalize (Sys.mk sh0 (evs.map (compile max reg))).runSegments fuel sched = s at hok hall
  obtain ⟨hinv, hlen, hth⟩ := hok
  have hdead : (observe reg s).deadlock = false := by
    simp only [observe]
    rw [List.any_eq_false]
    intro p hp
    obtain ⟨o, rfl⟩ := hall p hp
    simp
  have houts : (observe reg s).outs = evs.map (denote reg) := by
    simp only [observe]
    apply List.ext_getElem?
    intro i
    have hfm : ∀ (l : List Prog), (∀ p ∈ l, ∃ o, p = .done o) →
        (l.filterMap Prog.outcome?)[i]? = (l[i]?).bind Prog.outcome? := by
      intro l
      induction l generalizing i with
      | nil => intro _; simp
      | cons p l ih =>
        intro hl
        obtain ⟨o, rfl⟩ := hl p (List.mem_cons_self ..)
        cases i with
        | zero => simp [Prog.outcome?]
        | succ i => simpa [Prog.outcome?] using ih (i := i) (fun q hq => hl q (List.mem_cons_of_mem _ hq))
    rw [hfm s.threads hall]
    cases hp : s.threads[i]? with
    | none =>
      have : evs.length ≤ i := by
        have := List.getElem?_eq_none_iff.mp hp
        simp at hlen; omega
      simp [List.getElem?_eq_none (by simpa using this)]
    | some p =>
      obtain ⟨o, rfl⟩ := hall p (List.mem_of_getElem? hp)
      have hi : i < evs.length := by
        have := (List.getElem?_eq_some_iff.mp hp).1
        simp at hlen; omega
      have ha : (evs.map (denote reg))[i]? = some (denote reg evs[i]) := by simp [hi]
      have := hth i _ _ hp ha
      simp only [Agrees] at this
      simp [this, hi, Prog.outcome?]
  simp only [checkC20, Bool.and_eq_true]
  refine ⟨⟨⟨⟨?_, ?_⟩, ?_⟩, ?_⟩, ?_⟩
  · rw [hdead]; rfl
  · rw [houts]; simp
  · rfl
  · simp only [observe, List.all_eq_true, List.mem_map, forall_exists_index, and_imp]
    intro e x hx he; subst he; simp only [beq_iff_eq]; rw [hinv.1 x hx]
  · simp only [observe, List.all_eq_true, List.mem_map, forall_exists_index, and_imp]
    intro e x hx he; subst he; simp only [beq_iff_eq]; rw [hinv.2 x hx]

/-! ### one spec object with a container literal in argument position, used by several calls

`S(acc=[])`, `Coalesce(…, default=[])`, `T.get(k, {})`, `Call(f, args=([],))`, `Assign(p, [])`,
`Or(…, default=[])` …: the literal is an object inside the spec, shared by every call that uses the
spec (threads, re-entrant calls, later calls).  `Glom/Model/C20Arg.lean` models `_ArgValuator.mode`
on an object heap; the spec's literals are the addresses below `h.length`.  In the system of calls,
taking the value of an argument is ONE operation (`arg_val` touches only its own `_ArgValuator` —
the `argValFresh` fact — and, by `c20_argval_fresh`, containers that did not exist before it). -/

section argShared
open Glom.C20.Arg

/-- **The value of an argument shares no container with the spec (`c20_argval_fresh`).**  Any heap
    (the literal may be nested, shared between positions, contain itself), any argument, any
    evaluation of its leaves, any fuel: `arg_val` leaves every object that existed untouched; what it
    returns is a leaf or an object that did not exist; and every object it created holds leaves and
    objects that did not exist.  Whatever a call then does to the value it received, it cannot reach
    an object of the spec through it. -/
theorem c20_argval_fresh (ev : String → String) (fuel : Nat) (h : Heap) (v : Val) :
    (∀ a, a < h.length → (argVal ev fuel h v).1[a]? = h[a]?) ∧
    FreshVal h.length (argVal ev fuel h v).2 ∧
    (∀ a o, h.length ≤ a → (argVal ev fuel h v).1[a]? = some o → ∀ w ∈ o.items, FreshVal h.length w) := by
  have hg : Good h.length ⟨h, []⟩ :=
    ⟨by simp, fun a o ha ho => by have := (List.getElem?_eq_some_iff.mp ho).1; simp at this; omega⟩
  obtain ⟨e, f⟩ := argEval_ext (base := h.length) ev fuel ⟨h, []⟩ v (Nat.le_refl _) hg
  exact ⟨e.old, f, e.good.objs⟩

/-- … so every value of the spec reads afterwards as it read before (a closed heap: references
    inside the spec point into the spec) -/
theorem c20_argval_spec_unchanged (ev : String → String) (fuel : Nat) (h : Heap) (v : Val) (hc : Closed h)
    (n : Nat) (w : Val) (hw : ValIn h.length w) :
    tokens (argVal ev fuel h v).1 n w = tokens h n w :=
  tokens_frame hc (c20_argval_fresh ev fuel h v).1 n w hw

/-- **Non-interference through a shared argument (`c20_arg_noninterference`).**  Any number of calls,
    each any sequence of: take the value of a flat container literal of the spec in argument
    position, push into the container received, read it, yield; ANY schedule of single operations
    (in particular: threads switched anywhere, a call run to completion in the middle of another
    one, calls one after the other).  Then the literals of the spec are what they were, and every
    call has read, so far, exactly what the by-value reference `privRun` — in which no other call
    occurs — reads for the operations it has done. -/
theorem c20_arg_noninterference (n : Nat) (lits : Heap) (ts : List Thread)
    (hflat : ∀ t ∈ ts, ∀ op ∈ t.ops, FlatOp lits op)
    (hinit : ∀ t ∈ ts, t.reg = .leaf "None" ∧ t.out = []) (sched : List Nat) :
    (∀ a, a < lits.length → ((Arg.Sys.mk lits ts).run false (n + 2) sched).heap[a]? = lits[a]?) ∧
    ∀ (i : Nat) (t0 t : Thread), ts[i]? = some t0 → ((Arg.Sys.mk lits ts).run false (n + 2) sched).threads[i]? = some t →
      ∃ done, t0.ops = done ++ t.ops ∧ t.out = (privRun t0.ev lits done {}).out := by
  have inv := sysInv_run n hflat sched _ (sysInv_init lits ts hinit)
  refine ⟨inv.frame, ?_⟩
  intro i t0 t h0 ht
  obtain ⟨_, done, h1, h2, _⟩ := inv.rel i t0 t h0 ht
  exact ⟨done, h1, h2⟩

/-- a call run ALONE (the only thread; `t.ops.length` steps) finishes -/
theorem c20_arg_alone_finishes (fast : Bool) (fuel : Nat) (lits : Heap) (t0 : Thread) :
    ∃ t, ((Arg.Sys.mk lits [t0]).run fast fuel (List.replicate t0.ops.length 0)).threads[0]? = some t ∧ t.ops = [] := by
  have hstep : ∀ (t : Thread) (h : Heap), (t.step fast fuel h).1.ops = t.ops.tail := by
    intro t h
    unfold Thread.step
    split
    · next he => simp [he]
    · next he => simp [he]
    · next he => simp [he]
    · next he => simp only [he]; split <;> simp
    · next he => simp [he]
    · next he => simp [he]
  have : ∀ (k : Nat) (t : Thread) (h : Heap), t.ops.length = k →
      ∃ t', ((Arg.Sys.mk h [t]).run fast fuel (List.replicate k 0)).threads[0]? = some t' ∧ t'.ops = [] := by
    intro k
    induction k with
    | zero => intro t h hk; exact ⟨t, rfl, List.eq_nil_of_length_eq_zero hk⟩
    | succ k ih =>
      intro t h hk
      simp only [List.replicate_succ, Arg.Sys.run]
      have : (Arg.Sys.mk h [t]).step fast fuel 0 = Arg.Sys.mk (t.step fast fuel h).2 [(t.step fast fuel h).1] := by
        simp [Arg.Sys.step]
      rw [this]
      exact ih _ _ (by rw [hstep]; simp; omega)
  exact this _ t0 lits rfl

/-- **… exactly as when run alone.**  A call that has finished under any schedule among any other
    calls has read exactly what it reads when it is the only call (`c20_arg_alone_finishes`). -/
theorem c20_arg_as_alone (n : Nat) (lits : Heap) (ts : List Thread)
    (hflat : ∀ t ∈ ts, ∀ op ∈ t.ops, FlatOp lits op)
    (hinit : ∀ t ∈ ts, t.reg = .leaf "None" ∧ t.out = []) (sched sched' : List Nat)
    (i : Nat) (t0 t t' : Thread) (h0 : ts[i]? = some t0)
    (ht : ((Arg.Sys.mk lits ts).run false (n + 2) sched).threads[i]? = some t) (hdone : t.ops = [])
    (ht' : ((Arg.Sys.mk lits [t0]).run false (n + 2) sched').threads[0]? = some t') (hdone' : t'.ops = []) :
    t.out = t'.out := by
  have inv := sysInv_run n hflat sched _ (sysInv_init lits ts hinit)
  have h0m : t0 ∈ ts := List.mem_of_getElem? h0
  have inv' := sysInv_run (ts := [t0]) n (fun x hx => by simp at hx; rw [hx]; exact hflat t0 h0m) sched' _
    (sysInv_init lits [t0] (fun x hx => by simp at hx; rw [hx]; exact hinit t0 h0m))
  rw [sysInv_done inv i t0 t h0 ht hdone, sysInv_done inv' 0 t0 t' rfl ht' hdone']

/-- **Checker theorem for the shared-argument cases** — the form in which the property is evaluated
    on the implementation: at the harness's granularity (threads switch at yield points), when all
    calls have finished, the observation (what each call read last; the literals before and after)
    passes `checkArg` against what the calls read alone. -/
theorem c20_arg_model_checks (n k : Nat) (lits : Heap) (ts : List Thread) (roots : List Val)
    (hflat : ∀ t ∈ ts, ∀ op ∈ t.ops, FlatOp lits op)
    (hinit : ∀ t ∈ ts, t.reg = .leaf "None" ∧ t.out = [])
    (hroots : ∀ r ∈ roots, ∃ l o, r = .ref l ∧ lits[l]? = some o ∧ Flat o) (sched : List Nat)
    (hall : ∀ t ∈ ((Arg.Sys.mk lits ts).runSegments false (n + 2) k sched).threads, t.ops = []) :
    checkArg (ts.map fun t0 => (privRun t0.ev lits t0.ops {}).out.getLast?.getD [])
      (observeArg (n + 2) lits roots ((Arg.Sys.mk lits ts).runSegments false (n + 2) k sched)) = true := by
  have inv := sysInv_runSegments n hflat k sched _ (sysInv_init lits ts hinit)
  generalize (Arg.Sys.mk lits ts).runSegments false (n + 2) k sched = s at inv hall
  simp only [checkArg, observeArg, Bool.and_eq_true, beq_iff_eq]
  constructor
  · apply List.ext_getElem?
    intro i
    simp only [List.getElem?_map]
    cases ht : s.threads[i]? with
    | none =>
      have : ts[i]? = none := by
        rw [List.getElem?_eq_none_iff] at ht ⊢
        rw [← inv.len]; exact ht
      rw [this]; rfl
    | some t =>
      have hil : i < ts.length := by rw [← inv.len]; exact (List.getElem?_eq_some_iff.mp ht).1
      have h0 : ts[i]? = some ts[i] := List.getElem?_eq_getElem hil
      rw [h0]
      simp only [Option.map_some, lastRead]
      rw [sysInv_done inv i ts[i] t h0 ht (hall t (List.mem_of_getElem? ht))]
  · apply List.map_congr_left
    intro r hr
    obtain ⟨l, o, rfl, hlo, hfo⟩ := hroots r hr
    have hll : l < lits.length := (List.getElem?_eq_some_iff.mp hlo).1
    rw [tokens_flat s.heap (n + 1) l o (by rw [inv.frame l hll]; exact hlo) hfo, tokens_flat lits (n + 1) l o hlo hfo]

/-- the spec `(S(acc=[]), S.acc.append(T['id']), <user callable>, S.acc)` used by two calls -/
private def accLits : Heap := [⟨.list, []⟩]
private def accCall (id : String) : Thread :=
  { ev := fun s => s, ops := [.bind (.ref 0), .push [] id, .yield, .read] }

/-- **Counter-example: an empty container in argument position returned as it is (the seeded change
    C20-s7).**  `fast = true`: the literal inside the spec becomes the per-call value.  Two calls that
    both take the argument before either pushes read each other's push; run one after the other, B
    reads A's push (the literal is no longer empty: B gets a copy of what A left); the literal of
    the spec has changed.  With the code as it is (`fast = false`) each reads its own push only. -/
theorem c20_arg_fastpath_counterexample :
    (((Arg.Sys.mk accLits [accCall "'A'", accCall "'B'"]).run true 8 [0, 1, 0, 1, 0, 1, 1, 0]).threads.map (·.out)
      = [[["list(", "'A'", "'B'", ")"]], [["list(", "'A'", "'B'", ")"]]]) ∧
    (((Arg.Sys.mk accLits [accCall "'A'", accCall "'B'"]).run true 8 [0, 0, 0, 0, 1, 1, 1, 1]).threads.map (·.out)
      = [[["list(", "'A'", ")"]], [["list(", "'A'", "'B'", ")"]]]) ∧
    ((Arg.Sys.mk accLits [accCall "'A'", accCall "'B'"]).run true 8 [0, 1, 0, 1, 0, 1, 1, 0]).heap[0]?
      = some ⟨.list, [.leaf "'A'", .leaf "'B'"]⟩ ∧
    (((Arg.Sys.mk accLits [accCall "'A'", accCall "'B'"]).run false 8 [0, 0, 0, 1, 1, 1, 1, 0]).threads.map (·.out)
      = [[["list(", "'A'", ")"]], [["list(", "'B'", ")"]]]) ∧
    ((Arg.Sys.mk accLits [accCall "'A'", accCall "'B'"]).run false 8 [0, 0, 0, 1, 1, 1, 1, 0]).heap[0]?
      = some ⟨.list, []⟩ := by
  decide +kernel

/-- **Counter-example: a mutable default of `Vars` (audit finding G2; known finding
    `vars_mutable_default_persists`, recorded under C07).**  `S(v=Vars(acc=[]))`: `Vars.glomit` builds
    `ScopeVars(base, defaults)` without `arg_val`, so every call that uses the spec object receives
    the list inside the spec (`bindRaw`): run one after the other, the second call reads the first
    call's push, and the literal of the spec is no longer empty.  `FlatOp` excludes the operation:
    the theorems above speak about arguments that go through `arg_val`. -/
theorem c20_vars_default_counterexample :
    let call : String → Thread := fun id => { ev := fun s => s, ops := [.bindRaw (.ref 0), .push [] id, .yield, .read] }
    (((Arg.Sys.mk accLits [call "'A'", call "'B'"]).run false 8 [0, 0, 0, 0, 1, 1, 1, 1]).threads.map (·.out)
      = [[["list(", "'A'", ")"]], [["list(", "'A'", "'B'", ")"]]]) ∧
    ((Arg.Sys.mk accLits [call "'A'", call "'B'"]).run false 8 [0, 0, 0, 0, 1, 1, 1, 1]).heap[0]?
      = some ⟨.list, [.leaf "'A'", .leaf "'B'"]⟩ ∧
    (privRun (fun s => s) accLits [.bind (.ref 0), .push [] "'B'", .yield, .read] {}).out = [["list(", "'B'", ")"]] := by
  decide +kernel

-- the hypotheses of `c20_arg_noninterference` are satisfiable by a non-trivial input …
example : ∀ t ∈ [accCall "'A'", accCall "'B'"], ∀ op ∈ t.ops, FlatOp accLits op := by
  intro t ht op hop
  simp only [List.mem_cons, List.not_mem_nil, or_false] at ht
  rcases ht with rfl | rfl <;>
  · simp only [accCall, List.mem_cons, List.not_mem_nil, or_false] at hop
    rcases hop with rfl | rfl | rfl | rfl
    · exact ⟨0, ⟨.list, []⟩, rfl, rfl, by intro v hv; simp at hv⟩
    · rfl
    · trivial
    · trivial
-- the hypotheses are forced.  Without `hflat` the by-value reference does not speak: for the nested
-- literal `[[]]` and a push into the inner list the call reads its push, the reference (pushes below
-- the top are outside its language) does not
example :
    let t : Thread := { ev := fun s => s, ops := [.bind (.ref 0), .push [0] "'A'", .read] }
    (((Arg.Sys.mk [⟨.list, [.ref 1]⟩, ⟨.list, []⟩] [t]).run false 8 [0, 0, 0]).threads.map (·.out)
      = [[["list(", "list(", "'A'", ")", ")"]]]) ∧
    (privRun t.ev [⟨.list, [.ref 1]⟩, ⟨.list, []⟩] t.ops {}).out = [["list(", "...", ")"]] := by
  decide +kernel
-- without `hinit`: a call that starts out holding the literal itself writes into the spec
example :
    let t : Thread := { ev := fun s => s, ops := [.push [] "'A'"], reg := .ref 0 }
    ((Arg.Sys.mk accLits [t]).run false 8 [0]).heap[0]? = some ⟨.list, [.leaf "'A'"]⟩ := by
  decide +kernel
-- with fuel 1 (the theorems need 2: one level for the container, one for its leaves) the items are not evaluated
example : (argVal (fun s => s) 1 [⟨.list, [.leaf "7"]⟩] (.ref 0)).1[1]? = some ⟨.list, [.leaf "<fuel>"]⟩ := by
  decide +kernel
-- `c20_arg_model_checks`: its hypotheses hold for the two calls above under the alternating schedule
example : (∀ r ∈ [Val.ref 0], ∃ l o, r = .ref l ∧ accLits[l]? = some o ∧ Flat o) ∧
    (∀ t ∈ ((Arg.Sys.mk accLits [accCall "'A'", accCall "'B'"]).runSegments false 8 100 [0, 1, 0, 1]).threads, t.ops = []) := by
  refine ⟨?_, by decide +kernel⟩
  intro r hr
  simp only [List.mem_cons, List.not_mem_nil, or_false] at hr
  subst hr
  exact ⟨0, ⟨.list, []⟩, rfl, rfl, by intro v hv; simp at hv⟩
-- … and `c20_argval_fresh` says something for a literal that is nested, shared and cyclic:
-- `x = []; l = [x, x, {'k': x}]; l.append(l)` evaluates to a new list whose first two items are ONE
-- new list, with a new dict around the same new list, and itself as the last item
example : argVal (fun s => s) 8 [⟨.list, []⟩, ⟨.list, [.ref 0, .ref 0, .ref 2, .ref 1]⟩, ⟨.dict, [.leaf "'k'", .ref 0]⟩] (.ref 1)
    = ([⟨.list, []⟩, ⟨.list, [.ref 0, .ref 0, .ref 2, .ref 1]⟩, ⟨.dict, [.leaf "'k'", .ref 0]⟩,
        ⟨.list, [.ref 4, .ref 4, .ref 5, .ref 3]⟩, ⟨.list, []⟩, ⟨.dict, [.leaf "'k'", .ref 4]⟩], .ref 3) := by
  decide +kernel

end argShared

/-! ### the error object: rendering is idempotent and history-independent

A failing glom() call made from a callable hands its error to the enclosing call; user code in
between — the `except` handler of the callable, a custom spec, a logger, a later callable that kept the
error — may render it (`str`, `'%s' %`, `traceback.format_exception`, logging), copy it, render it
again.  `Glom/Model/C20Err.lean` is the `__dict__` of the error with its two caches
(`_finalized_str`, `_target_spec_trace`) as a state machine over {render, copy, exit of a glom()
call: copy | same object | wrap, `_set_wrapped`, `_finalize` (which renders the exception being
handled into `_tb_lines`)}; `Glom/Spec/C20Err.lean` is the cache-free reference: the message is a
function of what the last finalization put on the object. -/

section errObject
open Glom.C20.ErrM

/-- **Facts obligation for the error object**: the mutable attributes of a GlomError are the five the
    model has; `__str__` depends (reads on some path before it has written) only on `_scope`,
    `_tb_lines`, `__wrapped` and caches; `_finalize` sets `_scope` to the scope it is handed and
    `_tb_lines`, unconditionally, and RESETS (`= None`, unconditionally) every cache `__str__` reads
    (`Cfg.WF`); no subclass has a `__str__` of its own; the only copy-protocol override builds a
    fresh instance (`TypeMatchError.__copy__`); the handler of `glom()` is `copy.copy(e)` | `err = e`
    | `GlomError.wrap(e)`, `_set_wrapped(e)`, `_finalize(scope[LAST_CHILD_SCOPE])`. -/
theorem c20_err_facts_wf : genErrFacts.WF = true := by decide

/-- **Every render returns the reference message (`c20_err_render_reference`).**  Any source whose
    `_finalize` resets the caches its `__str__` reads (`cfg.WF`; in particular the current source,
    `c20_err_facts_wf`), any history of renders, copies (dict-carrying or fresh) and exits of glom()
    calls (to any nesting depth; copy, same object, wrap): every render the user makes returns
    exactly what the cache-free reference returns — the message computed from the last
    finalization of that object alone. -/
theorem c20_err_render_reference (cfg : Cfg) (hwf : cfg.WF = true) (ops : List Op)
    (hok : opsOK ops ⟨RHeap.init, [], []⟩ [] = true) :
    (run cfg ops ⟨Heap.init, []⟩).texts = (refRun ops ⟨RHeap.init, [], []⟩).texts :=
  (run_sim cfg hwf ops ⟨Heap.init, []⟩ ⟨RHeap.init, [], []⟩ [] (sim_init cfg) rfl hok).2

/-- **History independence (`c20_err_history_independent`).**  The message of an error after any
    interleaving of renders (of this and of other errors), copies and enclosing calls equals the
    message computed by a single render at the end, in the history from which every earlier render
    is erased. -/
theorem c20_err_history_independent (cfg : Cfg) (hwf : cfg.WF = true) (ops : List Op) (e : Nat)
    (hok : opsOK ops ⟨RHeap.init, [], []⟩ [] = true) :
    (run cfg (ops ++ [.render e]) ⟨Heap.init, []⟩).texts.getLast? =
    (run cfg (ops.filter (fun op => !isRender op) ++ [.render e]) ⟨Heap.init, []⟩).texts.getLast? := by
  have hr : ∀ op ∈ [Op.render e], isRender op = true := by
    intro op hop; simp only [List.mem_singleton] at hop; subst hop; rfl
  have hok' := opsOK_erase ops ⟨RHeap.init, [], []⟩ ⟨RHeap.init, [], []⟩ [] rfl hok
  rw [c20_err_render_reference cfg hwf _ (opsOK_append _ _ _ _ hok hr),
    c20_err_render_reference cfg hwf _ (opsOK_append _ _ _ _ hok' hr),
    refRun_append, refRun_append]
  have := refRun_erase ops ⟨RHeap.init, [], []⟩ ⟨RHeap.init, [], []⟩ rfl rfl
  simp only [refRun, refStep, List.getLast?_append, List.getLast?_singleton, Option.some_or]
  rw [this.1]

/-- **Rendering is idempotent (`c20_err_render_idempotent`).**  After any history, rendering an error
    twice returns the same message twice: the reference message. -/
theorem c20_err_render_idempotent (cfg : Cfg) (hwf : cfg.WF = true) (ops : List Op) (e : Nat)
    (hok : opsOK ops ⟨RHeap.init, [], []⟩ [] = true) :
    (run cfg (ops ++ [.render e, .render e]) ⟨Heap.init, []⟩).texts =
      (run cfg ops ⟨Heap.init, []⟩).texts ++
        [refRender (refRun ops ⟨RHeap.init, [], []⟩).heap e, refRender (refRun ops ⟨RHeap.init, [], []⟩).heap e] := by
  have hr : ∀ op ∈ [Op.render e, Op.render e], isRender op = true := by
    intro op hop; simp only [List.mem_cons, List.not_mem_nil, or_false, or_self] at hop; subst hop; rfl
  rw [c20_err_render_reference cfg hwf _ (opsOK_append _ _ _ _ hok hr), c20_err_render_reference cfg hwf _ hok,
    refRun_append]
  simp [refRun, refStep]

/-- **The enclosing call's error shows the enclosing call's trace (`c20_err_shows_enclosing_call`).**
    When the glom() call `lvl` ends with an error — whatever was done to the exception it handled
    (`e`: finalized by inner calls to any depth, rendered, copied) and whichever way the handler goes
    (copy, same object, wrap) — and the user then renders anything any number of times, the message
    of the error that came out shows the trace of the scope of `lvl`, the root error `e` and the
    traceback lines captured by `lvl`: never those of an inner call. -/
theorem c20_err_shows_enclosing_call (cfg : Cfg) (hwf : cfg.WF = true) (ops rs : List Op) (lvl e out : Nat) (k : ExitKind)
    (hrs : ∀ op ∈ rs, isRender op = true)
    (hok : opsOK (ops ++ [.exit lvl e out k]) ⟨RHeap.init, [], []⟩ [] = true) :
    ∃ t, (run cfg (ops ++ [.exit lvl e out k] ++ rs ++ [.render (exitTarget e out k)]) ⟨Heap.init, []⟩).texts.getLast?
      = some (.full lvl (some e) lvl t) := by
  have hr : ∀ op ∈ rs ++ [Op.render (exitTarget e out k)], isRender op = true := by
    intro op hop
    rcases List.mem_append.mp hop with h | h
    · exact hrs op h
    · simp only [List.mem_singleton] at h; subst h; rfl
  rw [List.append_assoc (ops ++ [Op.exit lvl e out k])]
  rw [c20_err_render_reference cfg hwf _ (opsOK_append _ _ _ _ hok hr)]
  rw [← List.append_assoc, refRun_append _ [Op.render _], refRun_append (ops ++ [Op.exit lvl e out k]) rs]
  -- renders do not change the heap of the reference
  have hheap : ∀ (rs : List Op) (s : RSt), (∀ op ∈ rs, isRender op = true) → (refRun rs s).heap = s.heap := by
    intro rs
    induction rs with
    | nil => intro s _; rfl
    | cons op r ih =>
      intro s h
      have := h op (List.mem_cons_self ..)
      cases op with
      | render x => exact ih _ (fun o ho => h o (List.mem_cons_of_mem _ ho))
      | ucopy _ _ _ => simp [isRender] at this
      | exit _ _ _ _ => simp [isRender] at this
  simp only [refRun, refStep, List.getLast?_append, List.getLast?_singleton, Option.some_or]
  rw [hheap rs _ hrs, refRun_append]
  simp only [refRun, refStep]
  generalize (refRun ops ⟨RHeap.init, [], []⟩).heap = h
  cases k with
  | same =>
    exact ⟨refRender (h.set e { h e with wrapped := some e }) e, by simp [refRender, refText, refExit, exitTarget]⟩
  | copy ck =>
    exact ⟨refRender ((refCopy h e out ck).set out { refCopy h e out ck out with wrapped := some e }) e,
      by simp [refRender, refText, refExit, exitTarget]⟩

/-- **Any nesting depth (`c20_err_nested_depth`).**  `n + 1` glom() calls inside one another, each made
    from a callable whose handler renders the error of the call it made `k` times before letting it
    go on (`chain`): the outermost call's error shows the trace of the outermost call. -/
theorem c20_err_nested_depth (cfg : Cfg) (hwf : cfg.WF = true) (k n : Nat) :
    ∃ t, (run cfg (chain k (n + 1) ++ [.render (n + 1)]) ⟨Heap.init, []⟩).texts.getLast?
      = some (.full (n + 1) (some n) (n + 1) t) := by
  have := c20_err_shows_enclosing_call cfg hwf (chain k n) (List.replicate k (.render (n + 1))) (n + 1) n (n + 1) (.copy .carry)
    (by intro op hop; rw [List.eq_of_mem_replicate hop]; rfl) (opsOK_chain_exit k n)
  simpa [chain, exitTarget, List.append_assoc] using this

/-- **Checker theorem for error histories** — the form in which the property is evaluated on the
    implementation: whatever strings the message terms stand for (`I`), the renders of the model
    pass `checkErrHist` against the table "call ↦ the message of the error it ended with" of the
    reference: every render of the error of a call, wherever and whenever it is made, reads the
    message that call's error shows. -/
theorem c20_err_model_checks {τ : Type} [BEq τ] [ReflBEq τ] (I : Text → τ) (cfg : Cfg) (hwf : cfg.WF = true) (ops : List Op)
    (hok : opsOK ops ⟨RHeap.init, [], []⟩ [] = true) :
    checkErrHist ops ((run cfg ops ⟨Heap.init, []⟩).texts.map fun t => some (I t))
      (fun l => (lookupLvl l (refRun ops ⟨RHeap.init, [], []⟩).table).map I) = true := by
  rw [c20_err_render_reference cfg hwf ops hok]
  obtain ⟨new, h1, h2, h3⟩ := refRun_levels ops ⟨RHeap.init, [], []⟩ [] tinv_init hok
  simp only [List.nil_append] at h1
  rw [h1]
  simp only [checkErrHist, Bool.and_eq_true, beq_iff_eq, List.length_map, List.all_eq_true]
  refine ⟨h2.symm, ?_⟩
  intro p hp
  rw [List.zip_map_right] at hp
  obtain ⟨q, hq, rfl⟩ := List.mem_map.mp hp
  simp only [Prod.map_fst, Prod.map_snd, id_eq]
  cases hl : q.1 with
  | none => rfl
  | some l =>
    simp only
    rw [h3 q hq l hl]
    simp

/-- the current source: memo returned and stored, trace always recomputed, memo reset -/
private def cfgNow : Cfg := ⟨true, true, false, true, false⟩
/-- the seeded change C20-s8: only `_target_spec_trace` is cached, computed only when absent, never reset -/
private def cfgS8 : Cfg := ⟨false, false, true, false, false⟩
/-- glom before the reset was added to `_finalize`: the rendered message is kept for good -/
private def cfgNoReset : Cfg := ⟨true, true, false, false, false⟩

example : genErrFacts.cfg = cfgNow ∧ cfgNow.WF = true ∧ cfgS8.WF = false ∧ cfgNoReset.WF = false := by decide

/-- an inner call fails (error 10, copy 11), the callable renders 11 and lets it propagate, the
    enclosing call fails with it (copy 12) and its error is rendered -/
private def histRendered : List Op :=
  [.exit 1 10 11 (.copy .carry), .render 11, .exit 2 11 12 (.copy .carry), .render 12]
private def histPlain : List Op :=
  [.exit 1 10 11 (.copy .carry), .exit 2 11 12 (.copy .carry), .render 12]

/-- **Counter-example: a cache `__str__` reads and `_finalize` does not reset (the seeded change
    C20-s8; glom before the reset).**  The hypothesis `cfg.WF` is forced: with the trace cached and
    not reset, the enclosing call's error shows the INNER call's trace (scope 1, root 10) once the
    callable has rendered the inner error, and the outer trace when it has not; an error finalized
    in place twice shows the inner trace even when nobody rendered it (`_finalize` itself renders
    the exception being handled); with the message cached and not reset the enclosing call's error
    IS the inner message.  With the current source all of them show scope 2. -/
theorem c20_err_stale_cache_counterexample :
    (run cfgS8 histRendered ⟨Heap.init, []⟩).texts.getLast? = some (.full 1 (some 10) 2 (.full 1 (some 10) 1 (.plain 10))) ∧
    (run cfgS8 histPlain ⟨Heap.init, []⟩).texts.getLast? = some (.full 2 (some 11) 2 (.full 1 (some 10) 1 (.plain 10))) ∧
    (run cfgS8 [.exit 1 10 0 .same, .exit 2 10 0 .same, .render 10] ⟨Heap.init, []⟩).texts.getLast?
      = some (.full 1 (some 10) 2 (.full 1 (some 10) 1 (.plain 10))) ∧
    (run cfgNoReset histRendered ⟨Heap.init, []⟩).texts.getLast? = some (.full 1 (some 10) 1 (.plain 10)) ∧
    (run cfgNow histRendered ⟨Heap.init, []⟩).texts.getLast? = (run cfgNow histPlain ⟨Heap.init, []⟩).texts.getLast? ∧
    (run cfgNow histRendered ⟨Heap.init, []⟩).texts.getLast? = some (.full 2 (some 11) 2 (.full 1 (some 10) 1 (.plain 10))) ∧
    (run cfgNow [.exit 1 10 0 .same, .exit 2 10 0 .same, .render 10] ⟨Heap.init, []⟩).texts.getLast?
      = some (.full 2 (some 10) 2 (.full 1 (some 10) 1 (.plain 10))) := by
  decide

/-- **Counter-example: the hypothesis on errors finalized in place is forced.**  An error that was
    finalized as a COPY (it wraps 10) and is then finalized in place by an enclosing call (user code
    raised a copy whose class cannot be re-created) wraps itself from then on: the message rendered
    into `_tb_lines` by that finalization names root 10 when the user had rendered the error before
    (the cached message), root 11 when not — with the current source.  `opsOK` excludes the history. -/
theorem c20_err_in_place_counterexample :
    (run cfgNow [.exit 1 10 11 (.copy .carry), .render 11, .exit 2 11 0 .same, .render 11] ⟨Heap.init, []⟩).texts.getLast? ≠
    (run cfgNow [.exit 1 10 11 (.copy .carry), .exit 2 11 0 .same, .render 11] ⟨Heap.init, []⟩).texts.getLast? ∧
    opsOK [.exit 1 10 11 (.copy .carry), .exit 2 11 0 .same, .render 11] ⟨RHeap.init, [], []⟩ [] = false := by
  decide

-- the hypotheses are satisfiable by a non-trivial history: three nested calls; the innermost error
-- (a TypeMatchError: fresh copies) rendered by the callable, copied by user code, the copy raised
-- on; the middle call's error kept and rendered late; an error of a class that cannot be re-created
-- finalized in place twice
example : opsOK [.exit 1 10 11 (.copy .fresh), .render 11, .render 11, .ucopy 11 13 .carry, .exit 2 13 14 (.copy .carry),
    .render 14, .exit 3 14 15 (.copy .carry), .render 11, .render 14, .render 15,
    .exit 4 20 0 .same, .render 20, .exit 5 20 0 .same, .render 20] ⟨RHeap.init, [], []⟩ [] = true := by decide
-- `checkErrHist` rejects an observation in which the enclosing call's error reads the inner message
example : checkErrHist histRendered [some "inner", some "inner"] (fun l => if l = 1 then some "inner" else some "outer") = false ∧
    checkErrHist histRendered [some "inner", some "outer"] (fun l => if l = 1 then some "inner" else some "outer") = true := by
  decide

end errObject

/-! ### non-vacuity -/

private def regEx : Reg := fun key => if key = ("dict", "get") then some "getitem" else none

/-- two calls parsing the same text and looking up the same handler, with yield points -/
private def evA : Ev := .parse "a.b" fun r => .user "y0" (.handler ("dict", "get") true fun h => .ret (match r, h with
  | .ok _, .ok (.found g) => .val g | _, _ => .err "E" ""))
private def evB : Ev := .user "y0" (.parse "a.b" fun r => .nested (.parse "zz" fun _ => .ret (.err "PathAccessError" "zz"))
  fun inner => .ret (match r, inner with | .ok _, .err c _ => .val c | _, _ => .err "E" ""))

example : Inv regEx {} := ⟨by simp, by simp⟩
-- an interleaving in which B's membership test runs between A's test and A's store (both miss,
-- both store): both finish with their outcomes alone
example : (((Sys.mk {} [compile 10 regEx evA, compile 10 regEx evB]).run [0, 1, 1, 0, 1, 0, 1, 0, 0, 1, 1, 1, 0, 0, 0, 1, 1, 1, 1]).threads.map Prog.outcome?)
    = [some (denote regEx evA), some (denote regEx evB)] := by decide
example : denote regEx evA = .val "getitem" ∧ denote regEx evB = .val "PathAccessError" := by decide

end Glom.Props.C20
