import Glom.Lemmas.C07
import Glom.Lemmas.RepIndMain
import Glom.Lemmas.C07Vis
import Glom.Model.Frames
import Glom.Spec.InterpFacts
/-
  C07 — Scope bindings are lexically scoped, chain forward, never outlive the call.

  Property theorems only.  The interpreter is generic in the scope
  representation (`ScopeAlg`); what makes it lexically scoped are the laws of
  `Glom/Spec/Scope.lean` (`LawfulScope`), proved here for the ChainMap of frames
  glom uses.  On top of the laws: which scope each container hands to its
  sub-specs (isolation), how a chain hands bindings forward, shadowing, nearest
  Ref, per-call globals.
-/
namespace Glom.Props.C07
open Glom.Interp ScopeAlg

/-- **facts obligation**: the decision logic of the interpreter core extracted from /repo on this
    run has the shape the model mirrors (`Glom/Spec/InterpFacts.lean`) -/
theorem c07_facts_wf : c07FactsWF = true := by decide

/-- **The ChainMap of frames is a lexical scope.**  `_glom` pushes a frame (child sees all the
    parent sees), `scope[k] = v` writes the head frame (visible to the holder, shadows outer
    bindings, changes nothing else), `chain_child` hands the finished child's bindings to the next
    link, mode entries never affect bindings. -/
theorem c07_frames_lawful : LawfulScope Frames := inferInstance

/-- **Siblings are isolated.**  A dict spec, a list spec, Coalesce, And, Or and the
    Fill / argument-mode container rebuilders call the evaluator at the container's own scope
    `sc` only: whatever the evaluator does at any *other* scope (in particular at the scopes the
    siblings finished in) cannot influence the outcome.  Hence a binding made in one dict value,
    list element or branch is invisible to the others and to the enclosing spec.
    (In the model this holds *by construction*: a scope is an immutable value, and these loops pass
    the same `sc` to every sub-spec — the theorem records that shape of the loops, nothing deeper.
    That the real ChainMap frames are not mutated from below is what the correspondence and the
    independent checker `checkVis` — `c07_model_checks` — observe on the implementation.) -/
theorem c07_siblings_isolated {σ : Type} [ScopeAlg σ] (p : Prims) (rec1 rec2 : Rec σ) (target : V) (sc : σ)
    (h : AgreeAt rec1 rec2 sc) :
    (∀ es acc, dictLoop p rec1 target sc es acc = dictLoop p rec2 target sc es acc) ∧
    (∀ sub items acc, listLoop rec1 sub sc items acc = listLoop rec2 sub sc items acc) ∧
    (∀ sk se subs, coalesceLoop p rec1 target sc sk se subs = coalesceLoop p rec2 target sc sk se subs) ∧
    (∀ cs res, andLoop rec1 target sc cs res = andLoop rec2 target sc cs res) ∧
    (∀ cs, orLoop p rec1 target sc cs = orLoop p rec2 target sc cs) ∧
    (∀ xs acc, mapLoop rec1 target sc xs acc = mapLoop rec2 target sc xs acc) ∧
    (∀ es acc, pairLoop p rec1 target sc es acc = pairLoop p rec2 target sc es acc) :=
  ⟨dictLoop_congr p target sc h, fun sub => listLoop_congr sub sc h,
   fun sk se => coalesceLoop_congr p target sc sk se h, andLoop_congr target sc h,
   orLoop_congr p target sc h, mapLoop_congr target sc h, pairLoop_congr p target sc h⟩

/-- **Bindings chain forward.**  The scope `_handle_tuple` / Pipe hands to step *n+1* is the scope
    step *n* finished in (its own frame on top), re-wired by `chain_child`: step *n+1* sees every
    binding step *n* made in its own frame, and whatever step *n* could see. -/
theorem c07_chain_forward {σ : Type} [ScopeAlg σ] [LawfulScope σ] (owner stepScope : σ) (k : String) :
    lookup (nextScope owner (some stepScope)) k = lookup stepScope k ∧
    lookupRef (nextScope owner (some stepScope)) k = lookupRef stepScope k :=
  ⟨LawfulScope.lookup_chain .., LawfulScope.lookupRef_chain ..⟩

/-- **A skipped step still is a link of the chain.**  `_handle_tuple` hands the finished scope of
    every step on to the next one — `scope = chain_child(scope)` runs at the top of *each*
    iteration, before the result is inspected.  A step that evaluates to SKIP differs from a step
    that evaluates to an ordinary value `v` in one thing only: the target of the rest of the chain
    (`res` instead of `v`).  The scope arguments of the continuation are the same.  STOP ends the
    chain with the result so far. -/
theorem c07_chain_skip_is_link {σ : Type} [ScopeAlg σ] (rec : Rec σ) (sub : Spec) (rest : List Spec)
    (res : V) (cur : σ) (last : Option σ) (st st1 : St) (v : V) (c1 : σ)
    (h : rec sub res (nextScope cur last) st = (st1, .ok (v, c1))) :
    (v = .skip → tupleLoop rec (sub :: rest) res cur last st =
        tupleLoop rec rest res (nextScope cur last) (some c1) st1) ∧
    (v = .stop → tupleLoop rec (sub :: rest) res cur last st = (st1, .ok res)) ∧
    (v ≠ .skip → v ≠ .stop → tupleLoop rec (sub :: rest) res cur last st =
        tupleLoop rec rest v (nextScope cur last) (some c1) st1) := by
  refine ⟨?_, ?_, ?_⟩
  · intro hv; subst hv
    simp only [tupleLoop, M.bind_apply, h]
  · intro hv; subst hv
    simp only [tupleLoop, M.bind_apply, h]
    rfl
  · intro h1 h2
    simp only [tupleLoop, M.bind_apply, h]   -- (the catch-all alternative: `h1`, `h2` discharge the other two)

/-- **Bindings chain forward across skipped steps.**  Let `c0` be the scope a step of a tuple / Pipe
    finished in, showing `k ↦ x` (the binder's own frame).  If the later steps leave the binding
    of `k` alone — whatever they return (an ordinary value, SKIP) and whatever else they bind —
    then *every* later step is evaluated at a scope that shows `k ↦ x`: what the evaluator would do
    at a scope without it (`rec'` is arbitrary there) cannot influence the chain.  In particular a
    step evaluating to SKIP between the binder and a reader does not hide the binding, and an outer
    binding of `k` cannot show through. -/
theorem c07_chain_forward_skip {σ : Type} [ScopeAlg σ] [LawfulScope σ] (rec rec' : Rec σ) (steps : List Spec)
    (k : String) (x : V)
    (hkeep : ∀ s ∈ steps, ∀ t c st st' r, lookup c k = some x → rec s t c st = (st', .ok r) → lookup r.2 k = some x)
    (hag : ∀ s ∈ steps, ∀ t c, lookup c k = some x → rec s t c = rec' s t c)
    (res : V) (cur c0 : σ) (h0 : lookup c0 k = some x) :
    tupleLoop rec steps res cur (some c0) = tupleLoop rec' steps res cur (some c0) :=
  tupleLoop_inv_congr (fun c => lookup c k = some x)
    (fun owner c hc => by rw [LawfulScope.lookup_chain]; exact hc) steps hkeep hag res cur c0 h0

/-- `Val(SKIP)` is such a step: it evaluates to SKIP and finishes in a scope that shows what the
    scope it was handed shows. -/
theorem c07_val_skip_keeps {σ : Type} [ScopeAlg σ] [LawfulScope σ] (p : Prims) (fuel : Nat) (t : V) (c : σ) (st : St) :
    ∃ c', interp p (fuel + 1) (.val .skip) t c st = (st, .ok (.skip, c')) ∧ ∀ k, lookup c' k = lookup c k := by
  refine ⟨setArgMode (child c) false, rfl, ?_⟩
  intro k
  rw [LawfulScope.lookup_setArgMode, LawfulScope.lookup_child]

/-- **binder, skipped steps, reader**: after a step that finished in a scope showing `k ↦ x`, any
    number of steps that evaluate to SKIP and leave `k` alone, then `S.k`: the chain yields `x`. -/
theorem c07_skip_then_read {σ : Type} [ScopeAlg σ] [LawfulScope σ] (p : Prims) (fuel : Nat) (k : String) (x : V)
    (hx1 : x ≠ .skip) (hx2 : x ≠ .stop) (hp : p.tEval [] x = .ok x) :
    ∀ (mids : List Spec),
      (∀ s ∈ mids, ∀ (t : V) (c : σ) (st : St), lookup c k = some x →
        ∃ st' c', interp p (fuel + 1) s t c st = (st', .ok (.skip, c')) ∧ lookup c' k = some x) →
      ∀ (res : V) (cur c0 : σ) (st : St), lookup c0 k = some x →
        ∃ st', tupleLoop (interp p (fuel + 1)) (mids ++ [.sRead k []]) res cur (some c0) st = (st', .ok x) := by
  intro mids
  induction mids with
  | nil =>
    intro _ res cur c0 st h0
    refine ⟨st, ?_⟩
    have hl : lookup (setArgMode (child (chain cur c0)) false) k = some x := by
      rw [LawfulScope.lookup_setArgMode, LawfulScope.lookup_child, LawfulScope.lookup_chain]; exact h0
    have hr : interp p (fuel + 1) (.sRead k []) res (chain cur c0) st =
        (st, .ok (x, setArgMode (child (chain cur c0)) false)) := by
      simp only [interp, Spec.isSpecLike, if_true, glomit, hl, M.lift, hp, M.bind_apply, M.pure_apply]
    have := (c07_chain_skip_is_link (interp p (fuel + 1)) (.sRead k []) [] res cur (some c0) st st x _ hr).2.2 hx1 hx2
    rw [List.nil_append, this]; rfl
  | cons m rest ih =>
    intro hm res cur c0 st h0
    have hc : lookup (chain cur c0) k = some x := by rw [LawfulScope.lookup_chain]; exact h0
    obtain ⟨st1, c1, hr, h1⟩ := hm m (List.mem_cons_self ..) res (chain cur c0) st hc
    have := (c07_chain_skip_is_link (interp p (fuel + 1)) m (rest ++ [.sRead k []]) res cur (some c0) st st1 .skip c1 hr).1 rfl
    rw [List.cons_append, this]
    exact ih (fun s hs => hm s (List.mem_cons_of_mem _ hs)) res (nextScope cur (some c0)) c1 st1 h1

/-- **A chain has a scope of its own.**  A Pipe evaluates its steps below the frame `_glom` made for
    the Pipe object and hands *that* frame back: the scope it finishes in shows exactly what the scope
    it was handed shows — nothing its steps bound. -/
theorem c07_pipe_own_scope {σ : Type} [ScopeAlg σ] [LawfulScope σ] (p : Prims) (fuel : Nat) (steps : List Spec)
    (t : V) (c : σ) (st st' : St) (v : V) (c' : σ)
    (h : interp p (fuel + 1) (.pipe steps) t c st = (st', .ok (v, c'))) (k : String) :
    lookup c' k = lookup c k ∧ lookupRef c' k = lookupRef c k := by
  simp only [interp, Spec.isSpecLike, if_true, glomit, M.bind_apply] at h
  rcases hr : tupleLoop (interp p fuel) steps t (setArgMode (child c) false) Option.none st with ⟨st1, r1⟩
  rw [hr] at h
  cases r1 with
  | error e => simp at h
  | ok w =>
    simp only [M.pure_apply, Prod.mk.injEq, Except.ok.injEq] at h
    obtain ⟨_, _, hc⟩ := h
    subst hc
    constructor
    · rw [LawfulScope.lookup_setArgMode, LawfulScope.lookup_child]
    · rw [LawfulScope.lookupRef_setArgMode, LawfulScope.lookupRef_child]

/-- … so does `Inspect(s)` (like `Spec(s)`): what the wrapped spec binds ends with it. -/
theorem c07_inspect_own_scope {σ : Type} [ScopeAlg σ] [LawfulScope σ] (p : Prims) (fuel : Nat) (s : Spec)
    (bp pm : Option (String × String)) (t : V) (c : σ) (st st' : St) (v : V) (c' : σ)
    (h : interp p (fuel + 1) (.inspect s bp pm) t c st = (st', .ok (v, c'))) (k : String) :
    lookup c' k = lookup c k ∧ lookupRef c' k = lookupRef c k := by
  simp only [interp, Spec.isSpecLike, if_true, glomit, M.bind_apply] at h
  rcases hcb : callOpt p bp st with ⟨st0, r0⟩
  rw [hcb] at h
  cases r0 with
  | error e => simp at h
  | ok u =>
    simp only [M.attempt] at h
    rcases hr : interp p fuel s t (setArgMode (child c) false) st0 with ⟨st1, r1⟩
    rw [hr] at h
    cases r1 with
    | error e =>
      simp only at h
      split at h
      · simp [M.throw] at h
      · simp only [M.bind_apply] at h
        rcases hpm : callOpt p pm st1 with ⟨st2, r2⟩
        rw [hpm] at h
        cases r2 <;> simp [M.throw] at h
    | ok w =>
      simp only [M.pure_apply, Prod.mk.injEq, Except.ok.injEq] at h
      obtain ⟨_, _, hc⟩ := h
      subst hc
      constructor
      · rw [LawfulScope.lookup_setArgMode, LawfulScope.lookup_child]
      · rw [LawfulScope.lookupRef_setArgMode, LawfulScope.lookupRef_child]

/-- … and so does every plain object (a tuple — the other spelling of a chain —, a dict, a list, a
    path string, a callable), in every mode: it finishes in the child frame `_glom` made for it. -/
theorem c07_plain_own_scope {σ : Type} [ScopeAlg σ] [LawfulScope σ] (p : Prims) (fuel : Nat) (s : Spec)
    (hs : s.isSpecLike = false) (t : V) (c : σ) (st st' : St) (v : V) (c' : σ)
    (h : interp p (fuel + 1) s t c st = (st', .ok (v, c'))) (k : String) :
    lookup c' k = lookup c k ∧ lookupRef c' k = lookupRef c k := by
  simp only [interp, hs, Bool.false_eq_true, if_false, M.bind_apply] at h
  split at h
  · simp only [M.pure_apply, Prod.mk.injEq, Except.ok.injEq] at h
    obtain ⟨_, _, hc⟩ := h
    subst hc
    exact ⟨LawfulScope.lookup_child .., LawfulScope.lookupRef_child ..⟩
  · simp at h

/-- **A binding made inside a chain ends with that chain** — also when the chain is directly a
    step of another chain, tuple or Pipe, at any depth: the scope `_handle_tuple` hands to the step
    *after* an inner chain shows exactly what the scope handed *to* the inner chain showed.  A name
    bound inside is unbound again (or shows the outer binding again: shadowing ends), whatever
    the inner steps did.  (Inlining the steps of the inner chain into the outer one is therefore not
    equivalent: see the examples below.) -/
theorem c07_inner_chain_bindings_end {σ : Type} [ScopeAlg σ] [LawfulScope σ] (p : Prims) (fuel : Nat)
    (inner : Spec) (hin : (∃ steps, inner = .pipe steps) ∨ inner.isSpecLike = false)
    (res : V) (cur : σ) (last : Option σ) (st st1 : St) (v : V) (c1 : σ)
    (h : interp p (fuel + 1) inner res (nextScope cur last) st = (st1, .ok (v, c1))) (k : String) :
    lookup (nextScope (nextScope cur last) (some c1)) k = lookup (nextScope cur last) k ∧
    lookupRef (nextScope (nextScope cur last) (some c1)) k = lookupRef (nextScope cur last) k := by
  have hown : lookup c1 k = lookup (nextScope cur last) k ∧ lookupRef c1 k = lookupRef (nextScope cur last) k := by
    rcases hin with ⟨steps, rfl⟩ | hs
    · exact c07_pipe_own_scope p fuel steps res _ st st1 v c1 h k
    · exact c07_plain_own_scope p fuel inner hs res _ st st1 v c1 h k
  simp only [nextScope]
  rw [LawfulScope.lookup_chain, LawfulScope.lookupRef_chain]
  exact hown

/-- `A.name` binds the target in its own frame, `S(name=…)`'s frame gets the evaluated values:
    that frame is what the next step of the chain sees. -/
theorem c07_binders_write_own_frame {σ : Type} [ScopeAlg σ] [LawfulScope σ] (p : Prims) (rec : Rec σ)
    (name : String) (t : V) (sc : σ) (st : St) :
    glomit p rec (.aBind name) t sc st = (st, .ok (t, bind sc name t)) ∧
    lookup (bind sc name t) name = some t ∧
    (∀ k, k ≠ name → lookup (bind sc name t) k = lookup sc k) := by
  refine ⟨rfl, ?_, ?_⟩
  · rw [LawfulScope.lookup_bind]; simp
  · intro k hk; rw [LawfulScope.lookup_bind]; simp [hk]

/-- A reader resolves through the chain of frames: `S.name` yields the visible binding, or a
    PathAccessError when there is none. -/
theorem c07_reader {σ : Type} [ScopeAlg σ] (p : Prims) (rec : Rec σ) (name : String) (t : V) (sc : σ) (st : St) :
    (lookup sc name = Option.none →
      glomit p rec (.sRead name []) t sc st = (st, .error ⟨"PathAccessError"⟩)) ∧
    (∀ v, lookup sc name = some v → p.tEval [] v = .ok v →
      glomit p rec (.sRead name []) t sc st = (st, .ok (v, sc))) := by
  constructor
  · intro h; simp only [glomit, h]; rfl
  · intro v h hp; simp only [glomit, h, M.lift, hp, M.bind_apply, M.pure_apply]

/-- **Shadowing and restoration**: an inner binding of `k` shadows the outer one for whoever
    holds the inner scope; the outer scope still sees the outer value. -/
theorem c07_shadowing {σ : Type} [ScopeAlg σ] [LawfulScope σ] (sc : σ) (k : String) (v1 v2 : V) :
    lookup (bind (child (bind sc k v1)) k v2) k = some v2 ∧ lookup (bind sc k v1) k = some v1 ∧
    lookup (child (bind sc k v1)) k = some v1 := by
  refine ⟨?_, ?_, ?_⟩
  · rw [LawfulScope.lookup_bind]; simp
  · rw [LawfulScope.lookup_bind]; simp
  · rw [LawfulScope.lookup_child, LawfulScope.lookup_bind]; simp

/-- **Ref(name) resolves to the nearest enclosing Ref(name, spec)**, and the named spec stays
    visible in everything nested below (recursion). -/
theorem c07_ref_nearest {σ : Type} [ScopeAlg σ] [LawfulScope σ] (sc : σ) (n : String) (s1 s2 : Spec) :
    lookupRef (bindRef (child (bindRef sc n s1)) n s2) n = some s2 ∧
    lookupRef (child (child (bindRef sc n s1))) n = some s1 := by
  constructor
  · rw [LawfulScope.lookupRef_bindRef]; simp
  · rw [LawfulScope.lookupRef_child, LawfulScope.lookupRef_child, LawfulScope.lookupRef_bindRef]; simp

/-- `Spec(spec, scope={…})` overrides for its subtree: the sub-spec is evaluated with the extra
    bindings on the Spec's own frame. -/
theorem c07_spec_scope_subtree {σ : Type} [ScopeAlg σ] [LawfulScope σ] (sc : σ) (k : String) (v : V)
    (rest : List (String × V)) (hk : ∀ kv ∈ rest, kv.1 ≠ k) :
    lookup (((k, v) :: rest).foldl (fun c kv => bind c kv.1 kv.2) sc) k = some v := by
  simp only [List.foldl_cons]
  have base : lookup (bind sc k v) k = some v := by rw [LawfulScope.lookup_bind]; simp
  suffices h : ∀ (c : σ), lookup c k = some v →
      lookup (rest.foldl (fun c kv => bind c kv.1 kv.2) c) k = some v from h _ base
  induction rest with
  | nil => intro c hc; exact hc
  | cons kv r ih =>
    intro c hc
    simp only [List.foldl_cons]
    apply ih (fun x hx => hk x (by simp [hx]))
    rw [LawfulScope.lookup_bind]
    have : k ≠ kv.1 := fun e => hk kv (by simp) e.symm
    simp [this, hc]

/-- **Globals are per call.**  `glom()` builds the root scope with a *fresh, empty* `ScopeVars`
    under `'globals'` (a new object id, never one that existed before), and copies the caller's
    scope mapping into the root frame (the mapping itself is only read). -/
theorem c07_globals_per_call (st : St) (callerScope : List (String × V)) :
    let (root, st') := rootScope st callerScope
    st'.gvars = st.gvars ++ [[]] ∧ st'.log = st.log ∧
    ((∀ kv ∈ callerScope, kv.1 ≠ "globals") → lookup root "globals" = some (.vars st.gvars.length)) ∧
    mode root = .auto ∧ argMode root = false := by
  simp only [rootScope]
  refine ⟨trivial, trivial, ?_, rfl, rfl⟩
  intro h
  show Frames.lookup _ "globals" = _
  simp only [Frames.lookup]
  suffices hh : ∀ (acc : List (String × V)), attrGet acc "globals" = some (.vars st.gvars.length) →
      attrGet (callerScope.foldl (fun acc kv => attrSet acc kv.1 kv.2) acc) "globals" =
        some (.vars st.gvars.length) by
    rw [hh _ (by simp [attrGet])]
  induction callerScope with
  | nil => intro acc hacc; exact hacc
  | cons kv r ih =>
    intro acc hacc
    simp only [List.foldl_cons]
    apply ih (fun x hx => h x (by simp [hx]))
    rw [attrGet_attrSet]
    have : "globals" ≠ kv.1 := fun e => h kv (by simp) e.symm
    simp [this, hacc]

/-- A ScopeVars object is reachable only through the value stored in the scope: writing
    `A.globals.k` / `A.var.k` changes that one object and nothing in any frame. -/
theorem c07_gvar_write_frames_untouched {σ : Type} [ScopeAlg σ] (p : Prims) (rec : Rec σ) (name : String)
    (t : V) (sc : σ) (st : St) (id : Nat) (h : lookup sc "globals" = some (.vars id)) :
    ∀ st' r, glomit p rec (.aGlob name) t sc st = (st', .ok r) → r = (t, sc) := by
  intro st' r hr
  simp only [glomit, h, M.bind_apply] at hr
  rcases hg : gvarSet id name t st with ⟨st1, r1⟩
  rw [hg] at hr
  cases r1 with
  | error e => simp at hr
  | ok u => simp [M.pure_apply] at hr; exact hr.2.symm

/-- **The interpreter is lexically scoped (refinement).**  For *every* scope representation that
    satisfies the laws — in particular glom's ChainMap of frames — `_glom(target, spec, scope)`
    computes exactly what the reference semantics computes on the canonical lexical scope
    `obsOf scope` (visible bindings as a function, mode as a lexical parameter): the same state
    (call log, ScopeVars), the same value or exception, and a resulting scope with the same
    observations.  For every spec, target, primitive instantiation and fuel. -/
theorem c07_refines_lexical {σ : Type} [ScopeAlg σ] [LawfulScope σ] (p : Prims) (fuel : Nat) (spec : Spec)
    (t : V) (sc : σ) :
    interp (σ := Obs) p fuel spec t (obsOf sc) = mapSc obsOf (interp (σ := σ) p fuel spec t sc) :=
  interp_sim p fuel spec t sc

/-- **The outcome depends on the scope only through what is lexically visible**: two scopes —
    even of different representations — with the same visible bindings, named specs and mode give
    the same state and the same value or error. -/
theorem c07_outcome_depends_on_observations {σ τ : Type} [ScopeAlg σ] [LawfulScope σ] [ScopeAlg τ] [LawfulScope τ]
    (p : Prims) (fuel : Nat) (spec : Spec) (t : V) (a : σ) (b : τ) (h : obsOf a = obsOf b) (st : St) :
    (interp p fuel spec t a st).1 = (interp p fuel spec t b st).1 ∧
    ((interp p fuel spec t a st).2.map Prod.fst) = ((interp p fuel spec t b st).2.map Prod.fst) := by
  have ha := congrFun (interp_sim (σ := σ) p fuel spec t a) st
  have hb := congrFun (interp_sim (σ := τ) p fuel spec t b) st
  rw [h] at ha
  have hab := ha.symm.trans hb
  simp only [mapSc, M.bind_apply] at hab
  rcases hx : interp p fuel spec t a st with ⟨s1, r1⟩
  rcases hy : interp p fuel spec t b st with ⟨s2, r2⟩
  rw [hx, hy] at hab
  cases r1 <;> cases r2 <;> simp_all [M.pure_apply, Except.map]

/-- the root scope `glom()` builds has the observations of the lexical root environment -/
theorem c07_root_obs (st : St) (callerScope : List (String × V)) :
    obsOf (rootScope st callerScope).1 = (rootObs st callerScope).1 ∧
    (rootScope st callerScope).2 = (rootObs st callerScope).2 := by
  refine ⟨?_, rfl⟩
  simp only [rootScope, rootObs]
  apply Obs.ext'
  · funext k
    show Frames.lookup _ k = _
    simp only [Frames.lookup]
    suffices hh : ∀ (acc : List (String × V)) (f : String → Option V), (∀ k, attrGet acc k = f k) →
        attrGet (callerScope.foldl (fun acc kv => attrSet acc kv.1 kv.2) acc) k =
          (callerScope.foldl (fun f kv => fun k' => if k' = kv.1 then some kv.2 else f k') f) k by
      rw [hh _ (fun k' => if k' = "globals" then some (V.vars st.gvars.length) else Option.none)]
      · cases h : (callerScope.foldl (fun f kv => fun k' => if k' = kv.1 then some kv.2 else f k')
          (fun k' => if k' = "globals" then some (V.vars st.gvars.length) else Option.none)) k <;> simp
      · intro k'
        by_cases hk : k' = "globals" <;> simp [attrGet, hk]
        intro h; exact absurd h.symm hk
    induction callerScope with
    | nil => intro acc f hf; exact hf k
    | cons kv r ih =>
      intro acc f hf
      simp only [List.foldl_cons]
      apply ih
      intro k'
      rw [attrGet_attrSet]
      split <;> simp_all
  · funext k; rfl
  · rfl
  · rfl

/-- **The code-shaped model (ChainMap frames) and the reference (lexical environment) agree on
    every top-level call.** -/
theorem c07_model_eq_reference (p : Prims) (fuel : Nat) (spec : Spec) (t : V) (callerScope : List (String × V))
    (st : St) : glomTop p fuel spec t callerScope st = glomTopLex p fuel spec t callerScope st := by
  unfold glomTop glomTopLex
  obtain ⟨h1, h2⟩ := c07_root_obs st callerScope
  rcases hr : rootScope st callerScope with ⟨root, st0⟩
  rcases hl : rootObs st callerScope with ⟨rootL, st0L⟩
  rw [hr] at h1 h2; rw [hl] at h1 h2
  simp only at h1 h2 ⊢
  subst h1; subst h2
  have := congrFun (interp_sim (σ := Frames) p fuel spec t root) st0
  rw [this]
  simp only [mapSc, M.bind_apply, topResult]
  rcases interp p fuel spec t root st0 with ⟨s1, r1⟩
  cases r1 <;> rfl

/-! ### the checker theorem: static lexical visibility -/

/-- the root frame `glom()` builds shows what the static root environment says: the caller's mapping
    (a later entry of the mapping wins), `globals` is glom's, every other name is unbound -/
theorem c07_root_agrees (st : St) (callerScope : List (String × V)) :
    Agree (rootScope st callerScope).1 (rootSEnv callerScope) := by
  have hobs := (c07_root_obs st callerScope).1
  intro k
  have hl : lookup (rootScope st callerScope).1 k = (rootObs st callerScope).1.lookup k := by
    have := congrArg (fun o => o.lookup k) hobs
    simpa [obsOf] using this
  rw [hl]
  simp only [rootObs, rootSEnv]
  suffices h : ∀ (cs : List (String × V)) (f : String → Option V) (e : SEnv),
      (match SEnv.get e k with | .known v => f k = some v | .unbound => f k = Option.none | .unknown => True) →
      (match SEnv.get ((cs.map (fun kv => (kv.1, SVal.known kv.2))).reverse ++ e) k with
        | .known v => (cs.foldl (fun f kv => fun k' => if k' = kv.1 then some kv.2 else f k') f) k = some v
        | .unbound => (cs.foldl (fun f kv => fun k' => if k' = kv.1 then some kv.2 else f k') f) k = Option.none
        | .unknown => True) by
    apply h
    simp only [senv_get_cons]
    by_cases hk : "globals" = k
    · simp [hk]
    · have : ("globals" == k) = false := by simpa using hk
      simp [this, SEnv.get, Ne.symm hk]
  intro cs
  induction cs with
  | nil => intro f e h; simpa using h
  | cons kv rest ih =>
    intro f e h
    simp only [List.map_cons, List.reverse_cons, List.append_assoc, List.foldl_cons]
    apply ih
    simp only [List.singleton_append, senv_get_cons]
    by_cases hk : kv.1 = k
    · simp [hk]
    · have hk' : (kv.1 == k) = false := by simpa using hk
      simp only [hk', Bool.false_eq_true, if_false, Ne.symm hk]
      exact h

/-- **Checker theorem** (`checkVis`, the form the driver evaluates on the implementation's recorded
    reads): on the visibility fragment — chains in either spelling at any depth, dicts, lists,
    Coalesce, Switch, the binders `S(k=<literal>)`, `A.k`, `Spec(…, scope=…)`, read probes around
    `S.name` — every read the model records is the one the static scoping rules demand: the value of
    the lexically nearest visible binding (a later step of the same chain sees it, everything nested
    sees it; the enclosing spec, sibling dict values, list elements, Coalesce branches and other
    Switch cases do not; a Switch key passes it to its own value only; inner shadows outer; the
    caller's mapping is the outermost layer), or PathAccessError when there is none. -/
theorem c07_model_checks (eqV : V → V → Bool) (heq : ∀ v, eqV v v = true) (p : Prims)
    (hT : ∀ v, p.tEval [] v = .ok v) (fuel : Nat) (spec : Spec) (t : V) (callerScope : List (String × V))
    (hf : vfragF fuel spec = true) :
    checkVis eqV fuel spec callerScope (readsOf (glomTop p fuel spec t callerScope {}).1.log) = true := by
  have hag := c07_root_agrees {} callerScope
  obtain ⟨evs, hlog, hr, _⟩ := interp_vis (σ := Frames) eqV heq p hT fuel spec t (rootScope {} callerScope).1
    (rootSEnv callerScope) (rootScope {} callerScope).2 hf rfl rfl hag
  have hst0 : (rootScope {} callerScope).2.log = [] := rfl
  rw [hst0, List.nil_append] at hlog
  have hfst : ∀ (o : St × Except Err (V × Frames)), (topResult o).1 = o.1 := by
    intro o; rcases o with ⟨st', r⟩; cases r <;> rfl
  simp only [checkVis, glomTop, hfst, hlog, List.all_eq_true, List.any_eq_true, Bool.and_eq_true, beq_iff_eq]
  intro r hrm
  obtain ⟨w, hw, hok⟩ := hr r hrm
  exact ⟨(r.1, w), hw, rfl, hok⟩

/-- **What a step hands to the next link**: on the fragment, a step that succeeds finishes in a scope
    that shows exactly the static environment extended by `exportsOf step` — `S(k=v, …)` binds its
    keywords to their values (the later keyword wins), `A.k` binds `k`, `Spec(…, scope=…)` its
    mapping, every other step (a nested chain, a dict, a list, a Coalesce, a Switch, a read probe)
    nothing. -/
theorem c07_step_exports (eqV : V → V → Bool) (heq : ∀ v, eqV v v = true) (p : Prims)
    (hT : ∀ v, p.tEval [] v = .ok v) {σ : Type} [ScopeAlg σ] [LawfulScope σ] (fuel : Nat) (spec : Spec) (t : V)
    (sc : σ) (env : SEnv) (st : St) (hf : vfragF fuel spec = true) (hm : mode sc = .auto) (ha : argMode sc = false)
    (hag : Agree sc env) (v : V) (c' : σ) (hok : (interp p fuel spec t sc st).2 = .ok (v, c')) :
    Agree c' (exportsOf spec ++ env) := by
  obtain ⟨_, _, _, h⟩ := interp_vis (σ := σ) eqV heq p hT fuel spec t sc env st hf hm ha hag
  exact h v c' hok

-- the fragment of the checker theorem is inhabited by nested chains with binders, readers, dicts, Switch
example : vfragF 8 (.pipe [.sBind [("k", .lit (.str "outer"))],
    .pipe [.sBind [("k", .lit (.str "inner"))], .dict false [(.str "x", .rprobe 1 (.sRead "k" []))]],
    .switch [(.aBind "j", .rprobe 2 (.sRead "j" []))] Option.none, .rprobe 3 (.sRead "k" [])]) = true := by decide

/-- **A Switch key passes its bindings to its own value only** (instance of the checker theorem made
    explicit): in `Switch([(S(k='a'), probe₁), …])` the value of the first case reads `'a'`; a read of `k`
    in another case, or after the Switch, sees what was visible before the Switch. -/
example : expectReads 8 .auto false (rootSEnv [("k", .str "caller")])
    (.tuple [.switch [(.sBind [("k", .lit (.str "a"))], .rprobe 1 (.sRead "k" [])),
                      (.t [], .rprobe 2 (.sRead "k" []))] Option.none,
             .rprobe 3 (.sRead "k" [])]) =
    [(1, .known (.str "a")), (2, .known (.str "caller")), (3, .known (.str "caller"))] := by
  rfl

/-! ### non-vacuity -/

example : lookup (σ := Frames) (bind (child [{ mode := some .auto }]) "k" (.int 1)) "k" = some (.int 1) := by rfl
example : lookup (σ := Frames) (child (bind [{ mode := some .auto }] "k" (.int 1))) "k" = some (.int 1) := by rfl
example : lookup (σ := Frames) [{ mode := some .auto }] "k" = Option.none := by rfl

-- glom(1, (A.k, Val(SKIP), S.k)) == 1: a step evaluating to SKIP between binder and reader
example : isOkInt (glomTop trivPrims 8 (.tuple [.aBind "k", .val .skip, .sRead "k" []]) (.int 1) [] {}) 1 = true := by decide
-- … with a caller binding of the same name, after an earlier binding in the chain, two skips, in a Pipe
example : isOkStr (glomTop trivPrims 8 (.pipe [.sBind [("k", .val (.str "outer"))], .sBind [("k", .val (.str "inner"))],
    .val .skip, .val .skip, .sRead "k" []]) (.int 1) [("k", .str "caller")] {}) "inner" = true := by decide
-- a skipped step that binds (Spec(Val(SKIP), scope={'k': 3})) is a link like any other
example : isOkInt (glomTop trivPrims 8 (.tuple [.specW (.val .skip) [("k", .int 3)], .sRead "k" []]) (.int 1) [] {}) 3 = true := by decide
-- STOP right after the binder: nothing later runs (the reader of an unbound name is never evaluated)
example : isOkInt (glomTop trivPrims 8 (.tuple [.aBind "k", .val .stop, .sRead "zz" []]) (.int 1) [] {}) 1 = true := by decide
-- a binding made inside a nested chain does not reach the enclosing chain, skipped step or not
example : isErr (glomTop trivPrims 8 (.tuple [.tuple [.aBind "k", .val .skip], .sRead "k" []]) (.int 1) [] {}) "PathAccessError" = true := by decide
-- a Pipe that is directly a step of a Pipe: its binding shadows the outer one inside it only …
example : isOkStr (glomTop trivPrims 8 (.pipe [.sBind [("x", .val (.str "outer"))],
    .pipe [.sBind [("x", .val (.str "inner"))], .t []], .sRead "x" []]) (.int 0) [] {}) "outer" = true := by decide
-- … and is usable inside it
example : isOkStr (glomTop trivPrims 8 (.pipe [.sBind [("x", .val (.str "outer"))],
    .pipe [.sBind [("x", .val (.str "inner"))], .sRead "x" []]]) (.int 0) [] {}) "inner" = true := by decide
-- inlining the inner Pipe's steps is NOT equivalent: the inner binding would never end
example : isOkStr (glomTop trivPrims 8 (.pipe [.sBind [("x", .val (.str "outer"))],
    .sBind [("x", .val (.str "inner"))], .t [], .sRead "x" []]) (.int 0) [] {}) "inner" = true := by decide
-- a name bound only inside the inner Pipe is unbound for the enclosing Pipe (two levels, tuple in between)
example : isErr (glomTop trivPrims 8 (.pipe [.pipe [.tuple [.pipe [.aBind "x", .t []]], .t []], .sRead "x" []])
    (.int 7) [] {}) "PathAccessError" = true := by decide
-- the hypotheses of `c07_skip_then_read` are satisfiable: `Val(SKIP)` steps (`c07_val_skip_keeps`)
example (c0 : Frames) (h0 : lookup c0 "k" = some (.int 1)) (res : V) (cur : Frames) (st : St) :
    ∃ st', tupleLoop (interp trivPrims 3) ([.val .skip, .val .skip] ++ [.sRead "k" []]) res cur (some c0) st = (st', .ok (.int 1)) :=
  c07_skip_then_read trivPrims 2 "k" (.int 1) (by intro h; cases h) (by intro h; cases h) rfl [.val .skip, .val .skip]
    (fun s hs t c st hc => by
      have hs' : s = .val .skip := by simp at hs; exact hs
      subst hs'
      obtain ⟨c', h1, h2⟩ := c07_val_skip_keeps trivPrims 2 t c st
      exact ⟨st, c', h1, by rw [h2]; exact hc⟩) res cur c0 st h0

end Glom.Props.C07
