import Lean.Data.Json
/- stub: the C20 driver is not built yet -/
namespace Glom.C20.Driver
open Lean

def run (_j : Json) : Except String Json := .error "property C20: driver not implemented yet"

end Glom.C20.Driver
