import Lean.Data.Json
import Glom.Model.C20Env
/-
  C20 driver: one JSON case in, one JSON verdict out.

  case: {"threads":[{"events":[["parse",text] | ["handler",type,op,handler|null] | ["user",name] |
                               ["nested",[events…],Out]…], "alone":Out}…],
         "schedule":[tid…]            -- one entry per segment (run thread tid up to its next yield point);
                                      -- absent/null: free-running or nested-only (any order)
         "impl":{"outs":[Out…], "pcache":[[text,cached,fresh]…], "tcache":[[type,op,cached,fresh]…],
                 "deadlock":bool}}
  Out = {"val":str} | {"err":[cls,text]}
  The events of a call are the shared-state accesses logged while the call ran alone.

  Re-entry cases whose outer call the model of the error bookkeeping can express carry
         "rspec":{"spec":RSpec, "labels":[repr…], "errs":[[id,class]…]}   and   "impl":{…, "skeleton":[[depth,kind,text]…]}
  RSpec = ["pure"] | ["leaf",label,["ok"]|["err",id]] | ["sub",label,c] | ["coal",label,c] | ["both",x,y] |
          ["orElse",x,y] | ["andThen",x,y] | ["reent",label,"isolated"|"spec"|"kw",inner,after]
  ("spec" / "kw": the scope of the running call handed to Spec.glom / to glom(), which reset what the
  CURRENT source resets: extracted facts); the model runs the call (`Re.runCall`) and its error class
  and trace skeleton are compared with the implementation's.

  Cases in which the calls share ONE spec object with a container literal in argument position carry
         "argsys":{"heap":[[kind,[["leaf",token]|["ref",addr]…]]…], "root":addr,
                   "threads":[{"ev":[[token,value]…], "ops":[["bind",addr]|["push",[index…],value]|["read"]|["yield"]…],
                               "alone":[token…]}…],
                   "schedule":[tid…]|null}
         and   "impl":{…, "reads":[[token…]|null…], "lits":[[token…],[token…]], "spec_same":bool}
  (the literal as an object heap: nested, shared, cyclic; what each call does with the value it
  receives).  The model (`Glom/Model/C20Arg.lean`: `_ArgValuator.mode` on the heap, the calls run under
  the schedule at yield-point granularity) must read what the implementation read, and the
  observation must pass `Arg.checkArg` against what the calls read alone; when the literal is flat
  the by-value reference `Arg.privRun` must agree with what the calls read alone, too.
  "spec_same" (all shared-spec cases): repr of the shared spec object after the calls == before.

  Nested / re-entry cases carry the HISTORY OF THE ERROR OBJECTS as the harness saw it
         "errhist":{"ops":[["render",e,text|null] | ["ucopy",src,dst,"carry"|"fresh"] |
                           ["exit",lvl,e,out,"same"|"copy"|"wrap",class]…],
                    "ref":[[lvl,call index]…]}
  (e / src / dst / out: object identities in first-seen order; lvl: the glom() calls that ended with
  an error, numbered in the order they ended; text: what the user's render returned, normalised like
  the outcomes; "ref": which call of "threads" the glom() call lvl is — its "alone" outcome is the
  message every render of its error must show).  The model (`Glom/Model/C20Err.lean`, with the
  caches the CURRENT source has: extracted facts) replays the history; renders to which it gives
  the same message term of a FINALIZED error must have returned the same string, and plain / full
  must agree; the observation must pass `ErrM.checkErrHist`.
-/
namespace Glom.C20.Driver
open Lean Glom.C20

def arr (j : Json) : Except String (List Json) :=
  match j with
  | .arr a => .ok a.toList
  | _ => .error s!"expected array, got {j.compress}"

def outOfJson (j : Json) : Except String Out := do
  if let .ok v := j.getObjValAs? String "val" then return .val v
  match ← arr (← j.getObjVal? "err") with
  | [.str c, .str t] => return .err c t
  | _ => throw s!"bad Out {j.compress}"

def outToJson : Out → Json
  | .val v => Json.mkObj [("val", v)]
  | .err c t => Json.mkObj [("err", Json.arr #[c, t])]

inductive Event where
  | parse (t : String)
  | handler (key : TKey) (h : Option String) (raiseExc : Bool)
  | user (f : String)
  | nested (evs : List Event) (out : Out)

partial def eventOfJson (j : Json) : Except String Event := do
  match ← arr j with
  | [.str "parse", .str t] => return .parse t
  | [.str "handler", .str ty, .str op, .str h, .bool re] => return .handler (ty, op) (some h) re
  | [.str "handler", .str ty, .str op, .null, .bool re] => return .handler (ty, op) none re
  | [.str "user", .str f] => return .user f
  | [.str "nested", evs, out] => return .nested (← (← arr evs).mapM eventOfJson) (← outOfJson out)
  | _ => throw s!"bad event {j.compress}"

instance : Inhabited Ev := ⟨.ret default⟩

/-- what the logged lookup returned when the call ran alone -/
def loggedHRes (h : Option String) (raiseExc : Bool) : HRes :=
  match h with
  | some x => .found x
  | none => if raiseExc then .unregistered else .noHandler

/-- the evaluation a log of shared accesses stands for: the call goes on as logged as long as every
    shared access gives it what it gave when the call ran alone; an access that gives it something
    else (another path, `False` instead of `UnregisteredTarget`, a KeyError) makes the MODEL's call end
    differently from the alone outcome (`ModelDiverged`) -/
partial def evOf : List Event → Out → Ev
  | [], o => .ret o
  | .parse t :: r, o => .parse t fun res => match res with
    | .ok p => if p == create t then evOf r o else .ret (.err "ModelDiverged" s!"parse of {t}")
    | .error e => .ret (.err e "cache lookup failed")
  | .handler key h re :: r, o => .handler key re fun res => match res with
    | .ok x => if x == loggedHRes h re then evOf r o else .ret (.err "ModelDiverged" s!"handler lookup {key.1}:{key.2}")
    | .error e => .ret (.err e "type cache lookup failed")
  | .user f :: r, o => .user f (evOf r o)
  | .nested evs io :: r, o => .nested (evOf evs io) fun _ => evOf r o

partial def regOf : List Event → List (TKey × String)
  | [] => []
  | .handler key (some h) _ :: r => (key, h) :: regOf r
  | .nested evs _ :: r => regOf evs ++ regOf r
  | _ :: r => regOf r

partial def countUser : List Event → Nat
  | [] => 0
  | .user _ :: r => 1 + countUser r
  | .nested evs _ :: r => countUser evs + countUser r
  | _ :: r => countUser r

partial def rspecOfJson (j : Json) : Except String Re.RSpec := do
  match ← arr j with
  | [.str "pure"] => return .pure 0
  | [.str "leaf", lab, r] =>
    let l ← lab.getNat?
    match ← arr r with
    | [.str "ok"] => return .leaf l (.ok 0)
    | [.str "err", id] => return .leaf l (.error (.raised (← id.getNat?)))
    | _ => throw s!"bad leaf outcome {r.compress}"
  | [.str "sub", lab, c] => return .sub (← lab.getNat?) (← rspecOfJson c)
  | [.str "coal", lab, c] => return .coal (← lab.getNat?) (← rspecOfJson c)
  | [.str "both", x, y] => return .both (← rspecOfJson x) (← rspecOfJson y)
  | [.str "orElse", x, y] => return .orElse (← rspecOfJson x) (← rspecOfJson y)
  | [.str "andThen", x, y] => return .andThen (← rspecOfJson x) (← rspecOfJson y)
  | [.str "reent", lab, .str how, i, a] =>
    let h : Re.How ← (match how with
      | "isolated" => pure Re.How.isolated
      | "spec" => pure (Re.How.handed (resetsOf genFacts.specGlomResets))
      | "kw" => pure (Re.How.handed (resetsOf genFacts.glomResets))
      | _ => throw s!"bad how {how}")
    return .reent (← lab.getNat?) h (← rspecOfJson i) (← rspecOfJson a)
  | _ => throw s!"bad rspec {j.compress}"

def take24 (s : String) : String := String.ofList (s.toList.take 24)

def errClass (errs : List (Nat × String)) : Re.Err → String
  | .raised id => (dlookup id errs).getD "?"
  | .coalesce _ => "CoalesceError"
  | .indexError => "IndexError"

/-- a trace line as the harness reads it off the rendered text: depth, kind, the first characters
    of the spec's repr (the implementation truncates long ones) / the class of the error -/
def skelLine (labels : List String) (errs : List (Nat × String)) (x : Nat × Re.Line) : Nat × String × String :=
  match x.2 with
  | .spec l => (x.1, "S", take24 ((labels[l]?).getD "?"))
  | .branching l => (x.1, "S", take24 ((labels[l]?).getD "?"))   -- `+` is not always legible in the text
  | .error e => (x.1, "X", errClass errs e)

def sortStrs (xs : List String) : List String := (xs.toArray.qsort (· < ·)).toList

def dedup (xs : List String) : List String :=
  xs.foldl (fun acc x => if acc.contains x then acc else acc ++ [x]) []

/-! ### calls sharing a spec with a container literal in argument position -/

def strs (j : Json) : Except String (List String) := do (← arr j).mapM fun x => x.getStr?

def kindOfStr : String → Except String Arg.Kind
  | "list" => pure .list | "dict" => pure .dict | "set" => pure .set | "tuple" => pure .tuple
  | "frozenset" => pure .frozenset | k => throw s!"bad kind {k}"

def valOfJson (j : Json) : Except String Arg.Val := do
  match ← arr j with
  | [.str "leaf", .str s] => return .leaf s
  | [.str "ref", a] => return .ref (← a.getNat?)
  | _ => throw s!"bad value {j.compress}"

def opOfJson (j : Json) : Except String Arg.Op := do
  match ← arr j with
  | [.str "bind", a] => return .bind (.ref (← a.getNat?))
  | [.str "bindraw", a] => return .bindRaw (.ref (← a.getNat?))
  | [.str "push", p, .str x] => return .push (← (← arr p).mapM fun i => i.getNat?) x
  | [.str "read"] => return .read
  | [.str "yield"] => return .yield
  | _ => throw s!"bad op {j.compress}"

def argFuel : Nat := 8

/-- (model agrees with the implementation, the observation passes `checkArg`, report) -/
def runArg (aj impl : Json) : Except String (Bool × Bool × Json) := do
  let heap : Arg.Heap ← (← arr (← aj.getObjVal? "heap")).mapM fun oj => do
    match ← arr oj with
    | [.str k, items] => return ⟨← kindOfStr k, ← (← arr items).mapM valOfJson⟩
    | _ => throw s!"bad object {oj.compress}"
  let root := Arg.Val.ref (← (← aj.getObjVal? "root").getNat?)
  let tjs ← arr (← aj.getObjVal? "threads")
  let threads ← tjs.mapM fun tj => do
    let table ← (← arr (← tj.getObjVal? "ev")).mapM fun e => do
      match ← arr e with
      | [.str k, .str v] => return (k, v)
      | _ => throw s!"bad ev entry {e.compress}"
    let ops ← (← arr (← tj.getObjVal? "ops")).mapM opOfJson
    return ({ ev := fun s => (dlookup s table).getD s, ops := ops } : Arg.Thread)
  let alone ← tjs.mapM fun tj => do strs (← tj.getObjVal? "alone")
  let nYields (t : Arg.Thread) : Nat := (t.ops.filter fun o => match o with | .yield => true | _ => false).length
  let schedule : List Nat ← (match ← aj.getObjVal? "schedule" with
    | .arr a => a.toList.mapM (fun x => x.getNat?)
    | .null => pure ((List.range threads.length).flatMap fun i =>
        List.replicate ((threads[i]?.map nYields).getD 0 + 1) i)
    | x => throw s!"bad schedule {x.compress}")
  let sys := (Arg.Sys.mk heap threads).runSegments false argFuel 10000 schedule
  let finished := sys.threads.all fun t => t.ops.isEmpty
  let mReads := sys.threads.map Arg.lastRead
  let mBefore := Arg.tokens heap argFuel root
  let mAfter := Arg.tokens sys.heap argFuel root
  let iReads ← (← arr (← impl.getObjVal? "reads")).mapM fun r => match r with
    | .null => pure ["<no value>"]
    | r => strs r
  let (iBefore, iAfter) ← (match ← arr (← impl.getObjVal? "lits") with
    | [b, a] => do pure (← strs b, ← strs a)
    | _ => throw "bad lits")
  -- the by-value reference, where it speaks (flat literal, pushes into the container itself)
  let flat := threads.all fun t => t.ops.all (Arg.flatOpB heap)
  let refReads := threads.map fun t => (Arg.privRun t.ev heap t.ops {}).out.getLast?.getD []
  let refOk := !flat || refReads == alone
  let agree := finished && mReads == iReads && mBefore == iBefore && mAfter == iAfter && refOk
  let holds := Arg.checkArg alone ⟨iReads, [iBefore], [iAfter]⟩
  return (agree, holds, Json.mkObj [("reads", toJson mReads), ("lit_before", toJson mBefore), ("lit_after", toJson mAfter),
    ("flat", flat), ("reference", toJson refReads)])

/-! ### the history of the error objects -/

def errOpOfJson (j : Json) : Except String (ErrM.Op × Option (Option String)) := do
  match ← arr j with
  | [.str "render", e, .str t] => return (.render (← e.getNat?), some (some t))
  | [.str "render", e, .null] => return (.render (← e.getNat?), some none)
  | [.str "ucopy", a, b, .str k] =>
    return (.ucopy (← a.getNat?) (← b.getNat?) (if k == "fresh" then .fresh else .carry), none)
  | [.str "exit", l, e, o, .str k, .str cls] =>
    let kind : ErrM.ExitKind := match k with
      | "same" => .same
      | "wrap" => .copy .fresh                                   -- `GlomError.wrap(e)`: a new wrapper object
      | _ => .copy (if genErrFacts.freshCopy cls then .fresh else .carry)
    return (.exit (← l.getNat?) (← e.getNat?) (← o.getNat?) kind, none)
  | _ => throw s!"bad error op {j.compress}"

def isFullText (s : String) : Bool := s.startsWith "error raised while processing"

/-- (model agrees with the implementation, the observation passes `checkErrHist`, report) -/
def runErrHist (hj : Json) (alone : List Out) : Except String (Bool × Bool × Json) := do
  let decoded ← (← arr (← hj.getObjVal? "ops")).mapM errOpOfJson
  let ops := decoded.map (·.1)
  let iTexts : List (Option String) := decoded.filterMap (·.2)
  let refTab ← (← arr (← hj.getObjVal? "ref")).mapM fun e => do
    match ← arr e with
    | [l, c] => return (← l.getNat?, ← c.getNat?)
    | _ => throw s!"bad ref entry {e.compress}"
  let aloneText (l : Nat) : Option String :=
    match (dlookup l refTab).bind (fun c => alone[c]?) with
    | some (.err _ t) => some t
    | _ => none
  let inDomain := ErrM.opsOK ops ⟨ErrM.RHeap.init, [], []⟩ []
  let mTexts := (ErrM.run genErrFacts.cfg ops ⟨ErrM.Heap.init, []⟩).texts
  let pairs := mTexts.zip iTexts
  -- renders with the same message term returned the same string; plain / full as the model says.
  -- (Only for finalized errors: the message of an error that is NOT finalized is `get_message()`, and
  -- that of a CoalesceError / CheckError of the RUNNING call reads the live `scope[Path]` list, which
  -- later chain steps of the same call extend in place — it is not a function of the history of the
  -- error object, and no other call is involved.)
  let isFull : ErrM.Text → Bool := fun t => match t with | .full _ _ _ _ => true | _ => false
  let sameOk := pairs.all fun p => pairs.all fun q =>
    match p.2, q.2 with
    | some a, some b => !(p.1 == q.1) || !isFull p.1 || a == b
    | _, _ => true
  let kindOk := pairs.all fun p =>
    match p.1, p.2 with
    | .plain _, some a => !isFullText a
    | .full _ _ _ _, some a => isFullText a
    | _, _ => true
  let agree := !inDomain || (mTexts.length == iTexts.length && sameOk && kindOk)
  let holds := ErrM.checkErrHist ops iTexts aloneText
  return (agree, holds, Json.mkObj [("in_domain", inDomain), ("renders", toJson (mTexts.map fun t => reprStr t)),
    ("levels", toJson ((ErrM.renderLevels ops ⟨ErrM.RHeap.init, [], []⟩).map fun l => l.getD 0))])

def run (j : Json) : Except String Json := do
  let max := genFacts.maxCache
  let tjs ← arr (← j.getObjVal? "threads")
  let threads ← tjs.mapM fun tj => do
    let evs ← (← arr (← tj.getObjVal? "events")).mapM eventOfJson
    let alone ← outOfJson (← tj.getObjVal? "alone")
    return (evs, alone)
  let regTable := (threads.map (fun t => regOf t.1)).flatten
  let reg : Reg := fun key => dlookup key regTable
  let progs := threads.map fun t => compile max reg (evOf t.1 t.2)
  let alone := threads.map (·.2)
  -- (`null`: free-running or a single outer call: any order will do for the model, by `c20_noninterference`)
  let schedule : List Nat ← (match ← j.getObjVal? "schedule" with
    | .arr a => a.toList.mapM (fun x => x.getNat?)
    | .null => pure ((List.range threads.length).flatMap fun i =>
        List.replicate ((threads[i]?.map (fun t => countUser t.1)).getD 0 + 1) i)
    | x => throw s!"bad schedule {x.compress}")
  let sys0 : Sys := ⟨{}, progs⟩
  let sys := sys0.runSegments 100000 schedule
  let mOuts := sys.threads.map fun p => match p with
    | .done o => outToJson o
    | _ => Json.str "unfinished"
  let impl ← j.getObjVal? "impl"
  let iOuts ← (← arr (← impl.getObjVal? "outs")).mapM outOfJson
  let pc ← (← arr (← impl.getObjVal? "pcache")).mapM fun e => do
    match ← arr e with
    | [.str t, .str c, .str f] => return (t, c, f)
    | _ => throw s!"bad pcache entry {e.compress}"
  let tc ← (← arr (← impl.getObjVal? "tcache")).mapM fun e => do
    match ← arr e with
    | [.str ty, .str op, .str c, .str f] => return ((ty, op), c, f)
    | _ => throw s!"bad tcache entry {e.compress}"
  -- every field is required; `null` says "does not apply to this mode" (the harness says so, it is not a default)
  let mode ← j.getObjValAs? String "mode"
  let deadlock ← impl.getObjValAs? Bool "deadlock"
  let specSame ← (match ← impl.getObjVal? "spec_same" with
    | .bool b => pure b
    | .null => if mode == "shared" then throw "spec_same is required in mode shared" else pure true
    | x => throw s!"bad spec_same {x.compress}")
  let obs : Obs := ⟨iOuts, pc, tc, deadlock, specSame⟩
  let (argAgree, argHolds, argModel) ← (match ← j.getObjVal? "argsys" with
    | .null => pure (true, true, Json.null)
    | aj => runArg aj impl)
  let (errAgree, errHolds, errModel) ← (match ← j.getObjVal? "errhist" with
    | .null => if mode == "nested" || mode == "reent" then throw s!"errhist is required in mode {mode}"
               else pure (true, true, Json.null)
    | hj => runErrHist hj alone)
  let holds := checkC20 alone obs && argHolds && errHolds
  let mPaths := sortStrs (sys.sh.pathCache.map (·.1))
  let iPaths := sortStrs (pc.map (·.1))
  let mTypes := sortStrs (dedup (sys.sh.typeCache.map fun e => e.1.1 ++ ":" ++ e.1.2))
  let iTypes := sortStrs (dedup (tc.map fun e => e.1.1 ++ ":" ++ e.1.2))
  let finished := sys.threads.all fun p => match p with | .done _ => true | _ => false
  let mOutsV := sys.threads.filterMap fun p => match p with | .done o => some o | _ => none
  -- the model of the error bookkeeping, for the re-entry cases it can express
  let (reAgree, reModel) ← (match ← j.getObjVal? "rspec" with
    | .null => pure (true, Json.null)
    | rj => do
      let spec ← rspecOfJson (← rj.getObjVal? "spec")
      let labels ← (← arr (← rj.getObjVal? "labels")).mapM fun x => x.getStr?
      let errs ← (← arr (← rj.getObjVal? "errs")).mapM fun e => do
        match ← arr e with
        | [id, .str c] => return (← id.getNat?, c)
        | _ => throw s!"bad errs entry {e.compress}"
      let iSkel ← (match ← impl.getObjVal? "skeleton" with
        | .arr a => a.toList.mapM fun l => do
          match ← arr l with
          | [d, .str k, .str t] => return (← d.getNat?, k, if k == "X" then t else take24 t)
          | _ => throw s!"bad skeleton line {l.compress}"
        | .null => (match iOuts.head? with
          | some (.err _ _) => throw "skeleton is required when the modelled call failed"
          | _ => pure [])
        | x => throw s!"bad skeleton {x.compress}")
      match Re.runCall spec, iOuts.head? with
      | .val _, some (.val _) => pure (true, Json.mkObj [("outcome", "value")])
      | .err e tr, some (.err c _) =>
        let mSkel := tr.map (skelLine labels errs)
        let mj := Json.arr (mSkel.map fun (d, k, t) => Json.arr #[toJson d, k, t]).toArray
        pure (errClass errs e == c && mSkel == iSkel, Json.mkObj [("outcome", errClass errs e), ("skeleton", mj)])
      | .val _, _ => pure (false, Json.mkObj [("outcome", "value")])
      | .err e _, _ => pure (false, Json.mkObj [("outcome", errClass errs e)]))
  let agree := finished && mOutsV == iOuts && mPaths == iPaths && mTypes == iTypes && !deadlock && reAgree && argAgree
    && specSame && errAgree
  let present (k : String) : Bool := match j.getObjVal? k with | .ok .null => false | .ok _ => true | .error _ => false
  let nYield := (threads.map (fun t => countUser t.1)).foldl (· + ·) 0
  let anyErr := alone.any fun o => match o with | .err _ _ => true | _ => false
  let shape := if threads.any (fun t => t.1.any fun e => match e with | .nested _ _ => true | _ => false)
    then (if present "rspec" then "reentry-modelled" else "nested")
    else if present "argsys" then
      (if present "schedule" then "shared-argument-scheduled" else "shared-argument")
    else if present "schedule" then "scheduled" else "free"
  -- did user code render an error that an enclosing call then re-finalized?
  let errTag := match j.getObjVal? "errhist" with
    | .ok .null => ""
    | .ok hj => (match (hj.getObjVal? "ops").bind arr with
      | .ok opsj =>
        let kinds : List String := opsj.filterMap fun (o : Json) => match o with
          | Json.arr a => (a[0]?).bind (fun x => x.getStr?.toOption)
          | _ => none
        let lastExit : Option Nat := (kinds.zipIdx.filter (fun (p : String × Nat) => p.1 == "exit")).getLast?.map (fun (p : String × Nat) => p.2)
        let inflight := match lastExit with
          | some i => (kinds.take i).contains "render"
          | none => false
        if inflight then "-inflight-render" else if kinds.contains "exit" then "-errhist" else ""
      | .error _ => "")
    | .error _ => ""
  return Json.mkObj [("agree", agree), ("holds", holds),
    ("model", Json.mkObj [("outs", Json.arr mOuts.toArray), ("paths", toJson mPaths), ("types", toJson mTypes),
      ("reentry", reModel), ("argsys", argModel), ("errhist", errModel)]),
    ("branch", s!"{shape}-{threads.length}threads-{if anyErr then "with-error" else "all-ok"}{errTag}"),
    ("yields", nYield),
    ("why", if holds then "" else if deadlock then "deadlock" else if iOuts != alone then "a call's outcome differs from its outcome alone"
      else if !specSame then "the spec object the calls share is not what it was before them"
      else if !argHolds then "a call read something else than alone through a shared argument, or the literal in the spec changed"
      else if !errHolds then "a render of a call's error (inside the callable, further up, later, again) read another message than that call's error shows alone"
      else "a cache entry differs from a fresh parse / lookup")]

end Glom.C20.Driver
