import Lean.Data.Json
import Glom.Model.C20Env
/-
  C20 driver: one JSON case in, one JSON verdict out.

  case: {"threads":[{"events":[["parse",text] | ["handler",type,op,handler|null] | ["user",name] |
                               ["nested",[events…],Out]…], "alone":Out}…],
         "schedule":[tid…]            -- one entry per segment (run thread tid up to its next yield point);
                                      -- absent/null: free-running or nested-only (any order)
         "impl":{"outs":[Out…], "pcache":[[text,cached,fresh]…], "tcache":[[type,op,cached,fresh]…],
                 "deadlock":bool}}
  Out = {"val":str} | {"err":[cls,text]}
  The events of a call are the shared-state accesses logged while the call ran alone.
-/
namespace Glom.C20.Driver
open Lean Glom.C20

def arr (j : Json) : Except String (List Json) :=
  match j with
  | .arr a => .ok a.toList
  | _ => .error s!"expected array, got {j.compress}"

def outOfJson (j : Json) : Except String Out := do
  if let .ok v := j.getObjValAs? String "val" then return .val v
  match ← arr (← j.getObjVal? "err") with
  | [.str c, .str t] => return .err c t
  | _ => throw s!"bad Out {j.compress}"

def outToJson : Out → Json
  | .val v => Json.mkObj [("val", v)]
  | .err c t => Json.mkObj [("err", Json.arr #[c, t])]

inductive Event where
  | parse (t : String)
  | handler (key : TKey) (h : Option String)
  | user (f : String)
  | nested (evs : List Event) (out : Out)

partial def eventOfJson (j : Json) : Except String Event := do
  match ← arr j with
  | [.str "parse", .str t] => return .parse t
  | [.str "handler", .str ty, .str op, .str h] => return .handler (ty, op) (some h)
  | [.str "handler", .str ty, .str op, .null] => return .handler (ty, op) none
  | [.str "user", .str f] => return .user f
  | [.str "nested", evs, out] => return .nested (← (← arr evs).mapM eventOfJson) (← outOfJson out)
  | _ => throw s!"bad event {j.compress}"

instance : Inhabited Ev := ⟨.ret default⟩

/-- the evaluation a log of shared accesses stands for; a failing cache lookup (which the
    theorems exclude) would surface as the KeyError it is -/
partial def evOf : List Event → Out → Ev
  | [], o => .ret o
  | .parse t :: r, o => .parse t fun res => match res with
    | .ok _ => evOf r o
    | .error e => .ret (.err e "cache lookup failed")
  | .handler key _ :: r, o => .handler key fun res => match res with
    | .ok _ => evOf r o
    | .error e => .ret (.err e "type cache lookup failed")
  | .user f :: r, o => .user f (evOf r o)
  | .nested evs io :: r, o => .nested (evOf evs io) fun _ => evOf r o

partial def regOf : List Event → List (TKey × String)
  | [] => []
  | .handler key (some h) :: r => (key, h) :: regOf r
  | .nested evs _ :: r => regOf evs ++ regOf r
  | _ :: r => regOf r

partial def countUser : List Event → Nat
  | [] => 0
  | .user _ :: r => 1 + countUser r
  | .nested evs _ :: r => countUser evs + countUser r
  | _ :: r => countUser r

def sortStrs (xs : List String) : List String := (xs.toArray.qsort (· < ·)).toList

def dedup (xs : List String) : List String :=
  xs.foldl (fun acc x => if acc.contains x then acc else acc ++ [x]) []

def run (j : Json) : Except String Json := do
  let max := genFacts.maxCache
  let tjs ← arr (← j.getObjVal? "threads")
  let threads ← tjs.mapM fun tj => do
    let evs ← (← arr (← tj.getObjVal? "events")).mapM eventOfJson
    let alone ← outOfJson (← tj.getObjVal? "alone")
    return (evs, alone)
  let regTable := (threads.map (fun t => regOf t.1)).flatten
  let reg : Reg := fun key => dlookup key regTable
  let progs := threads.map fun t => compile max reg (evOf t.1 t.2)
  let alone := threads.map (·.2)
  let schedule : List Nat ← (match j.getObjVal? "schedule" with
    | .ok (.arr a) => a.toList.mapM (fun x => x.getNat?)
    | _ => pure ((List.range threads.length).flatMap fun i =>
        List.replicate ((threads[i]?.map (fun t => countUser t.1)).getD 0 + 1) i))
  let sys0 : Sys := ⟨{}, progs⟩
  let sys := sys0.runSegments 100000 schedule
  let mOuts := sys.threads.map fun p => match p with
    | .done o => outToJson o
    | _ => Json.str "unfinished"
  let impl ← j.getObjVal? "impl"
  let iOuts ← (← arr (← impl.getObjVal? "outs")).mapM outOfJson
  let pc ← (← arr (← impl.getObjVal? "pcache")).mapM fun e => do
    match ← arr e with
    | [.str t, .str c, .str f] => return (t, c, f)
    | _ => throw s!"bad pcache entry {e.compress}"
  let tc ← (← arr (← impl.getObjVal? "tcache")).mapM fun e => do
    match ← arr e with
    | [.str ty, .str op, .str c, .str f] => return ((ty, op), c, f)
    | _ => throw s!"bad tcache entry {e.compress}"
  let deadlock := (impl.getObjValAs? Bool "deadlock").toOption.getD false
  let obs : Obs := ⟨iOuts, pc, tc, deadlock⟩
  let holds := checkC20 alone obs
  let mPaths := sortStrs (sys.sh.pathCache.map (·.1))
  let iPaths := sortStrs (pc.map (·.1))
  let mTypes := sortStrs (dedup (sys.sh.typeCache.map fun e => e.1.1 ++ ":" ++ e.1.2))
  let iTypes := sortStrs (dedup (tc.map fun e => e.1.1 ++ ":" ++ e.1.2))
  let finished := sys.threads.all fun p => match p with | .done _ => true | _ => false
  let mOutsV := sys.threads.filterMap fun p => match p with | .done o => some o | _ => none
  let agree := finished && mOutsV == iOuts && mPaths == iPaths && mTypes == iTypes && !deadlock
  let nYield := (threads.map (fun t => countUser t.1)).foldl (· + ·) 0
  let anyErr := alone.any fun o => match o with | .err _ _ => true | _ => false
  let shape := if threads.any (fun t => t.1.any fun e => match e with | .nested _ _ => true | _ => false)
    then "nested" else if (j.getObjVal? "schedule").toOption.isSome then "scheduled" else "free"
  return Json.mkObj [("agree", agree), ("holds", holds),
    ("model", Json.mkObj [("outs", Json.arr mOuts.toArray), ("paths", toJson mPaths), ("types", toJson mTypes)]),
    ("branch", s!"{shape}-{threads.length}threads-{if anyErr then "with-error" else "all-ok"}"),
    ("yields", nYield),
    ("why", if holds then "" else if deadlock then "deadlock" else if iOuts != alone then "a call's outcome differs from its outcome alone" else "a cache entry differs from a fresh parse / lookup")]

end Glom.C20.Driver
