import Glom.Py.Json
import Glom.Spec.C11
import Glom.Model.C11Env
/-
  C11 driver: one JSON case in, one JSON verdict out.

  case: {"classes":[[cls,[mro…]]…], "cflags":[[cls,[flag…]]…], "heap":[Obj…], "target":Val,
         "scope": Val|null,  "root": "T"|"S",
         "spelling": {"text":"a.b"} | {"parts":[{"seg":Val} | {"t":[[op,Val]…]}…]},
         "value": {"lit":Val} | {"t":[[op,Val]…]},
         "missing": null | "dict" | "list" | "obj" | "tuple" | "raise",
         "readback": null | {"spelling": …}     (chain mode: `(Assign(…), <peek>, readPath)`, same root),
         "impl": {"res": {"ok":Val} | {"err":{"cls":…,"inner":…|null,"idx":…|null,"dest":Val|null,
                                               "pae":b,"passign":b,"pdelete":b,"glom":b}},
                  "heap":[Obj…], "calls":n, "hidden":b,
                  "read": null | "notrun" | {"ok":Nest} | {"err":{…}},   Nest: {"v":Val} | {"l":[Nest…]}
                  "frame_seen": b   (S-rooted: was the scope frame observed from a later chain step?
                                     if not, the Scope cell of "heap" carries no information),
                  "scope_kept": b   (the mapping handed to glom(scope=…) is exactly as it was)}}
-/
namespace Glom.C11.Driver
open Lean Glom Glom.Mut Glom.C11

def stepOfJson (j : Json) : Except String Step := pairOfJson strOfJson valOfJson j

def partOfJson (j : Json) : Except String C01.Part := do
  if let .ok v := j.getObjVal? "seg" then return .seg (← valOfJson v)
  else if let .ok t := j.getObjVal? "t" then return .t (← listOfJson stepOfJson t)
  else throw s!"bad part {j.compress}"

def stepsOfSpelling (sp : Json) : Except String (List Step) := do
  if let .ok t := sp.getObjValAs? String "text" then return C01.stepsOfParts (C01.partsOfText t.toList)
  else return C01.stepsOfParts (← listOfJson partOfJson (← sp.getObjVal? "parts"))

def optOf {α} (f : Json → Except String α) (j : Json) : Except String (Option α) :=
  match j with
  | .null => pure none
  | _ => do return some (← f j)

def obsResOfJson (j : Json) : Except String ObsRes := do
  if let .ok v := j.getObjVal? "ok" then return .ok (← valOfJson v)
  else
    let e ← j.getObjVal? "err"
    -- `dest` is a Val whose JSON for None is null: wrapped as {"v": Val} | null
    let dest ← match e.getObjVal? "dest" with
      | .ok .null => pure none
      | .ok d => do pure (some (← valOfJson (← d.getObjVal? "v")))
      | .error _ => pure none
    return .err (← e.getObjValAs? String "cls")
      (← optOf strOfJson ((e.getObjVal? "inner").toOption.getD .null))
      (← optOf natOfJson ((e.getObjVal? "idx").toOption.getD .null))
      dest
      (← e.getObjValAs? Bool "pae") (← e.getObjValAs? Bool "passign")
      (← e.getObjValAs? Bool "pdelete") (← e.getObjValAs? Bool "glom")

def obsOfJson (j : Json) : Except String Obs := do
  return { res := ← obsResOfJson (← j.getObjVal? "res")
           heap := ← heapOfJson (← j.getObjVal? "heap")
           calls := ← j.getObjValAs? Nat "calls"
           hidden := ← j.getObjValAs? Bool "hidden" }

partial def nestOfJson (j : Json) : Except String Nest := do
  if let .ok v := j.getObjVal? "v" then return .leaf (← valOfJson v)
  else if let .ok (.arr a) := j.getObjVal? "l" then return .node (← a.toList.mapM nestOfJson)
  else throw s!"bad Nest {j.compress}"

partial def nestToJson : Nest → Json
  | .leaf v => Json.mkObj [("v", valToJson v)]
  | .node xs => Json.mkObj [("l", Json.arr (xs.map nestToJson).toArray)]

def readObsOfJson (j : Json) : Except String ReadObs := do
  match j with
  | .str _ => return .notRun
  | _ =>
    if let .ok n := j.getObjVal? "ok" then return .ok (← nestOfJson n)
    else return .err (← obsResOfJson j)

def optToJson {α} (f : α → Json) : Option α → Json
  | some a => f a
  | none => .null

def obsResToJson : ObsRes → Json
  | .ok v => Json.mkObj [("ok", valToJson v)]
  | .err c inner idx dest pae pa pd g => Json.mkObj [("err", Json.mkObj [
      ("cls", c), ("inner", optToJson Json.str inner), ("idx", optToJson (fun (n : Nat) => toJson n) idx),
      ("dest", optToJson (fun v => Json.mkObj [("v", valToJson v)]) dest),
      ("pae", pae), ("passign", pa), ("pdelete", pd), ("glom", g)])]

def readObsToJson : ReadObs → Json
  | .notRun => Json.str "notrun"
  | .ok n => Json.mkObj [("ok", nestToJson n)]
  | .err e => obsResToJson e

/-- the Scope cell of an observation that could not see the frame is taken from `src` -/
def patchCell (hp : Heap) (a : Val) (src : Heap) : Heap :=
  match a with
  | .ref i => (match src[i]? with | some o => hp.set i o | none => hp)
  | _ => hp

def obsToJson (o : Obs) : Json :=
  Json.mkObj [("res", obsResToJson o.res), ("heap", heapToJson o.heap), ("calls", o.calls),
    ("hidden", o.hidden)]

def missingOfJson (j : Json) : Except String Missing :=
  match j with
  | .null => pure .none
  | .str k => pure (.factory k)
  | _ => throw s!"bad missing {j.compress}"

def valSpecOfJson (j : Json) : Except String ValSpec := do
  if let .ok v := j.getObjVal? "lit" then return .lit (← valOfJson v)
  else return .path (← listOfJson stepOfJson (← j.getObjVal? "t"))

def flagsOfJson (j : Json) : Except String (List (String × List String)) :=
  listOfJson (pairOfJson strOfJson (listOfJson strOfJson)) j

structure Common where
  env : MEnv
  heap : Heap
  target : Val
  sroot : Bool
  sref : Val
  steps : List Step
  hasScope : Bool      -- the heap has a cell standing for the scope frame

def commonOfJson (j : Json) : Except String Common := do
  let classes ← classTableOfJson (← j.getObjVal? "classes")
  let flags ← flagsOfJson (← j.getObjVal? "cflags")
  let heap ← heapOfJson (← j.getObjVal? "heap")
  let target ← valOfJson (← j.getObjVal? "target")
  let root ← j.getObjValAs? String "root"
  let sref ← match j.getObjVal? "scope" with
    | .ok .null => pure Val.none
    | .ok v => valOfJson v
    | .error _ => pure Val.none
  let steps ← stepsOfSpelling (← j.getObjVal? "spelling")
  return { env := genEnv classes flags, heap, target, sroot := root == "S", sref, steps,
           hasScope := sref != Val.none }

def resTag : ObsRes → String
  | .ok _ => "ok"
  | .err c (some i) .. => s!"{c}({i})"
  | .err c none .. => c

def run (j : Json) : Except String Json := do
  let c ← commonOfJson j
  let vs ← valSpecOfJson (← j.getObjVal? "value")
  let missing ← missingOfJson ((j.getObjVal? "missing").toOption.getD .null)
  let implJ ← j.getObjVal? "impl"
  let implObs0 ← obsOfJson implJ
  let root := if c.sroot then c.sref else c.target
  -- chain mode: a later step of the same chain reads a path back
  let rd : Option (List Step) ← (match j.getObjVal? "readback" with
    | .ok .null => pure none
    | .ok r => do pure (some (← stepsOfSpelling (← r.getObjVal? "spelling")))
    | .error _ => pure none : Except String (Option (List Step)))
  let implRead : Option ReadObs ← (match implJ.getObjVal? "read" with
    | .ok .null => pure none
    | .ok r => do pure (some (← readObsOfJson r))
    | .error _ => pure none : Except String (Option ReadObs))
  let frameSeen := (implJ.getObjValAs? Bool "frame_seen").toOption.getD true
  let scopeKept := (implJ.getObjValAs? Bool "scope_kept").toOption.getD true
  -- `Assign.__init__`: the path it keeps (first step of an S-rooted path re-spelled per the extracted table)
  let kept := initPath (genSFirst "Assign") c.sroot c.steps
  let (out, rdOut) := match rd with
    | some rs => assignThenRead c.env c.sroot c.sref missing c.heap c.target kept vs rs
    | none => (assign c.env c.sroot c.sref missing c.heap c.target kept vs, none)
  let modelObs := observe c.env out
  let modelRead := observeRead c.env rdOut
  -- the prescription reads an S-rooted path the way such a path is evaluated: a first step spelled
  -- `S.name` / `Path(S, name)` means the scope variable (`_s_first_magic`) — also as a destination
  let refSteps := readSteps c.sroot c.steps
  let ref := refAssign c.env c.heap c.target root refSteps vs missing
  if ref == .unsupported || (match out.2 with | .error .unmodelled => true | _ => false) ||
      (match rdOut with | some (.error .unmodelled) => true | _ => false) then
    return Json.mkObj [("skip", true), ("why", "path outside the modelled domain (`**` / wildcard value)")]
  -- an S-rooted Assign that is the whole spec binds in a frame nothing can look into afterwards
  let unseen := c.hasScope && !frameSeen
  let implObsA := if unseen then { implObs0 with heap := patchCell implObs0.heap c.sref modelObs.heap } else implObs0
  let implObs := if unseen then
      (match ref with
       | .ok h' _ _ => { implObs0 with heap := patchCell implObs0.heap c.sref h' }
       | _ => implObs0)
    else implObs0
  let readAgree := match rd, implRead with
    | some _, some r => modelObs.hidden || ReadObs.beq modelRead r   -- a hidden attribute: outside the cells
    | none, none => true
    | _, _ => false
  let readHolds := match rd, implRead with
    | some rs, some r => checkRead c.env c.heap c.target root refSteps vs missing (readSteps c.sroot rs) r
    | none, none => true
    | _, _ => false
  let agree := modelObs == implObsA && readAgree
  let holds := checkC11 c.env c.heap c.target root refSteps vs missing implObs && readHolds && scopeKept
  let modelHolds := checkC11 c.env c.heap c.target root refSteps vs missing modelObs &&
    (match rd with
     | some rs => checkRead c.env c.heap c.target root refSteps vs missing (readSteps c.sroot rs) modelRead
     | none => true)
  let star := hasStar c.steps
  let cov := covered c.env c.heap c.target c.sroot c.steps vs missing
  let covStar := star && WF c.env && classesOK c.env && noScope c.env && wfStar c.steps && valWf vs &&
    !valUnsupported c.heap vs && (match missing with | .none => true | _ => out.1.calls == 0)
  let rdTag := match rd with
    | none => ""
    | some _ => (match modelRead with
      | .notRun => "read-notrun:" | .ok _ => "read-ok:" | .err e => s!"read-{resTag e}:")
  let branch := (if c.sroot then "S:" else "") ++ rdTag ++ (if star then "star:" else "") ++
    (if out.1.calls > 0 then s!"missing{out.1.calls}:" else "") ++ resTag modelObs.res ++
    (if cov then " [thm]" else if covStar then " [thm*]" else "")
  return Json.mkObj [("agree", agree), ("holds", holds), ("model_holds", modelHolds),
    ("wf", WF c.env), ("covered", cov || covStar), ("model", obsToJson modelObs),
    ("model_read", readObsToJson modelRead),
    ("why", if !scopeKept then "the mapping handed to glom(scope=…) was changed"
            else if !readHolds then "the read-back step does not see what the plain-Python assignment leaves"
            else ""),
    ("ref", match ref with
      | .ok _ hid n => s!"ok hidden={hid} calls={n}" | .fail a => s!"fail atomic={a}" | .unsupported => "unsupported"),
    ("branch", branch)]

end Glom.C11.Driver
