import Glom.Py.Json
import Glom.Spec.C11
import Glom.Model.C11Env
/-
  C11 driver: one JSON case in, one JSON verdict out.

  case: {"classes":[[cls,[mro…]]…], "cflags":[[cls,[flag…]]…], "heap":[Obj…], "target":Val,
         "scope": Val|null,  "root": "T"|"S",
         "spelling": {"text":"a.b"} | {"parts":[{"seg":Val} | {"t":[[op,Val]…]}…]},
         "value": {"lit":Val} | {"t":[[op,Val]…]},
         "missing": null | "dict" | "list" | "obj" | "tuple" | "raise",
         "readback": null | {"spelling": …}     (chain mode: `(Assign(…), <peek>, readPath)`, same root),
         "impl": {"res": {"ok":Val} | {"err":{"cls":…,"inner":…|null,"idx":…|null,"dest":Val|null,
                                               "pae":b,"passign":b,"pdelete":b,"glom":b}},
                  "heap":[Obj…], "calls":n, "hidden":b,
                  "read": null | "notrun" | {"ok":Nest} | {"err":{…}},   Nest: {"v":Val} | {"l":[Nest…]}
                  "frame_seen": b   (S-rooted: was the scope frame observed from a later chain step?
                                     if not, the Scope cell of "heap" carries no information),
                  "scope_kept": b   (the mapping handed to glom(scope=…) is exactly as it was)}}
-/
namespace Glom.C11.Driver
open Lean Glom Glom.Mut Glom.C11

def stepOfJson (j : Json) : Except String Step := pairOfJson strOfJson valOfJson j

def partOfJson (j : Json) : Except String C01.Part := do
  if let .ok v := j.getObjVal? "seg" then return .seg (← valOfJson v)
  else if let .ok t := j.getObjVal? "t" then return .t (← listOfJson stepOfJson t)
  else throw s!"bad part {j.compress}"

def stepsOfSpelling (sp : Json) : Except String (List Step) := do
  if let .ok t := sp.getObjValAs? String "text" then return C01.stepsOfParts (C01.partsOfText t.toList)
  else return C01.stepsOfParts (← listOfJson partOfJson (← sp.getObjVal? "parts"))

def optOf {α} (f : Json → Except String α) (j : Json) : Except String (Option α) :=
  match j with
  | .null => pure none
  | _ => do return some (← f j)

def obsResOfJson (j : Json) : Except String ObsRes := do
  if let .ok v := j.getObjVal? "ok" then return .ok (← valOfJson v)
  else
    let e ← j.getObjVal? "err"
    -- `dest` is a Val whose JSON for None is null: wrapped as {"v": Val} | null
    let dest ← match ← e.getObjVal? "dest" with
      | .null => pure none
      | d => do pure (some (← valOfJson (← d.getObjVal? "v")))
    return .err (← e.getObjValAs? String "cls")
      (← optOf strOfJson (← e.getObjVal? "inner"))
      (← optOf natOfJson (← e.getObjVal? "idx"))
      dest
      (← e.getObjValAs? Bool "pae") (← e.getObjValAs? Bool "passign")
      (← e.getObjValAs? Bool "pdelete") (← e.getObjValAs? Bool "glom")

def obsOfJson (j : Json) : Except String Obs := do
  return { res := ← obsResOfJson (← j.getObjVal? "res")
           heap := ← heapOfJson (← j.getObjVal? "heap")
           calls := ← j.getObjValAs? Nat "calls"
           hidden := ← j.getObjValAs? Bool "hidden" }

partial def nestOfJson (j : Json) : Except String Nest := do
  if let .ok v := j.getObjVal? "v" then return .leaf (← valOfJson v)
  else if let .ok (.arr a) := j.getObjVal? "l" then return .node (← a.toList.mapM nestOfJson)
  else throw s!"bad Nest {j.compress}"

partial def nestToJson : Nest → Json
  | .leaf v => Json.mkObj [("v", valToJson v)]
  | .node xs => Json.mkObj [("l", Json.arr (xs.map nestToJson).toArray)]

def readObsOfJson (j : Json) : Except String ReadObs := do
  match j with
  | .str "notrun" => return .notRun
  | .str s => throw s!"bad read observation {s}"
  | _ =>
    if let .ok n := j.getObjVal? "ok" then return .ok (← nestOfJson n)
    else return .err (← obsResOfJson j)

def optToJson {α} (f : α → Json) : Option α → Json
  | some a => f a
  | none => .null

def obsResToJson : ObsRes → Json
  | .ok v => Json.mkObj [("ok", valToJson v)]
  | .err c inner idx dest pae pa pd g => Json.mkObj [("err", Json.mkObj [
      ("cls", c), ("inner", optToJson Json.str inner), ("idx", optToJson (fun (n : Nat) => toJson n) idx),
      ("dest", optToJson (fun v => Json.mkObj [("v", valToJson v)]) dest),
      ("pae", pae), ("passign", pa), ("pdelete", pd), ("glom", g)])]

def readObsToJson : ReadObs → Json
  | .notRun => Json.str "notrun"
  | .ok n => Json.mkObj [("ok", nestToJson n)]
  | .err e => obsResToJson e

/-- the Scope cell of an observation that could not see the frame is taken from `src` -/
def patchCell (hp : Heap) (a : Val) (src : Heap) : Heap :=
  match a with
  | .ref i => (match src[i]? with | some o => hp.set i o | none => hp)
  | _ => hp

def obsToJson (o : Obs) : Json :=
  Json.mkObj [("res", obsResToJson o.res), ("heap", heapToJson o.heap), ("calls", o.calls),
    ("hidden", o.hidden)]

def missingOfJson (j : Json) : Except String Missing :=
  match j with
  | .null => pure .none
  | .str k => pure (.factory k)
  | _ => throw s!"bad missing {j.compress}"

def valSpecOfJson (j : Json) : Except String UVal := do
  if let .ok v := j.getObjVal? "lit" then return .lit (← valOfJson v)
  else if let .ok v := j.getObjVal? "val" then return .vs (.val (← valOfJson v))       -- `Val(x)`
  else if let .ok t := j.getObjVal? "text" then                                         -- `Spec('a.b')`
    return .vs (.path (C01.stepsOfParts (C01.partsOfText (← strOfJson t).toList)))
  else return .vs (.path (← listOfJson stepOfJson (← j.getObjVal? "t")))                 -- a T-expression / `Spec(T…)`

def reOfJson (j : Json) : Except String (Option Re) :=
  match j with
  | .null => pure none
  | _ => do
    return some { at_ := ← j.getObjValAs? Nat "at", target2 := ← valOfJson (← j.getObjVal? "target2"),
                  threads := ← j.getObjValAs? Bool "threads" }

def flagsOfJson (j : Json) : Except String (List (String × List String)) :=
  listOfJson (pairOfJson strOfJson (listOfJson strOfJson)) j

structure Common where
  env : MEnv
  heap : Heap
  target : Val
  sroot : Bool
  sref : Val
  steps : List Step
  hasScope : Bool      -- the heap has a cell standing for the scope frame
  hasUreg : Bool := false   -- the case made user registrations
  refEnv : MEnv              -- the environment of the prescription (registry-independent tables for the builtin kinds)

def commonOfJson (j : Json) : Except String Common := do
  let classes ← classTableOfJson (← j.getObjVal? "classes")
  let flags ← flagsOfJson (← j.getObjVal? "cflags")
  let heap ← heapOfJson (← j.getObjVal? "heap")
  let target ← valOfJson (← j.getObjVal? "target")
  let root ← j.getObjValAs? String "root"
  let sref ← match ← j.getObjVal? "scope" with
    | .null => pure Val.none
    | v => valOfJson v
  let steps ← stepsOfSpelling (← j.getObjVal? "spelling")
  let regOf := fun (u : Json) (k : String) => do
    listOfJson (pairOfJson strOfJson strOfJson) (← u.getObjVal? k)
  let ur : UReg ← (match ← j.getObjVal? "ureg" with
    | .null => pure {}
    | u => do pure { get := ← regOf u "get", assign := ← regOf u "assign", delete := ← regOf u "delete" }
    : Except String UReg)
  return { env := genEnv classes flags ur, refEnv := (genEnv classes flags ur).natural ur.assign ur.delete, heap, target, sroot := root == "S", sref, steps,
           hasScope := sref != Val.none,
           hasUreg := !(ur.get.isEmpty && ur.assign.isEmpty && ur.delete.isEmpty) }

def resTag : ObsRes → String
  | .ok _ => "ok"
  | .err c (some i) .. => s!"{c}({i})"
  | .err c none .. => c

/-- an observation with the cells created during the call renumbered canonically -/
def canonObs (n : Nat) (o : Obs) : Obs := { o with heap := canon n o.heap }

def canonRead (n : Nat) (hp : Heap) : ReadObs → ReadObs
  | .ok nst => .ok (renameNest n (newOrder n hp []) nst)
  | r => r

/-- two overlapping evaluations of one spec object -/
def runRe (c : Common) (uv : UVal) (kind : String) (re : Re) (implObs : Obs) : Except String Json := do
  let fuel := 4 * argFuel c.heap + 64
  let out := if re.threads then assignSeq c.env kind fuel re.target2 c.heap c.target c.steps uv
    else assignRe c.env kind fuel re.at_ re.target2 c.heap c.target c.steps uv
  let modelObs := observe c.env out
  let ref := refAssignRe c.refEnv fuel c.heap c.target c.steps uv kind re
  if (match ref with | .unsupported => true | _ => false) ||
      (match out.2 with | .error .unmodelled => true | _ => false) then
    return Json.mkObj [("skip", true), ("why", "overlapping evaluations outside the modelled domain")]
  let n := c.heap.length
  -- on failure the garbage of the two evaluations is not an observation
  let agree := modelObs.res == implObs.res && modelObs.calls == implObs.calls &&
    modelObs.hidden == implObs.hidden && canon n modelObs.heap == canon n implObs.heap
  let holds := checkC11Re c.refEnv fuel c.heap c.target c.steps uv kind re implObs
  let modelHolds := checkC11Re c.refEnv fuel c.heap c.target c.steps uv kind re modelObs
  let branch := (if re.threads then "threads:" else s!"reenter@{re.at_}:") ++
    (match ref with | .ok _ (some k) => s!"ok calls={k}" | .ok _ none => "ok (other evaluation raised)"
                    | .fail _ => "fail" | .unsupported => "unsupported") ++ "→" ++ resTag modelObs.res
  return Json.mkObj [("agree", agree), ("holds", holds), ("model_holds", modelHolds),
    ("wf", WF c.env), ("covered", false), ("model", obsToJson (canonObs n modelObs)),
    ("why", if holds then "" else "an evaluation of the shared spec did not do what it does alone (each record must hold its own value)"),
    ("ref", branch), ("branch", branch)]

def run (j : Json) : Except String Json := do
  let c ← commonOfJson j
  let uv ← valSpecOfJson (← j.getObjVal? "value")
  let missing ← missingOfJson (← j.getObjVal? "missing")
  let implJ ← j.getObjVal? "impl"
  let implObs0 ← obsOfJson implJ
  let re ← reOfJson (← j.getObjVal? "reenter")
  let tleafSafe0 := c.heap.all (fun o => match o with
    | .inst cl st => !c.env.flag cl "tleaf" || intSafe st
    | _ => true)
  if re.isSome && !(intSafe c.steps && (match uv with | .vs (.path s) => intSafe s | .vs _ => true | .lit _ => tleafSafe0)) then
    return Json.mkObj [("skip", true), ("why", "overlapping evaluations with a segment outside the model's int()")]
  if let some r := re then
    match missing with
    | .factory kind => return ← runRe c uv kind r implObs0
    | .none => throw "reenter without a factory"
  let root := if c.sroot then c.sref else c.target
  let fuel := argFuel c.heap
  let n := c.heap.length
  -- chain mode: a later step of the same chain reads a path back
  let rd : Option (List Step) ← (match ← j.getObjVal? "readback" with
    | .null => pure none
    | r => do pure (some (← stepsOfSpelling (← r.getObjVal? "spelling")))
    : Except String (Option (List Step)))
  let implRead : Option ReadObs ← (match ← implJ.getObjVal? "read" with
    | .null => pure none
    | r => do pure (some (← readObsOfJson r))
    : Except String (Option ReadObs))
  -- the objects the implementation wrote to, in order (logging stand-ins; null: not observed)
  let implWlog : Option (List Nat) ← (match ← implJ.getObjVal? "wlog" with
    | .null => pure none
    | w => do pure (some (← listOfJson natOfJson w))
    : Except String (Option (List Nat)))
  let frameSeen ← implJ.getObjValAs? Bool "frame_seen"
  let scopeKept ← implJ.getObjValAs? Bool "scope_kept"
  -- segments on which CPython's int() is not the kernel's (whitespace, underscores, non-ASCII digits,
  -- floats): outside the model.  What needs no int() is still checked: the same object on success;
  -- on an error through a wildcard-free path every pre-existing cell as it was.
  let tleafSafe := c.heap.all (fun o => match o with
    | .inst cl st => !c.env.flag cl "tleaf" || intSafe st
    | _ => true)
  let allSafe := intSafe c.steps && (match uv with | .vs (.path s) => intSafe s | .vs _ => true | .lit _ => tleafSafe) &&
    (match rd with | some rs => intSafe rs | none => true)
  let hasSS := c.steps.any (fun st => st.1 == "X")
  if !allSafe || hasSS then
    let weak := match implObs0.res with
      | .ok v => v == c.target
      | .err .. => hasStar c.steps || implObs0.heap.take n == c.heap
    return Json.mkObj [("agree", true), ("holds", weak && scopeKept), ("model_holds", true), ("wf", WF c.env),
      ("covered", false), ("model", Json.null), ("why", if weak then "" else "same object / atomicity"),
      ("ref", if hasSS then "starstar" else "int-unsafe"),
      ("branch", if hasSS then "`**` destination (enumeration is C14's): same object only"
                 else "int() outside the modelled subset: same object / atomicity only")]
  -- `Assign.__init__`: the path it keeps (first step of an S-rooted path re-spelled per the extracted table)
  let kept := initPath (genSFirst "Assign") c.sroot c.steps
  let (out, rdOut) := match rd with
    | some rs => assignUThenRead c.env c.sroot c.sref missing fuel c.heap c.target kept uv rs
    | none => (assignU c.env c.sroot c.sref missing fuel c.heap c.target kept uv, none)
  let modelObs := observe c.env out
  let modelRead := observeRead c.env rdOut
  -- write order: what the model's event log says, and the property's two order clauses evaluated on
  -- the implementation's log: a wildcard-free assignment that succeeds writes a pre-existing object at
  -- most once and LAST (everything before concerns objects created during the call); one that fails
  -- never writes a pre-existing object, not even transiently
  let renW := fun (hp : Heap) (l : List Nat) =>
    l.map (fun a => match renameVal n (newOrder n hp []) (.ref a) with | .ref b => b | _ => a)
  -- (only plain dict / list / Obj objects have logging stand-ins)
  let isLogged := fun (a : Nat) => match modelObs.heap[a]? with
    | some o => o.cls == "dict" || o.cls == "list" || o.cls == "Obj"
    | none => false
  let modelWlog := renW modelObs.heap (out.1.log.filterMap (fun ev =>
    match ev with | .write a => if isLogged a then some a else none | _ => none))
  let wlogAgree := match implWlog with
    | some l => renW implObs0.heap l == modelWlog
    | none => true
  let wlogHolds := match implWlog with
    | some l => hasStar c.steps || (match implObs0.res with
        | .ok _ => l.dropLast.all (fun a => n ≤ a)
        | .err .. => l.all (fun a => n ≤ a))
    | none => true
  -- the prescription reads an S-rooted path the way such a path is evaluated: a first step spelled
  -- `S.name` / `Path(S, name)` means the scope variable (`_s_first_magic`) — also as a destination
  let refSteps := readSteps c.sroot c.steps
  let ref := refAssignU c.refEnv fuel c.heap c.target root refSteps uv missing
  if ref == .unsupported || (match out.2 with | .error .unmodelled => true | _ => false) ||
      (match rdOut with | some (.error .unmodelled) => true | _ => false) then
    return Json.mkObj [("skip", true), ("why", "path outside the modelled domain (`**` / wildcard value)")]
  -- an S-rooted Assign that is the whole spec binds in a frame nothing can look into afterwards
  let unseen := c.hasScope && !frameSeen
  let unobs : List Nat := if unseen then (match c.sref with | .ref a => [a] | _ => []) else []
  let maskObs := fun (o : Obs) => { o with heap := maskCells c.heap unobs o.heap }
  let implObsA := implObs0
  let implObs := implObs0
  let readAgree := match rd, implRead with
    | some _, some r => modelObs.hidden ||
        ReadObs.beq (canonRead n modelObs.heap modelRead) (canonRead n implObsA.heap r)   -- a hidden attribute: outside the cells
    | none, none => true
    | _, _ => false
  let readHolds := match rd, implRead with
    | some rs, some r => checkReadU c.refEnv fuel c.heap c.target root refSteps uv missing (readSteps c.sroot rs) implObs.heap r
    | none, none => true
    | _, _ => false
  -- the garbage a failed call leaves (factory objects, rebuilt containers) is not an observation
  let agree := canonObs n (maskObs modelObs) == canonObs n (maskObs implObsA) && readAgree && wlogAgree
  let errHolds := checkErrU c.refEnv fuel c.heap c.target root refSteps uv missing implObs
  let holds := checkC11U c.refEnv fuel c.heap c.target root refSteps uv missing implObs unobs && readHolds &&
    scopeKept && errHolds && wlogHolds
  let modelHolds := checkC11U c.refEnv fuel c.heap c.target root refSteps uv missing modelObs &&
    checkErrU c.refEnv fuel c.heap c.target root refSteps uv missing modelObs &&
    (match rd with
     | some rs => checkReadU c.refEnv fuel c.heap c.target root refSteps uv missing (readSteps c.sroot rs) modelObs.heap modelRead
     | none => true)
  let star := hasStar c.steps
  let (cov, covStar, lit) := match uv with
    | .vs s =>
      (covered c.env c.heap c.target c.sroot c.steps s missing,
       -- `c11_star` / `c11_star_model_checks`: T-rooted, `*` only, the matches of the parent path exist, the value is defined
       star && !c.sroot && WF c.env && classesOK c.env && noScope c.env && wfStar c.steps && valWf s &&
         !valUnsupported c.heap s && (match c.steps.getLast? with | some (lop, _) => finalOk lop | none => false) &&
         (match matchesOf c.env c.heap c.steps.dropLast 0 c.target with | .ok _ => true | _ => false) &&
         (refVal c.env c.heap c.target s).isSome, false)
    | .lit v =>
      (coveredLit c.env fuel c.heap c.target c.steps v missing,
       -- (no theorem speaks about a wildcard destination together with a rebuilt literal: not tagged)
       false, out.1.heap.length > n && out.1.calls == 0 || rebuilds c.heap v)
  let rdTag := match rd with
    | none => ""
    | some _ => (match modelRead with
      | .notRun => "read-notrun:" | .ok _ => "read-ok:" | .err e => s!"read-{resTag e}:")
  let branch := (if c.sroot then "S:" else "") ++ (if c.hasUreg then "user-reg:" else "") ++ rdTag ++
    (if star then "star:" else "") ++ (if lit then "rebuilt-literal:" else "") ++
    (if out.1.calls > 0 then s!"missing{out.1.calls}:" else "") ++ resTag modelObs.res ++
    (if cov then " [thm]" else if covStar then " [thm*]" else "")
  return Json.mkObj [("agree", agree), ("holds", holds), ("model_holds", modelHolds),
    ("wf", WF c.env), ("covered", cov || covStar), ("model", obsToJson (canonObs n modelObs)),
    ("model_read", readObsToJson (canonRead n modelObs.heap modelRead)),
    ("why", if !scopeKept then "the mapping handed to glom(scope=…) was changed"
            else if !wlogHolds then "write order: a pre-existing object was written before the last write (or at all, by a call that failed)"
            else if !errHolds then "the exception is not the one the property's reading prescribes"
            else if !readHolds then "the read-back step does not see what the plain-Python assignment leaves"
            else ""),
    ("ref", match ref with
      | .ok _ hid n => s!"ok hidden={hid} calls={n}" | .fail a => s!"fail atomic={a}" | .unsupported => "unsupported"),
    ("branch", branch)]

end Glom.C11.Driver
