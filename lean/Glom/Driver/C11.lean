import Glom.Py.Json
import Glom.Spec.C11
import Glom.Model.C11Env
/-
  C11 driver: one JSON case in, one JSON verdict out.

  case: {"classes":[[cls,[mro…]]…], "cflags":[[cls,[flag…]]…], "heap":[Obj…], "target":Val,
         "scope": Val|null,  "root": "T"|"S",
         "spelling": {"text":"a.b"} | {"parts":[{"seg":Val} | {"t":[[op,Val]…]}…]},
         "value": {"lit":Val} | {"t":[[op,Val]…]},
         "missing": null | "dict" | "list" | "obj" | "tuple" | "raise",
         "impl": {"res": {"ok":Val} | {"err":{"cls":…,"inner":…|null,"idx":…|null,"dest":Val|null,
                                               "pae":b,"passign":b,"pdelete":b,"glom":b}},
                  "heap":[Obj…], "calls":n, "hidden":b}}
-/
namespace Glom.C11.Driver
open Lean Glom Glom.Mut Glom.C11

def stepOfJson (j : Json) : Except String Step := pairOfJson strOfJson valOfJson j

def partOfJson (j : Json) : Except String C01.Part := do
  if let .ok v := j.getObjVal? "seg" then return .seg (← valOfJson v)
  else if let .ok t := j.getObjVal? "t" then return .t (← listOfJson stepOfJson t)
  else throw s!"bad part {j.compress}"

def stepsOfSpelling (sp : Json) : Except String (List Step) := do
  if let .ok t := sp.getObjValAs? String "text" then return C01.stepsOfParts (C01.partsOfText t.toList)
  else return C01.stepsOfParts (← listOfJson partOfJson (← sp.getObjVal? "parts"))

def optOf {α} (f : Json → Except String α) (j : Json) : Except String (Option α) :=
  match j with
  | .null => pure none
  | _ => do return some (← f j)

def obsResOfJson (j : Json) : Except String ObsRes := do
  if let .ok v := j.getObjVal? "ok" then return .ok (← valOfJson v)
  else
    let e ← j.getObjVal? "err"
    -- `dest` is a Val whose JSON for None is null: wrapped as {"v": Val} | null
    let dest ← match e.getObjVal? "dest" with
      | .ok .null => pure none
      | .ok d => do pure (some (← valOfJson (← d.getObjVal? "v")))
      | .error _ => pure none
    return .err (← e.getObjValAs? String "cls")
      (← optOf strOfJson ((e.getObjVal? "inner").toOption.getD .null))
      (← optOf natOfJson ((e.getObjVal? "idx").toOption.getD .null))
      dest
      (← e.getObjValAs? Bool "pae") (← e.getObjValAs? Bool "passign")
      (← e.getObjValAs? Bool "pdelete") (← e.getObjValAs? Bool "glom")

def obsOfJson (j : Json) : Except String Obs := do
  return { res := ← obsResOfJson (← j.getObjVal? "res")
           heap := ← heapOfJson (← j.getObjVal? "heap")
           calls := ← j.getObjValAs? Nat "calls"
           hidden := ← j.getObjValAs? Bool "hidden" }

def optToJson {α} (f : α → Json) : Option α → Json
  | some a => f a
  | none => .null

def obsResToJson : ObsRes → Json
  | .ok v => Json.mkObj [("ok", valToJson v)]
  | .err c inner idx dest pae pa pd g => Json.mkObj [("err", Json.mkObj [
      ("cls", c), ("inner", optToJson Json.str inner), ("idx", optToJson (fun (n : Nat) => toJson n) idx),
      ("dest", optToJson (fun v => Json.mkObj [("v", valToJson v)]) dest),
      ("pae", pae), ("passign", pa), ("pdelete", pd), ("glom", g)])]

def obsToJson (o : Obs) : Json :=
  Json.mkObj [("res", obsResToJson o.res), ("heap", heapToJson o.heap), ("calls", o.calls),
    ("hidden", o.hidden)]

def missingOfJson (j : Json) : Except String Missing :=
  match j with
  | .null => pure .none
  | .str k => pure (.factory k)
  | _ => throw s!"bad missing {j.compress}"

def valSpecOfJson (j : Json) : Except String ValSpec := do
  if let .ok v := j.getObjVal? "lit" then return .lit (← valOfJson v)
  else return .path (← listOfJson stepOfJson (← j.getObjVal? "t"))

def flagsOfJson (j : Json) : Except String (List (String × List String)) :=
  listOfJson (pairOfJson strOfJson (listOfJson strOfJson)) j

structure Common where
  env : MEnv
  heap : Heap
  target : Val
  sroot : Bool
  sref : Val
  steps : List Step

def commonOfJson (j : Json) : Except String Common := do
  let classes ← classTableOfJson (← j.getObjVal? "classes")
  let flags ← flagsOfJson (← j.getObjVal? "cflags")
  let heap ← heapOfJson (← j.getObjVal? "heap")
  let target ← valOfJson (← j.getObjVal? "target")
  let root ← j.getObjValAs? String "root"
  let sref ← match j.getObjVal? "scope" with
    | .ok .null => pure Val.none
    | .ok v => valOfJson v
    | .error _ => pure Val.none
  let steps ← stepsOfSpelling (← j.getObjVal? "spelling")
  return { env := genEnv classes flags, heap, target, sroot := root == "S", sref, steps }

def resTag : ObsRes → String
  | .ok _ => "ok"
  | .err c (some i) .. => s!"{c}({i})"
  | .err c none .. => c

def run (j : Json) : Except String Json := do
  let c ← commonOfJson j
  let vs ← valSpecOfJson (← j.getObjVal? "value")
  let missing ← missingOfJson ((j.getObjVal? "missing").toOption.getD .null)
  let implObs ← obsOfJson (← j.getObjVal? "impl")
  let root := if c.sroot then c.sref else c.target
  let out := assign c.env c.sroot c.sref missing c.heap c.target c.steps vs
  let modelObs := observe c.env out
  let ref := refAssign c.env c.heap c.target root c.steps vs missing
  if ref == .unsupported || (match out.2 with | .error .unmodelled => true | _ => false) then
    return Json.mkObj [("skip", true), ("why", "path outside the modelled domain (`**` / wildcard value)")]
  let agree := modelObs == implObs
  let holds := checkC11 c.env c.heap c.target root c.steps vs missing implObs
  let modelHolds := checkC11 c.env c.heap c.target root c.steps vs missing modelObs
  let star := hasStar c.steps
  let cov := covered c.env c.heap c.target c.sroot c.steps vs missing
  let covStar := star && WF c.env && classesOK c.env && noScope c.env && wfStar c.steps && valWf vs &&
    !valUnsupported c.heap vs && (match missing with | .none => true | _ => out.1.calls == 0)
  let branch := (if c.sroot then "S:" else "") ++ (if star then "star:" else "") ++
    (if out.1.calls > 0 then s!"missing{out.1.calls}:" else "") ++ resTag modelObs.res ++
    (if cov then " [thm]" else if covStar then " [thm*]" else "")
  return Json.mkObj [("agree", agree), ("holds", holds), ("model_holds", modelHolds),
    ("wf", WF c.env), ("covered", cov || covStar), ("model", obsToJson modelObs),
    ("ref", match ref with
      | .ok _ hid n => s!"ok hidden={hid} calls={n}" | .fail a => s!"fail atomic={a}" | .unsupported => "unsupported"),
    ("branch", branch)]

end Glom.C11.Driver
