import Lean.Data.Json
/- stub: the C11 driver is not built yet -/
namespace Glom.C11.Driver
open Lean

def run (_j : Json) : Except String Json := .error "property C11: driver not implemented yet"

end Glom.C11.Driver
