import Lean.Data.Json
/- stub: the C04 driver is not built yet -/
namespace Glom.C04.Driver
open Lean

def run (_j : Json) : Except String Json := .error "property C04: driver not implemented yet"

end Glom.C04.Driver
