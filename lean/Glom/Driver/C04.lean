import Lean.Data.Json
import Glom.Spec.C04
import Glom.Model.C04Env
/-
  C04 driver: one JSON case in, one JSON verdict out.

  case:
    "classes":  [{"name":n,"base":b,"shape":Shape|null,"falsy":bool}…]   user classes (base: user / builtin / glom class)
    "exc":      {"cls":n,"init":[AVal…],"kw":bool,"set_args":[AVal…]|null}  the prepared exception object
    "spec":     Sp      "ok"|"fault"|"badPath"|"badMatch"|{"tup":[…]}|{"dct":[…]}|{"lst":Sp}|{"frame":Sp}|{"first":Sp}
                        |{"coal":[…],"skip":[names]|null,"dflt":bool}
    "settings": {"default":bool,"skip":[names]|null,"debug":bool|null}
    "recorder": bool    the whole spec is wrapped in a recording frame
    "impl":     {"ctor_error":true}
              | {"orig":{"mro":[…],"args":[…],"rebuild":[…]|null,"falsy":b},
                 "origin": null | "unknown" | {"injected":true} | {"internal":cls,"args":[…]},
                 "obs": {"returned":"value"|"default"|"none"}
                      | {"raised":{"mro":[…],"args":[…],"sameInj":b,"instInj":b,"sameRec":b,"instRec":b,"instGlom":b}}}
                        (Inj: relative to the prepared object; Rec: relative to what the recording frame saw)
  AVal: null | {"i":n} | {"s":str} | {"y":hex} | {"o":id}
  Shape: {"sig":[lo, hi|null, kwReq, Store]} | "oserror" | "unicode"
  Store: "all" | "nosuper" | {"pre":k} | "len" | {"const":s} | "rev" | "tme"
-/
namespace Glom.C04.Driver
open Lean Glom Glom.C04

def arr (j : Json) : Except String (List Json) :=
  match j with
  | .arr a => .ok a.toList
  | _ => .error s!"expected array, got {j.compress}"

def avalOfJson (j : Json) : Except String AVal :=
  match j with
  | .null => .ok .none
  | _ =>
    if let .ok i := j.getObjValAs? Int "i" then .ok (.int i)
    else if let .ok s := j.getObjValAs? String "s" then .ok (.str s)
    else if let .ok s := j.getObjValAs? String "y" then .ok (.bytes s)
    else if let .ok n := j.getObjValAs? Nat "o" then .ok (.obj n)
    else .error s!"bad AVal {j.compress}"

def avalToJson : AVal → Json
  | .none => .null
  | .int i => Json.mkObj [("i", toJson i)]
  | .str s => Json.mkObj [("s", s)]
  | .bytes s => Json.mkObj [("y", s)]
  | .obj n => Json.mkObj [("o", n)]

def argsOfJson (j : Json) : Except String Args := do (← arr j).mapM avalOfJson
def argsToJson (a : Args) : Json := Json.arr (a.map avalToJson).toArray
def strsOfJson (j : Json) : Except String (List String) := do
  (← arr j).mapM (fun x => match x with | .str s => .ok s | _ => .error "expected string")

def storeOfJson (j : Json) : Except String Store :=
  match j with
  | .str "all" | .str "nosuper" => .ok .all
  | .str "len" => .ok .len
  | .str "rev" => .ok .rev
  | .str "tme" => .ok .tme
  | _ =>
    if let .ok k := j.getObjValAs? Nat "pre" then .ok (.pre k)
    else if let .ok s := j.getObjValAs? String "const" then .ok (.const s)
    else .error s!"bad Store {j.compress}"

def shapeOfJson (j : Json) : Except String Shape :=
  match j with
  | .str "oserror" => .ok .oserror
  | .str "unicode" => .ok .unicodeDecode
  | _ => do
    match ← arr (← j.getObjVal? "sig") with
    | [lo, hi, kw, st] =>
      let lo ← lo.getNat?
      let hi ← (match hi with | .null => pure none | h => do return some (← h.getNat?))
      let kw ← kw.getBool?
      return .sig lo hi kw (← storeOfJson st)
    | _ => throw s!"bad Shape {j.compress}"

structure UserCls where
  name : String
  base : String
  shape : Option Shape
  falsy : Bool

def userClsOfJson (j : Json) : Except String UserCls := do
  let sh ← (match j.getObjVal? "shape" with
    | .ok .null => pure none
    | .ok s => do return some (← shapeOfJson s)
    | .error _ => pure none)
  return { name := ← j.getObjValAs? String "name", base := ← j.getObjValAs? String "base",
           shape := sh, falsy := (j.getObjValAs? Bool "falsy").toOption.getD false }

/-- constructor of a class that exists in /repo: the two C constructors that rewrite their
    arguments, glom's own classes by their extracted rows, everything else stores all -/
def builtinShape (c : String) : Shape :=
  let m := tableMro Generated.excTable c
  if m.contains "OSError" then .oserror
  else if c == "UnicodeDecodeError" then .unicodeDecode
  else (internalShape Generated.excCtor c).getD (.sig 0 none false .all)

/-- (MRO, constructor shape, falsy) of a class by name -/
def resolve (us : List UserCls) : Nat → String → List String × Shape × Bool
  | 0, c => (tableMro Generated.excTable c, builtinShape c, false)
  | fuel + 1, c =>
    match us.find? (·.name == c) with
    | some u =>
      let (bm, bs, bf) := resolve us fuel u.base
      (u.name :: bm, u.shape.getD bs, u.falsy || bf)
    | none => (tableMro Generated.excTable c, builtinShape c, false)

def classInfo (us : List UserCls) (c : String) : ClassInfo × Shape :=
  let (m, sh, f) := resolve us (us.length + 1) c
  (mkClass c (m.drop 1) sh f, sh)

partial def spOfJson (j : Json) : Except String Sp :=
  match j with
  | .str "ok" => .ok .ok
  | .str "fault" => .ok .fault
  | .str "badPath" => .ok .badPath
  | .str "badMatch" => .ok .badMatch
  | _ => do
    if let .ok xs := j.getObjVal? "tup" then return .tup (← (← arr xs).mapM spOfJson)
    else if let .ok xs := j.getObjVal? "dct" then return .dct (← (← arr xs).mapM spOfJson)
    else if let .ok x := j.getObjVal? "lst" then return .lst (← spOfJson x)
    else if let .ok x := j.getObjVal? "frame" then return .frame (← spOfJson x)
    else if let .ok x := j.getObjVal? "first" then return .first (← spOfJson x)
    else if let .ok xs := j.getObjVal? "coal" then
      let skip ← (match j.getObjVal? "skip" with
        | .ok .null => pure none
        | .ok s => do return some (← strsOfJson s)
        | .error _ => pure none)
      return .coal (← (← arr xs).mapM spOfJson) skip ((j.getObjValAs? Bool "dflt").toOption.getD false)
    else throw s!"bad Sp {j.compress}"

def settingsOfJson (j : Json) : Except String Settings := do
  let d ← j.getObjValAs? Bool "default"
  let skip ← (match j.getObjVal? "skip" with
    | .ok .null => pure none
    | .ok s => do return some (← strsOfJson s)
    | .error _ => pure none)
  let dbg := match j.getObjVal? "debug" with
    | .ok (.bool b) => some b
    | _ => none
  return { default := if d then some 1 else none, skipExc := skip, debug := dbg }

/-- the implementation's observation, relative to the exception object that `kind` says
    reached `glom()`'s handler: the prepared object (`…Inj` flags) or the object the recording
    frame saw (`…Rec` flags, meaningful when it is an instance of the expected internal class) -/
def obsOfJson (j : Json) (kind : Outc) (recCls : Option String) : Except String Obs := do
  if let .ok k := j.getObjValAs? String "returned" then
    match k with
    | "value" => return .returned .value
    | "default" => return .returned .defaultObj
    | "none" => return .returned .noneObj
    | _ => throw s!"bad returned kind {k}"
  else
    let r ← j.getObjVal? "raised"
    let mro ← strsOfJson (← r.getObjVal? "mro")
    let flag := fun (k : String) => (r.getObjValAs? Bool k).toOption.getD false
    let (same, inst) := match kind with
      | .exc (.internal c) => if recCls == some c then (flag "sameRec", flag "instRec") else (false, mro.contains c)
      | _ => (flag "sameInj", flag "instInj")
    return .raised { mro := mro, args := ← argsOfJson (← r.getObjVal? "args"),
                     same := same, instOrig := inst, instGlom := ← r.getObjValAs? Bool "instGlom" }

def obsToJson : Obs → Json
  | .returned .value => Json.mkObj [("returned", "value")]
  | .returned .defaultObj => Json.mkObj [("returned", "default")]
  | .returned .noneObj => Json.mkObj [("returned", "none")]
  | .raised r => Json.mkObj [("raised", Json.mkObj [("mro", toJson r.mro), ("args", argsToJson r.args),
      ("same", r.same), ("instOrig", r.instOrig), ("instGlom", r.instGlom)])]

/-- which branch of the model decided the outcome (for the histogram) -/
def branchOf (F : Facts) (s : Settings) (origin : Option ExcObj) (r : Res) : String :=
  match origin, r with
  | none, _ => "no-exception"
  | some _, .value => "value?"
  | some _, .dflt .none_ => "skip→None"
  | some _, .dflt (.given _) => "skip→default-object"
  | some e, .exc _ =>
    if !matchesAny e F.outerCatch then "BaseException-only→untouched"
    else if effDebug F s then "debug→original"
    else if isInst e "GlomError" then
      match pyCopy F e with
      | none => "glomerror:copy-raises→original"
      | some c => if c.args != e.args then "glomerror:copy-args-differ→original" else
          (if usesTmeCopy e.cls then "glomerror:__copy__" else "glomerror:copied")
    else
      match (wrapClass e.cls).ctor e.args with
      | none => "foreign:rebuild-raises→original"
      | some a => if a != e.args then "foreign:rebuild-args-differ→original" else "foreign:wrapped"

def run (j : Json) : Except String Json := do
  let us ← (← arr (← j.getObjVal? "classes")).mapM userClsOfJson
  let ej ← j.getObjVal? "exc"
  let cname ← ej.getObjValAs? String "cls"
  let init ← argsOfJson (← ej.getObjVal? "init")
  let kw := (ej.getObjValAs? Bool "kw").toOption.getD false
  let setArgs ← (match ej.getObjVal? "set_args" with
    | .ok .null => pure none
    | .ok a => do return some (← argsOfJson a)
    | .error _ => pure none)
  let spec0 ← spOfJson (← j.getObjVal? "spec")
  let recorder := (j.getObjValAs? Bool "recorder").toOption.getD false
  let spec := if recorder then Sp.frame spec0 else spec0
  let s ← settingsOfJson (← j.getObjVal? "settings")
  let impl ← j.getObjVal? "impl"
  let F := genFacts
  let (ci, sh) := classInfo us cname
  -- the prepared exception object
  let built := sh.construct init kw
  if let .ok true := impl.getObjValAs? Bool "ctor_error" then
    match built with
    | none => return Json.mkObj [("skip", true), ("why", "the prepared exception cannot be constructed (model agrees)")]
    | some a => return Json.mkObj [("agree", false), ("holds", true), ("branch", "ctor-disagreement"),
        ("model", Json.mkObj [("orig_args", argsToJson a)]), ("why", "model constructs, implementation raises")]
  let some a0 := built
    | return Json.mkObj [("agree", false), ("holds", true), ("branch", "ctor-disagreement"),
        ("model", Json.mkObj [("ctor", "raises")]), ("why", "model says the constructor raises, implementation built it")]
  let e0 : ExcObj := { id := 0, cls := ci, args := setArgs.getD a0 }
  -- validation of the class model against the real object
  let io ← impl.getObjVal? "orig"
  let implOrigMro ← strsOfJson (← io.getObjVal? "mro")
  let implOrigArgs ← argsOfJson (← io.getObjVal? "args")
  let implRebuild ← (match io.getObjVal? "rebuild" with
    | .ok .null => pure none
    | .ok a => do return some (← argsOfJson a)
    | .error _ => pure none)
  let implFalsy ← io.getObjValAs? Bool "falsy"
  let classAgree := implOrigMro == ci.mro && implOrigArgs == e0.args &&
    implRebuild == ci.ctor e0.args && implFalsy == ci.falsy
  -- where the fault originates
  let E : EvalEnv := { F := F, injMro := ci.mro }
  let outc := eval E spec
  let implOrigin ← impl.getObjVal? "origin"
  let implInternal : Option (String × Args) ←
    (match implOrigin.getObjValAs? String "internal" with
     | .ok c => do return some (c, ← argsOfJson (← implOrigin.getObjVal? "args"))
     | .error _ => pure none)
  let mkInternal := fun (c : String) (a : Args) =>
    ({ id := 10, cls := repoClass c (builtinShape c), args := a } : ExcObj)
  -- origin for the model: predicted by `eval`; an internal error takes its args from the recording
  let modelOrigin : Option ExcObj := match outc with
    | .val => none
    | .exc .injected => some e0
    | .exc (.internal c) => some (mkInternal c (match implInternal with | some (_, a) => a | none => []))
  -- origin for the checker: the REFERENCE evaluation (documented `Coalesce(skip_exc=GlomError)`
  -- default, independent of the extracted facts) says which exception object must reach the handler
  let refF : Facts := { F with coalesceSkipDefault := ["GlomError"], frameCatch := ["Exception"] }
  let refOutc := eval { F := refF, injMro := ci.mro } spec
  let recCls := implInternal.map (·.1)
  let checkOrigin : Option ExcObj := match refOutc with
    | .val => none
    | .exc .injected => some e0
    | .exc (.internal c) => some (mkInternal c (match implInternal with
        | some (c', a) => if c == c' then a else []
        | none => []))
  let originAgree : Bool := match implOrigin, outc with
    | .null, .val => true
    | .str _, .val => true
    | .str _, .exc .injected => true
    | .str _, .exc (.internal _) => false
    | _, .exc .injected => implInternal.isNone && implOrigin != .null
    | _, .exc (.internal c) => (match implInternal with | some (c', _) => c == c' | none => false)
    | _, _ => false
  if let (.str _, .exc (.internal _)) := (implOrigin, refOutc) then
    return Json.mkObj [("skip", true), ("why", "internal error without a recording frame")]
  let body : Body := match modelOrigin with | some e => .exc e | none => .val
  let res := glomTop F s body
  let modelObs := observe modelOrigin res
  let implJ ← impl.getObjVal? "obs"
  let implObs ← obsOfJson implJ outc recCls
  let implObsRef ← obsOfJson implJ refOutc recCls
  let holds := checkC04 s checkOrigin implObsRef
  let modelHolds := checkC04 s modelOrigin modelObs
  let agree := classAgree && originAgree && modelObs == implObs && outc == refOutc
  let originTag := match outc with
    | .val => "" | .exc .injected => "injected/" | .exc (.internal c) => s!"{c}/"
  return Json.mkObj [("agree", agree), ("holds", holds), ("model_holds", modelHolds),
    ("wf", WF F),
    ("model", Json.mkObj [("obs", obsToJson modelObs), ("orig_mro", toJson ci.mro),
      ("orig_args", argsToJson e0.args), ("rebuild", match ci.ctor e0.args with | some a => argsToJson a | none => .null),
      ("falsy", ci.falsy),
      ("origin", match outc with | .val => .null | .exc .injected => "injected" | .exc (.internal c) => c)]),
    ("branch", (originTag ++ branchOf F s modelOrigin res : String)),
    ("why", (if agree then "" else
      (if !classAgree then "class model (mro/args/rebuild/falsy) differs; " else "") ++
      (if !originAgree then "origin differs; " else "") ++
      (if modelObs != implObs then "observation differs" else "") : String))]

end Glom.C04.Driver
