import Lean.Data.Json
import Glom.Spec.C04
import Glom.Model.C04Env
/-
  C04 driver: one JSON case in, one JSON verdict out.

  case:
    "classes":  [{"name":n,"bases":[b…],"shape":Shape|null,"falsy":bool,
                  "copy":"args"|"init"|"self"|"foreign","sealed":bool,"frozen":bool,"boolraises":bool}…]   user classes
                (EVERY field named here and below must be present: a missing field is a decode error)
    "exc":      {"cls":n,"init":[AVal…],"kw":bool,"set_args":[AVal…]|null,"raise_class":bool,"cause":bool,"context":bool}
    "spec":     Sp      "ok"|"fault"|{"fault":kind}|"badPath"|"badMatch"|{"tup":[…]}|{"dct":[…]}|{"lst":Sp}
                        |{"frame":Sp,"kind":…}|{"first":Sp,"kind":…}|{"coal":[…],"skip":[names]|null,"dflt":bool}
                        |{"nest":Sp,"settings":Settings,"entry":…}
                kind: fn|call|invoke|tcall|factory (user code called by glom)  |  skipfunc (the `skip=` predicate of a Coalesce,
                      called inside its try)  |  next (`__next__` of the target)
                      |  iter|reg_iter|getitem|getattr|path|reg_get (inside one of glom's try blocks)
    "settings": {"default":bool,"skip":[names]|null,"debug":bool|null}
    "entry":    glom|spec|glommer   (which entry point; same model)
    "recorder": bool    the whole spec is wrapped in a recording frame
    "impl":     {"kind":"class_error"} | {"kind":"ctor_error"} | {"kind":"repr_error"}
              | {"kind":"ran","orig":{"mro":[…],"args":[…],"rebuild":[…]|null,"falsy":b},
                 "origin": null | "unknown" | {"isInj":b,"mro":[…],"args":[…]},
                 "obs": {"returned":"value"|"default"|"none"}
                      | {"raised":{"mro":[…],"args":[…],"instGlom":b,"inj":Rel,"rec":Rel?}}}
                 Rel = {"same":b,"inst":b,"cause":b,"context":b,"reach":b}   relative to the prepared object (inj) /
                       to what the recording frame saw (rec)
  AVal: null | {"i":n} | {"s":str} | {"y":hex} | {"o":id} | {"x":id}
  Shape: {"sig":[lo, hi|null, kwReq, Store]}
  Store: "all" | "nosuper" | {"pre":k} | "len" | {"const":s} | "rev" | "tme" | "needint"
-/
namespace Glom.C04.Driver
open Lean Glom Glom.C04

def arr (j : Json) : Except String (List Json) :=
  match j with
  | .arr a => .ok a.toList
  | _ => .error s!"expected array, got {j.compress}"

def avalOfJson (j : Json) : Except String AVal :=
  match j with
  | .null => .ok .none
  | _ =>
    if let .ok i := j.getObjValAs? Int "i" then .ok (.int i)
    else if let .ok s := j.getObjValAs? String "s" then .ok (.str s)
    else if let .ok s := j.getObjValAs? String "y" then .ok (.bytes s)
    else if let .ok n := j.getObjValAs? Nat "o" then .ok (.obj n)
    else if let .ok n := j.getObjValAs? Nat "x" then .ok (.excs n)
    else .error s!"bad AVal {j.compress}"

def avalToJson : AVal → Json
  | .none => .null
  | .int i => Json.mkObj [("i", toJson i)]
  | .str s => Json.mkObj [("s", s)]
  | .bytes s => Json.mkObj [("y", s)]
  | .obj n => Json.mkObj [("o", n)]
  | .excs n => Json.mkObj [("x", n)]

def argsOfJson (j : Json) : Except String Args := do (← arr j).mapM avalOfJson
def argsToJson (a : Args) : Json := Json.arr (a.map avalToJson).toArray
def strsOfJson (j : Json) : Except String (List String) := do
  (← arr j).mapM (fun x => match x with | .str s => .ok s | _ => .error "expected string")

def storeOfJson (j : Json) : Except String Store :=
  match j with
  | .str "all" | .str "nosuper" => .ok .all
  | .str "len" => .ok .len
  | .str "rev" => .ok .rev
  | .str "tme" => .ok .tme
  | .str "needint" => .ok .needInt
  | _ =>
    if let .ok k := j.getObjValAs? Nat "pre" then .ok (.pre k)
    else if let .ok s := j.getObjValAs? String "const" then .ok (.const s)
    else .error s!"bad Store {j.compress}"

def shapeOfJson (j : Json) : Except String Shape := do
  match ← arr (← j.getObjVal? "sig") with
  | [lo, hi, kw, st] =>
    let lo ← lo.getNat?
    let hi ← (match hi with | .null => pure none | h => do return some (← h.getNat?))
    let kw ← kw.getBool?
    return .sig lo hi kw (← storeOfJson st)
  | _ => throw s!"bad Shape {j.compress}"

structure UserCls where
  name : String
  bases : List String
  shape : Option Shape
  falsy : Bool
  copyVia : CopyKind
  sealed : Bool
  frozen : Bool
  boolRaises : Bool

/-- every field the model reads must be present: a missing or ill-typed field is a decode error -/
def reqBool (j : Json) (k : String) : Except String Bool :=
  match j.getObjVal? k with
  | .ok (.bool b) => .ok b
  | .ok v => .error s!"field {k}: expected a boolean, got {v.compress}"
  | .error _ => .error s!"missing field {k} in {j.compress}"

/-- a field that may be `null` (= absent in the Python call) but must be there -/
def reqNullable {α : Type} (j : Json) (k : String) (f : Json → Except String α) : Except String (Option α) :=
  match j.getObjVal? k with
  | .ok .null => .ok none
  | .ok v => do return some (← f v)
  | .error _ => .error s!"missing field {k} in {j.compress}"

def userClsOfJson (j : Json) : Except String UserCls := do
  let sh ← reqNullable j "shape" shapeOfJson
  let bases ← strsOfJson (← j.getObjVal? "bases")
  let ck ← (match ← j.getObjValAs? String "copy" with
    | "args" => pure CopyKind.args
    | "init" => pure .init
    | "self" => pure .self_
    | "foreign" => pure .foreign
    | k => throw s!"bad copy kind {k}")
  return { name := ← j.getObjValAs? String "name", bases := bases, shape := sh, falsy := ← reqBool j "falsy",
           copyVia := ck, sealed := ← reqBool j "sealed", frozen := ← reqBool j "frozen",
           boolRaises := ← reqBool j "boolraises" }

/-- constructor of a class that exists in /repo: the C constructors that rewrite / validate their
    arguments, glom's own classes by their extracted rows, everything else stores all -/
def builtinShape (c : String) : Shape :=
  let m := tableMro Generated.excTable c
  if m.contains "OSError" then .oserror
  else if c == "UnicodeDecodeError" then .unicodeDecode
  else if m.contains "ExceptionGroup" then .egroup false
  else if m.contains "BaseExceptionGroup" then .egroup true
  else (internalShape Generated.excCtor c).getD (.sig 0 none false .all)

/-- MROs of the user classes, in the order they are defined, by the modelled C3 linearisation
    (`none`: Python refuses to create the class) -/
def userMros (us : List UserCls) : Option (List (String × List String)) :=
  us.foldlM (fun (acc : List (String × List String)) u =>
    let mroOf := fun (b : String) => match acc.find? (·.1 == b) with
      | some (_, m) => m
      | none => tableMro Generated.excTable b
    (linearize u.name (u.bases.map mroOf)).map (fun m => acc ++ [(u.name, m)])) []

/-- the class named `c`: MRO, the constructor found along the MRO (first user class with an `__init__`
    of its own, or the first class of /repo), `__bool__`, `__copy__`/`__reduce__`, `__setattr__` likewise -/
def classInfo (us : List UserCls) (mros : List (String × List String)) (c : String) : ClassInfo × Shape :=
  let m := match mros.find? (·.1 == c) with
    | some (_, m) => m
    | none => tableMro Generated.excTable c
  let userOf := fun (n : String) => us.find? (·.name == n)
  let sh : Shape :=
    let rec go : List String → Shape
      | [] => .sig 0 none false .all
      | n :: r => match userOf n with
        | some u => (match u.shape with | some s => s | none => go r)
        | none => builtinShape n
    match go m with
    | .egroup _ => .egroup (!m.contains "Exception")   -- an Exception subclass refuses members that are not Exceptions
    | sh => sh
  let users := m.filterMap userOf
  let falsy := users.any (·.falsy)
  let ck := match users.find? (fun u => u.copyVia != .args) with
    | some u => u.copyVia
    | none => if m.contains "AttributeError" then .argsState else .args
  let sealed := match userOf c with | some u => u.sealed | none => false
  (mkClass c (m.drop 1) sh falsy ck sealed (users.any (·.frozen)) (users.any (·.boolRaises)), sh)

def settingsOfJson (j : Json) (dfltId : Nat) : Except String Settings := do
  let d ← reqBool j "default"
  let skip ← reqNullable j "skip" strsOfJson
  let dbg ← reqNullable j "debug" (fun v => match v with
    | .bool b => .ok b
    | v => .error s!"field debug: expected null or a boolean, got {v.compress}")
  return { default := if d then some dfltId else none, skipExc := skip, debug := dbg }

def faultOfKind (k : String) : Except String Sp :=
  if ["fn", "call", "invoke", "tcall", "factory"].contains k then .ok .fault
  else if k == "skipfunc" then .ok (.coal [.fault] none false)   -- `Coalesce(ok, skip=f)`: `f` runs inside Coalesce's try
  else if k == "next" then .ok (.first .fault)
  else if k == "iter" || k == "reg_iter" then .ok (.faultConv .iter)
  else if k == "getitem" then .ok (.faultConv .getitem)
  else if k == "getattr" then .ok (.faultConv .getattr)
  else if k == "path" || k == "reg_get" then .ok (.faultConv .path)
  else .error s!"bad fault kind {k}"

partial def spOfJson (j : Json) : Except String Sp :=
  match j with
  | .str "ok" => .ok .ok
  | .str "fault" => .ok .fault
  | .str "badPath" => .ok .badPath
  | .str "badMatch" => .ok .badMatch
  | _ => do
    if let .ok k := j.getObjValAs? String "fault" then faultOfKind k
    else if let .ok xs := j.getObjVal? "tup" then return .tup (← (← arr xs).mapM spOfJson)
    else if let .ok xs := j.getObjVal? "dct" then return .dct (← (← arr xs).mapM spOfJson)
    else if let .ok x := j.getObjVal? "lst" then return .lst (← spOfJson x)
    else if let .ok x := j.getObjVal? "frame" then return .frame (← spOfJson x)
    else if let .ok x := j.getObjVal? "first" then return .first (← spOfJson x)
    else if let .ok x := j.getObjVal? "nest" then
      return .nest (← spOfJson x) (← settingsOfJson (← j.getObjVal? "settings") 2)
    else if let .ok xs := j.getObjVal? "coal" then
      let skip ← reqNullable j "skip" strsOfJson
      return .coal (← (← arr xs).mapM spOfJson) skip (← reqBool j "dflt")
    else throw s!"bad Sp {j.compress}"

structure Rel where
  same : Bool
  inst : Bool
  cause : Bool
  context : Bool
  reach : Bool

def relOfJson (j : Json) : Except String Rel := do
  return { same := ← reqBool j "same", inst := ← reqBool j "inst", cause := ← reqBool j "cause",
           context := ← reqBool j "context", reach := ← reqBool j "reach" }

structure RecOrigin where
  isInj : Bool
  mro : List String
  args : Args

/-- the implementation's observation, relative to the exception object `origin` that is expected to
    have reached `glom()`'s handler: the prepared object (flags `inj`), or — when the recording
    frame saw an object of the expected class — that object (flags `rec`) -/
def obsOfJson (j : Json) (origin : Option ExcObj) (rec : Option RecOrigin) : Except String Obs := do
  if let .ok k := j.getObjValAs? String "returned" then
    match k with
    | "value" => return .returned .value
    | "default" => return .returned .defaultObj
    | "none" => return .returned .noneObj
    | _ => throw s!"bad returned kind {k}"
  else
    let r ← j.getObjVal? "raised"
    let mro ← strsOfJson (← r.getObjVal? "mro")
    let injRel ← relOfJson (← r.getObjVal? "inj")
    -- the flags relative to the recording are there exactly when the recording frame saw something
    let recRel ← (match rec with
      | some _ => do return some (← relOfJson (← r.getObjVal? "rec"))
      | none => pure none)
    let noRel : Rel := ⟨false, false, false, false, false⟩
    let rel : Rel := match origin with
      | none => noRel
      | some e =>
        if e.id == 0 then injRel
        else match rec, recRel with
          | some ro, some rr =>
            if !ro.isInj && ro.mro == e.cls.mro then rr
            else { noRel with inst := mro.contains e.cls.name }
          | _, _ => { noRel with inst := mro.contains e.cls.name }
    return .raised { mro := mro, args := ← argsOfJson (← r.getObjVal? "args"),
                     same := rel.same, instOrig := rel.inst, instGlom := ← reqBool r "instGlom",
                     causeKept := rel.cause, contextKept := rel.context, reachesOrig := rel.reach }

def obsToJson : Obs → Json
  | .returned .value => Json.mkObj [("returned", "value")]
  | .returned .defaultObj => Json.mkObj [("returned", "default")]
  | .returned .noneObj => Json.mkObj [("returned", "none")]
  | .raised r => Json.mkObj [("raised", Json.mkObj [("mro", toJson r.mro), ("args", argsToJson r.args),
      ("same", r.same), ("instOrig", r.instOrig), ("instGlom", r.instGlom), ("causeKept", r.causeKept),
      ("contextKept", r.contextKept), ("reachesOrig", r.reachesOrig)])]

/-- which branch of the model decided the outcome (for the histogram) -/
def branchOf (F : Facts) (s : Settings) (origin : Option ExcObj) (r : Res) : String :=
  match origin, r with
  | none, _ => "no-exception"
  | some _, .value => "value?"
  | some _, .dflt .none_ => "skip→None"
  | some _, .dflt (.given _) => "skip→default-object"
  | some e, .exc _ =>
    if !matchesAny e F.outerCatch then "BaseException-only→untouched"
    else if effDebug F s then "debug→original"
    else if isInst e "GlomError" then
      if e.cls.frozen then "glomerror:frozen→setattr-raises" else if e.cls.boolRaises then "glomerror:bool-raises" else
      match e.cls.copyVia, pyCopy F e with
      | .self_, _ => "glomerror:__copy__-self"
      | .foreign, _ => "glomerror:__copy__-foreign"
      | _, none => "glomerror:copy-raises→original"
      | k, some c => if k == .argsState then "glomerror:copied(args-in-state)" else if c.args != e.args then "glomerror:copy-args-differ→original" else
          (if usesTmeCopy e.cls then "glomerror:__copy__" else if k == .init then "glomerror:__reduce__" else "glomerror:copied")
    else
      match wrapClass e.cls with
      | none => "foreign:type()-raises"
      | some wc =>
        match wc.ctor e.args with
        | none => "foreign:rebuild-raises→original"
        | some a => if a != e.args then "foreign:rebuild-args-differ→original"
                    else if wc.frozen then "foreign:frozen→original"
                    else if e.cls.boolRaises then "foreign:bool-raises" else "foreign:wrapped"

def internalId (c : String) : Nat :=
  if c == "PathAccessError" then 1000 else if c == "TypeMatchError" then 1100
  else if c == "CoalesceError" then 1200 else 1300

def sameObj (a b : Outc) : Bool :=
  match a, b with
  | .val, .val => true
  | .exc x, .exc y => x.id == y.id && x.cls.mro == y.cls.mro && x.args == y.args
  | _, _ => false

/-- which new input classes a case exercises (for the histogram) -/
partial def featOf (j : Json) : List String :=
  match j with
  | .str _ => []
  | _ =>
    let kids : List Json := (["tup", "dct", "coal"].filterMap (fun k => (j.getObjVal? k).toOption)).flatMap
        (fun a => (arr a).toOption.getD []) ++
      (["lst", "frame", "first", "nest"].filterMap (fun k => (j.getObjVal? k).toOption))
    (if (j.getObjVal? "nest").toOption.isSome then ["nest"] else []) ++
    (match j.getObjValAs? String "fault" with
      | .ok k => if k == "fn" then [] else if k == "next" then ["next"]
                 else if ["call", "invoke", "tcall", "factory", "skipfunc"].contains k then ["called"] else ["conv"]
      | .error _ => []) ++ kids.flatMap featOf

def run (j : Json) : Except String Json := do
  let us ← (← arr (← j.getObjVal? "classes")).mapM userClsOfJson
  let ej ← j.getObjVal? "exc"
  let cname ← ej.getObjValAs? String "cls"
  let raiseClass ← reqBool ej "raise_class"
  let init0 ← argsOfJson (← ej.getObjVal? "init")
  let init := if raiseClass then [] else init0
  let kw := !raiseClass && (← reqBool ej "kw")
  let setArgs ← reqNullable ej "set_args" argsOfJson
  let hasCause ← reqBool ej "cause"
  let hasContext ← reqBool ej "context"
  let specJ ← j.getObjVal? "spec"
  let spec0 ← spOfJson specJ
  let recorder ← reqBool j "recorder"
  let spec := if recorder then Sp.frame spec0 else spec0
  let s ← settingsOfJson (← j.getObjVal? "settings") 1
  let impl ← j.getObjVal? "impl"
  let F := genFacts
  -- the classes
  -- every class named must be known: a user class defined before it is used, or a class of /repo's table
  let known := fun (n : String) (upto : Nat) =>
    (us.take upto).any (·.name == n) || (Generated.excTable.any (·.1 == n))
  for (u, i) in us.zipIdx do
    for b in u.bases do
      if !known b i then throw s!"class {u.name}: unknown base {b}"
  if !known cname us.length then throw s!"unknown exception class {cname}"
  -- what the run of the implementation was: "class_error" (Python refused the class hierarchy),
  -- "ctor_error" (the prepared exception could not be constructed), "repr_error" (its repr() raises), "ran"
  let implKind ← impl.getObjValAs? String "kind"
  if !["class_error", "ctor_error", "repr_error", "ran"].contains implKind then
    throw s!"bad impl kind {implKind}"
  let implClassError := implKind == "class_error"
  let some mros := userMros us
    | (if implClassError then
        return Json.mkObj [("skip", true), ("why", "Python cannot create the class hierarchy (the C3 model agrees)")]
       else return Json.mkObj [("agree", false), ("holds", true), ("branch", "ctor-disagreement"),
        ("model", Json.mkObj [("mro", "inconsistent")]), ("why", "the C3 model finds no MRO, Python created the classes")])
  if implClassError then
    return Json.mkObj [("agree", false), ("holds", true), ("branch", "ctor-disagreement"),
      ("model", Json.mkObj [("mros", toJson (mros.map (·.2)))]), ("why", "the C3 model finds an MRO, Python refuses the classes")]
  let (ci, sh) := classInfo us mros cname
  -- the prepared exception object
  let built := sh.construct init kw
  if implKind == "repr_error" then
    return Json.mkObj [("skip", true), ("why", "repr() of the prepared exception raises: outside the modelled domain")]
  if implKind == "ctor_error" then
    match built with
    | none => return Json.mkObj [("skip", true), ("why", "the prepared exception cannot be constructed (model agrees)")]
    | some a => return Json.mkObj [("agree", false), ("holds", true), ("branch", "ctor-disagreement"),
        ("model", Json.mkObj [("orig_args", argsToJson a)]), ("why", "model constructs, implementation raises")]
  let some a0 := built
    | return Json.mkObj [("agree", false), ("holds", true), ("branch", "ctor-disagreement"),
        ("model", Json.mkObj [("ctor", "raises")]), ("why", "model says the constructor raises, implementation built it")]
  let e0 : ExcObj := { id := 0, cls := ci, args := setArgs.getD a0, init := init,
                       cause := if hasCause then some 7 else none,
                       context := if hasContext then some 8 else none }
  -- validation of the class model against the real object
  let io ← impl.getObjVal? "orig"
  let implOrigMro ← strsOfJson (← io.getObjVal? "mro")
  let implOrigArgs ← argsOfJson (← io.getObjVal? "args")
  let implRebuild ← reqNullable io "rebuild" argsOfJson
  let implFalsy ← io.getObjValAs? Bool "falsy"
  let classAgree := implOrigMro == ci.mro && implOrigArgs == e0.args &&
    implRebuild == ci.ctor e0.args && implFalsy == ci.falsy
  -- what the recording frame saw
  let implOrigin ← impl.getObjVal? "origin"
  -- null (the recording frame saw nothing) | "unknown" (no recording frame) | what it saw
  let recO : Option RecOrigin ← (match implOrigin with
    | .null => pure none
    | .str "unknown" => pure none
    | .obj _ => do return some { isInj := ← reqBool implOrigin "isInj",
                                 mro := ← strsOfJson (← implOrigin.getObjVal? "mro"),
                                 args := ← argsOfJson (← implOrigin.getObjVal? "args") }
    | v => throw s!"bad origin {v.compress}")
  if recorder != (implOrigin != .str "unknown") then
    throw "origin: \"unknown\" exactly when there is no recording frame"
  -- an error object glom creates: its args are not modelled, they are taken from the recording
  let internal := fun (c : String) =>
    ({ id := internalId c, cls := (classInfo us mros c).1,
       args := (match recO with | some ro => if !ro.isInj && ro.mro.contains c then ro.args else [] | none => []),
       -- raised inside an `except` block (`raise TypeError('failed to iterate …')`): Python chains the exception
       -- being handled as `__context__` (PathAccessErrors are raised after their `except` block)
       context := if c == F.iterRaises then some 9 else none } : ExcObj)
  -- where the fault originates
  let E : EvalEnv := { F := F, inj := e0, internal := internal }
  let outc := eval E spec
  -- origin for the checker: the REFERENCE evaluation (documented facts, independent of what was
  -- extracted) says which exception object must reach the handler
  let refF := docFacts F.attrGuarded
  let refOutc := eval { E with F := refF } spec
  let originOf := fun (o : Outc) => match o with | .val => none | .exc e => some e
  let modelOrigin := originOf outc
  let checkOrigin := originOf refOutc
  let originAgree : Bool := match implOrigin, modelOrigin with
    | .null, none => true
    | .str _, none => true
    | .str _, some e => e.id == 0
    | _, some e => (match recO with
        | some ro => ro.isInj == (e.id == 0) && ro.mro == e.cls.mro && ro.args == e.args
        | none => false)
    | _, _ => false
  if let (.str _, some e) := (implOrigin, checkOrigin) then
    if e.id != 0 then
      return Json.mkObj [("skip", true), ("why", "an object other than the prepared one reaches the handler, without a recording frame")]
  let res := glomTop F s (toBody outc)
  let modelObs := observe modelOrigin res
  let implJ ← impl.getObjVal? "obs"
  let implObs ← obsOfJson implJ modelOrigin recO
  let implObsRef ← obsOfJson implJ checkOrigin recO
  let holds := checkC04 s checkOrigin implObsRef
  let modelHolds := checkC04 s modelOrigin modelObs
  let agree := classAgree && originAgree && modelObs == implObs && sameObj outc refOutc
  let originTag := match modelOrigin with
    | none => ""
    | some e => if e.id == 0 then "injected/" else s!"{e.cls.name}/"
  let feats := (featOf specJ).eraseDups
  let featTag := String.join (feats.map (fun f => s!"+{f}")) ++
    (if raiseClass then "+raise-class" else "") ++ (if us.any (·.bases.length > 1) then "+multi-base" else "")
  -- the shapes of the two known findings (the harness classifies a failure as known only if, in addition,
  -- the implementation behaves like this model of the current code and the model itself breaks the property)
  let knownShape : String :=
    if ci.frozen || ci.boolRaises then "glomerror_refuses_setattr"
    else if ci.copyVia == .foreign then "copy_returns_other_class" else ""
  return Json.mkObj [("agree", agree), ("holds", holds), ("model_holds", modelHolds),
    ("wf", WF F), ("known_shape", knownShape),
    ("model", Json.mkObj [("obs", obsToJson modelObs), ("orig_mro", toJson ci.mro),
      ("orig_args", argsToJson e0.args), ("rebuild", match ci.ctor e0.args with | some a => argsToJson a | none => .null),
      ("falsy", ci.falsy),
      ("origin", match modelOrigin with
        | none => .null
        | some e => Json.mkObj [("isInj", e.id == 0), ("mro", toJson e.cls.mro), ("args", argsToJson e.args)])]),
    ("branch", (originTag ++ branchOf F s modelOrigin res ++ featTag : String)),
    ("why", (if agree then "" else
      (if !classAgree then "class model (mro/args/rebuild/falsy) differs; " else "") ++
      (if !originAgree then "origin differs; " else "") ++
      (if !sameObj outc refOutc then "extracted facts change the origin; " else "") ++
      (if modelObs != implObs then "observation differs" else "") : String))]

end Glom.C04.Driver
