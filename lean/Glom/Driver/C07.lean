import Glom.Driver.InterpRun
import Glom.Spec.Lexical
import Glom.Spec.C07
import Glom.Spec.C08
namespace Glom.C07.Driver
open Lean Glom.Interp Glom.Interp.Codec Glom.Interp.Run

/-- `Match({…, <binding key>: T, Optional(k, default=D): T})`: the default is evaluated by
    `arg_val(target, D, scope)` at the Match dict's own scope (matching.py `_handle_dict`, after the
    item loop), so it sees what is visible where the Match is written and nothing the keys of the
    items bound.  Reference: D in argument position at the top-level lexical scope (Optional keys are
    not constructs of the proved `Spec` type: this observation is checked against the lexical model
    of D only). -/
def runOptDefault (j : Json) : Except String Json := do
  let d ← specOfJson (← j.getObjVal? "dflt")
  let target ← vOfJson (← j.getObjVal? "target")
  let scope ← (match j.getObjVal? "scope" with
    | .ok (.arr a) => a.toList.mapM (fun e => match e with
        | .arr #[.str n, v] => do return (n, ← vOfJson v)
        | _ => throw s!"bad scope entry {e.compress}")
    | _ => pure [])
  let impl ← j.getObjVal? "impl"
  let implRes : Except String V ← (match impl.getObjVal? "ok" with
    | .ok v => do return .ok (← vOfJson v)
    | .error _ => do return .error (← impl.getObjValAs? String "err"))
  let (_, rres) := glomTopLex prims 64 (.coalesce [] (some d) Option.none .never []) target scope {}
  let refRes : Except String V := match rres with | .ok v => .ok v | .error e => .error e.cls
  if outOfDomain refRes then
    return Json.mkObj [("skip", true), ("why", "outside the modelled domain")]
  let repeatSame ← j.getObjValAs? Bool "impl_repeat_same"
  let same := resEq refRes implRes
  return Json.mkObj [("agree", same), ("holds", same && repeatSame),
    ("why", if !same then "the default of an Optional key saw a binding made by the key of a sibling item (or missed an outer one)"
            else if !repeatSame then "a second identical call behaved differently (state outlived the call)" else ""),
    ("model", Json.mkObj [("res", resToJson refRes)]),
    ("branch", match refRes with | .ok _ => "optdefault-ok" | .error e => s!"optdefault-err-{e}")]

/-- `(S(v=Vars(name=<mutable default>)), Call(<mutator>, args=(S.v.name, T))…, S.v.name)`, one spec
    object, several top-level calls: "never into the next call" — every call yields what the
    mutators make of the default *as written* (`varsMutRef`); `agree` compares with the code as
    it is (`varsMutCode`: the default object is shared by the calls) -/
def runVarsMut (j : Json) : Except String Json := do
  let dflt ← vOfJson (← j.getObjVal? "dflt")
  let ms ← (← arr j "muts").mapM (fun m => match m with
    | .str s => (match Mut.ofString? s with
      | some x => pure x
      | none => throw s!"unknown mutator {s}")
    | o => throw s!"bad mutator {o.compress}")
  let targets ← (← arr j "targets").mapM vOfJson
  let impls ← (← arr j "impl").mapM (fun o => match o.getObjVal? "ok" with
    | .ok v => do return (Except.ok (← vOfJson v) : Except String V)
    | .error _ => do return .error (← o.getObjValAs? String "err"))
  if impls.length != targets.length then throw "impl / targets length"
  let render (os : List (Option V)) : List (Except String V) :=
    os.map (fun o => match o with | some v => .ok v | none => .error "raises")
  let refObs := render (varsMutRef prims dflt ms targets)
  let codeObs := render (varsMutCode prims dflt ms targets)
  if refObs.any (fun r => match r with | .error _ => true | _ => false) then
    return Json.mkObj [("skip", true), ("why", "a mutator that does not apply to the default")]
  let eqAll (a b : List (Except String V)) : Bool := a.length == b.length && (a.zip b).all (fun x => resEq x.1 x.2)
  let holds := eqAll refObs impls
  let agree := eqAll codeObs impls
  return Json.mkObj [("agree", agree), ("holds", holds),
    ("why", if holds then "" else "a Vars default mutated in place by one top-level call was seen by the next call of the same spec object"),
    ("model", Json.arr (codeObs.map resToJson).toArray),
    ("reference", Json.arr (refObs.map resToJson).toArray),
    ("known_shape", if !holds && agree then "vars_mutable_default_persists" else ""),
    ("branch", Json.str (if holds then "varsmut-fresh" else if agree then "varsmut-persists" else "varsmut-other"))]

def implReads (log : List Json) : Except String (List (Nat × Except Err V)) :=
  log.filterMapM (fun e => match e.getObjValAs? Nat "read" with
    | .ok id => do
      match e.getObjVal? "ok" with
      | .ok v => return some (id, .ok (← vOfJson v))
      | .error _ => return some (id, .error ⟨← e.getObjValAs? String "err"⟩)
    | .error _ => pure none)

def eqText (a b : V) : Bool := (vToJson (canonV a)).compress == (vToJson (canonV b)).compress

/-- C07 checker: what every reader returned (value or PathAccessError) — hence the result of the
    call — is what the lexically scoped model yields; the caller's scope mapping is untouched; a
    second call with the same arguments behaves like the first (nothing outlives a call). -/
def run (j : Json) : Except String Json := do
  if (j.getObjValAs? String "kind").toOption == some "optdefault" then
    return ← runOptDefault j
  if (j.getObjValAs? String "kind").toOption == some "varsmut" then
    return ← runVarsMut j
  let c ← decode j
  let (mres, mlog) := runModel c
  if outOfDomain mres then
    return Json.mkObj [("skip", true), ("why", "outside the modelled domain")]
  if !(keyWrappersPlacedF (fuelFor c.spec) .auto false c.spec) then
    return Json.mkObj [("skip", true), ("why", "Optional / Required outside the key position of a Match dict")]
  let mlogJ := mlog.map evToJson
  let logAgree := logText mlogJ == logText c.implLog
  let untouched ← j.getObjValAs? Bool "impl_scope_untouched"
  let repeatSame ← j.getObjValAs? Bool "impl_repeat_same"
  let agree := resEq mres c.implRes && logAgree
  -- the property is evaluated against the reference semantics: the lexical, environment-passing
  -- interpreter (`interp` on the canonical scope `Obs`), proved equal to the frames model
  let (_, rres) := glomTopLex prims (fuelFor c.spec) c.spec c.target c.scope {}
  let refRes : Except String V := match rres with | .ok v => .ok v | .error e => .error e.cls
  -- the independent checker: every recorded read is what the static scoping rules demand
  -- (`Ref(name)` evaluates a spec text at another place than where it is written: not static)
  let reads ← implReads c.implLog
  let visOK := if noRefF (fuelFor c.spec) c.spec then checkVis eqText (fuelFor c.spec) c.spec c.scope reads else true
  let holds := visOK && resEq refRes c.implRes && untouched && repeatSame
  return Json.mkObj [("agree", agree), ("holds", holds),
    ("why", if !visOK then "a reader yielded something else than the statically (lexically) visible binding of its name"
            else if !untouched then "the caller's scope mapping was modified"
            else if !repeatSame then "a second identical call behaved differently (state outlived the call)"
            else if !holds then "result differs from the lexically scoped evaluation" else ""),
    ("model", Json.mkObj [("res", resToJson mres), ("log", Json.arr mlogJ.toArray)]),
    ("branch", match mres with | .ok _ => "ok" | .error e => s!"err-{e}")]

end Glom.C07.Driver
