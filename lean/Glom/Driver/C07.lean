import Lean.Data.Json
/- stub: the C07 driver is not built yet -/
namespace Glom.C07.Driver
open Lean

def run (_j : Json) : Except String Json := .error "property C07: driver not implemented yet"

end Glom.C07.Driver
