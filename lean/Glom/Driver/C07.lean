import Glom.Driver.InterpRun
import Glom.Spec.Lexical
namespace Glom.C07.Driver
open Lean Glom.Interp Glom.Interp.Codec Glom.Interp.Run

/-- `Match({…, <binding key>: T, Optional(k, default=D): T})`: the default is evaluated by
    `arg_val(target, D, scope)` at the Match dict's own scope (matching.py `_handle_dict`, after the
    item loop), so it sees what is visible where the Match is written and nothing the keys of the
    items bound.  Reference: D in argument position at the top-level lexical scope (Optional keys are
    not constructs of the proved `Spec` type: this observation is checked against the lexical model
    of D only). -/
def runOptDefault (j : Json) : Except String Json := do
  let d ← specOfJson (← j.getObjVal? "dflt")
  let target ← vOfJson (← j.getObjVal? "target")
  let scope ← (match j.getObjVal? "scope" with
    | .ok (.arr a) => a.toList.mapM (fun e => match e with
        | .arr #[.str n, v] => do return (n, ← vOfJson v)
        | _ => throw s!"bad scope entry {e.compress}")
    | _ => pure [])
  let impl ← j.getObjVal? "impl"
  let implRes : Except String V ← (match impl.getObjVal? "ok" with
    | .ok v => do return .ok (← vOfJson v)
    | .error _ => do return .error (← impl.getObjValAs? String "err"))
  let (_, rres) := glomTopLex prims 64 (.coalesce [] (some d) Option.none .never []) target scope {}
  let refRes : Except String V := match rres with | .ok v => .ok v | .error e => .error e.cls
  if outOfDomain refRes then
    return Json.mkObj [("skip", true), ("why", "outside the modelled domain")]
  let repeatSame := (j.getObjValAs? Bool "impl_repeat_same").toOption.getD true
  let same := resEq refRes implRes
  return Json.mkObj [("agree", same), ("holds", same && repeatSame),
    ("why", if !same then "the default of an Optional key saw a binding made by the key of a sibling item (or missed an outer one)"
            else if !repeatSame then "a second identical call behaved differently (state outlived the call)" else ""),
    ("model", Json.mkObj [("res", resToJson refRes)]),
    ("branch", match refRes with | .ok _ => "optdefault-ok" | .error e => s!"optdefault-err-{e}")]

/-- C07 checker: what every reader returned (value or PathAccessError) — hence the result of the
    call — is what the lexically scoped model yields; the caller's scope mapping is untouched; a
    second call with the same arguments behaves like the first (nothing outlives a call). -/
def run (j : Json) : Except String Json := do
  if (j.getObjValAs? String "kind").toOption == some "optdefault" then
    return ← runOptDefault j
  let c ← decode j
  let (mres, mlog) := runModel c
  if outOfDomain mres then
    return Json.mkObj [("skip", true), ("why", "outside the modelled domain")]
  let mlogJ := mlog.map evToJson
  let logAgree := logText mlogJ == logText c.implLog
  let untouched := (j.getObjValAs? Bool "impl_scope_untouched").toOption.getD true
  let repeatSame := (j.getObjValAs? Bool "impl_repeat_same").toOption.getD true
  let agree := resEq mres c.implRes && logAgree
  -- the property is evaluated against the reference semantics: the lexical, environment-passing
  -- interpreter (`interp` on the canonical scope `Obs`), proved equal to the frames model
  let (_, rres) := glomTopLex prims (fuelFor c.spec) c.spec c.target c.scope {}
  let refRes : Except String V := match rres with | .ok v => .ok v | .error e => .error e.cls
  let holds := resEq refRes c.implRes && untouched && repeatSame
  return Json.mkObj [("agree", agree), ("holds", holds),
    ("why", if !untouched then "the caller's scope mapping was modified"
            else if !repeatSame then "a second identical call behaved differently (state outlived the call)"
            else if !holds then "result differs from the lexically scoped evaluation" else ""),
    ("model", Json.mkObj [("res", resToJson mres), ("log", Json.arr mlogJ.toArray)]),
    ("branch", match mres with | .ok _ => "ok" | .error e => s!"err-{e}")]

end Glom.C07.Driver
