import Glom.Driver.InterpRun
import Glom.Spec.Lexical
namespace Glom.C07.Driver
open Lean Glom.Interp Glom.Interp.Codec Glom.Interp.Run

/-- C07 checker: what every reader returned (value or PathAccessError) — hence the result of the
    call — is what the lexically scoped model yields; the caller's scope mapping is untouched; a
    second call with the same arguments behaves like the first (nothing outlives a call). -/
def run (j : Json) : Except String Json := do
  let c ← decode j
  let (mres, mlog) := runModel c
  if outOfDomain mres then
    return Json.mkObj [("skip", true), ("why", "outside the modelled domain")]
  let mlogJ := mlog.map evToJson
  let logAgree := logText mlogJ == logText c.implLog
  let untouched := (j.getObjValAs? Bool "impl_scope_untouched").toOption.getD true
  let repeatSame := (j.getObjValAs? Bool "impl_repeat_same").toOption.getD true
  let agree := resEq mres c.implRes && logAgree
  -- the property is evaluated against the reference semantics: the lexical, environment-passing
  -- interpreter (`interp` on the canonical scope `Obs`), proved equal to the frames model
  let (_, rres) := glomTopLex prims (fuelFor c.spec) c.spec c.target c.scope {}
  let refRes : Except String V := match rres with | .ok v => .ok v | .error e => .error e.cls
  let holds := resEq refRes c.implRes && untouched && repeatSame
  return Json.mkObj [("agree", agree), ("holds", holds),
    ("why", if !untouched then "the caller's scope mapping was modified"
            else if !repeatSame then "a second identical call behaved differently (state outlived the call)"
            else if !holds then "result differs from the lexically scoped evaluation" else ""),
    ("model", Json.mkObj [("res", resToJson mres), ("log", Json.arr mlogJ.toArray)]),
    ("branch", match mres with | .ok _ => "ok" | .error e => s!"err-{e}")]

end Glom.C07.Driver
