import Lean.Data.Json
import Glom.Spec.C05
import Glom.Spec.C05Tree
import Glom.Spec.C05Repr
import Glom.Spec.C05Lift
import Glom.Generated.C05Facts
/-
  C05 driver.  case: {"events":[["enter",parent,flagged,spec,target,tid,tlen|null,slen|null(,specValue|null,targetValue|null)] | ["ok"] | ["err",e]…],
                      "errors":[[e, text]…], "root_error":e, "width":w, "np":[code points that are not printable],
                      "impl":{"trace": text}}
              or    {"reprcase":{"limits":[[name,n]…],"value":v,"impl":text}, "np":[…]}   (bbrepr alone, any limits)
  values: {"i":n} {"s":str} {"o":repr,"bn":name|null} {"l":[…]} {"t":[…]} {"set":[…]} {"fs":[…]} {"dq":[…]}
          {"arr":[typecode,[…]]} {"d":[[k,v]…]}
-/
namespace Glom.C05.Driver
open Lean Glom.C05

def optNat (j : Json) : Option Nat := match j with | .null => none | _ => j.getNat?.toOption

partial def rvOfJson (j : Json) : Except String RV := do
  let items := fun (a : Array Json) => do
    let xs ← a.toList.mapM rvOfJson
    return xs.foldr (fun x acc => RV.cons x acc) RV.nil
  match j with
  | .obj _ =>
    if let .ok v := j.getObjVal? "i" then return .int (← v.getInt?)
    if let .ok (.str s) := j.getObjVal? "s" then return .str s.toList
    if let .ok (.str r) := j.getObjVal? "o" then
      let bn := match j.getObjVal? "bn" with
        | .ok (.str n) => some n.toList
        | _ => none
      return .other r.toList bn
    if let .ok (.arr a) := j.getObjVal? "l" then return .seq .list (← items a)
    if let .ok (.arr a) := j.getObjVal? "t" then return .seq .tuple (← items a)
    if let .ok (.arr a) := j.getObjVal? "set" then return .seq .set (← items a)
    if let .ok (.arr a) := j.getObjVal? "fs" then return .seq .frozenset (← items a)
    if let .ok (.arr a) := j.getObjVal? "dq" then return .seq .deque (← items a)
    if let .ok (.arr #[.str tc, .arr a]) := j.getObjVal? "arr" then
      return .seq (.array (tc.toList.headD 'i')) (← items a)
    if let .ok (.arr a) := j.getObjVal? "d" then
      let es ← a.toList.mapM (fun e => match e with
        | .arr #[k, v] => do return ((← rvOfJson k), (← rvOfJson v))
        | _ => throw "bad dict entry")
      return .dict (es.foldr (fun kv acc => RV.cons kv.1 (RV.cons kv.2 acc)) RV.nil)
    throw s!"bad value {j.compress}"
  | _ => throw s!"bad value {j.compress}"

def optRV (j : Json) : Except String (Option RV) :=
  match j with
  | .null => pure none
  | _ => do return some (← rvOfJson j)

/-- an event with the values of its spec and target, where the harness could encode them -/
structure EvV where
  ev : Ev
  sv : Option RV := none
  tv : Option RV := none

def evOfJson (j : Json) : Except String EvV :=
  match j with
  | .arr #[.str "enter", p, .bool fl, .str sp, .str tg, tid, tl, sl] => do
    return { ev := .enter (← p.getNat?) fl sp.toList tg.toList (← tid.getNat?) (optNat tl) (optNat sl) }
  | .arr #[.str "enter", p, .bool fl, .str sp, .str tg, tid, tl, sl, sv, tv] => do
    return { ev := .enter (← p.getNat?) fl sp.toList tg.toList (← tid.getNat?) (optNat tl) (optNat sl),
             sv := (← optRV sv), tv := (← optRV tv) }
  | .arr #[.str "ok"] => pure { ev := .exitOk }
  | .arr #[.str "err", e] => do return { ev := .exitErr (← e.getNat?) }
  | _ => .error s!"bad event {j.compress}"

/-- the event with the texts `f` computes from the values (the recorded text where there is no value) -/
def withTexts (f : RV → Str) (e : EvV) : Ev :=
  match e.ev with
  | .enter p fl sp tg tid tl sl =>
    .enter p fl ((e.sv.map f).getD sp) ((e.tv.map f).getD tg) tid tl sl
  | x => x

def printable (np : List Nat) (c : Char) : Bool :=
  if c.toNat < 127 then 32 ≤ c.toNat else !np.contains c.toNat

def npOf (j : Json) : List Nat :=
  match j.getObjVal? "np" with
  | .ok (.arr a) => a.toList.filterMap (fun x => x.getNat?.toOption)
  | _ => []

def reprCase (j rc : Json) : Except String Json := do
  if let .ok (.str why) := rc.getObjVal? "skip" then
    return Json.mkObj [("skip", true), ("why", s!"value outside the modelled kinds: {why}")]
  let tbl ← (match rc.getObjVal? "limits" with
    | .ok (.arr a) => a.toList.mapM (fun e => match e with
        | .arr #[.str n, v] => do return (n, (← v.getNat?))
        | _ => throw "bad limit")
    | _ => throw "limits missing")
  let v ← rvOfJson (← rc.getObjVal? "value")
  let impl ← rc.getObjValAs? String "impl"
  let P := printable (npOf j)
  let L := limitsOf tbl
  let model := String.ofList (bbrepr L P v)
  let exact := fits L P v
  -- a value within the limits is rendered as Python's repr renders it (Props/C05Repr: c05_repr_exact)
  let refOK := !exact || bbrepr L P v == refRepr P v
  return Json.mkObj [("agree", model == impl && refOK), ("holds", true),
    ("branch", if exact then "repr-unit-within-limits" else "repr-unit-elided"),
    ("why", if model != impl then "the model of bbrepr (reprlib.Repr with these limits) differs from the implementation" else ""),
    ("model", Json.mkObj [("repr", model)])]

def run (j : Json) : Except String Json := do
  if let .ok rc := j.getObjVal? "reprcase" then return (← reprCase j rc)
  let evvs ← (match j.getObjVal? "events" with
    | .ok (.arr a) => a.toList.mapM evOfJson
    | _ => throw "events missing")
  let errs ← (match j.getObjVal? "errors" with
    | .ok (.arr a) => a.toList.mapM (fun e => match e with
        | .arr #[n, .str t] => do return ((← n.getNat?), t.toList)
        | _ => throw "bad error entry")
    | _ => throw "errors missing")
  if evvs.isEmpty then
    -- glom() raised an object that is not a GlomError (GlomError.wrap gave the original back)
    match (← j.getObjVal? "impl").getObjVal? "unwrapped" with
    | .ok (.str cls) =>
      let couldWrap := match (← j.getObjVal? "impl").getObjVal? "could_wrap" with
        | .ok (.bool b) => b
        | _ => false
      if couldWrap then
        return Json.mkObj [("agree", false), ("holds", false), ("branch", "unwrapped-but-wrappable"),
          ("why", s!"glom() raised a bare {cls} that can be re-created from its .args (so it can be wrapped): its message contains no target-spec trace"),
          ("model", Json.mkObj [("trace", "")])]
      else
        return Json.mkObj [("skip", true), ("why", s!"glom() raised the user's own {cls} object, which cannot be re-created from its .args: outside the property (ASSUMPTIONS)")]
    | _ => return Json.mkObj [("skip", true), ("why", "the evaluation did not fail: no trace")]
  let rootError ← j.getObjValAs? Nat "root_error"
  let width ← j.getObjValAs? Nat "width"
  let impl ← (← j.getObjVal? "impl").getObjValAs? String "trace"
  let errText := fun (e : Nat) => ((errs.find? (·.1 == e)).map (·.2)).getD "<unknown error>".toList
  -- the values: the MODEL renders them with the model of bbrepr under the limits extracted from
  -- glom's instance; the PROPERTY is stated about Python's own repr of them (`refTrace`)
  let P := printable (npOf j)
  let L := limitsOf Glom.Generated.bbLimitTable
  let recorded := evvs.map (·.ev)
  let evs := evvs.map (withTexts (traceRepr L P))          -- what the model renders
  let evsR := evvs.map (withTexts (refTrace P))            -- what the lines have to show
  let nValues := (evvs.filter (fun e => e.sv.isSome || e.tv.isSome)).length
  -- tie of the bbrepr model: on every value it reproduces the text bbrepr gave
  let reprAgree := evs == recorded
  let elided := evs != evsR
  let model := traceText evs errText rootError width
  let fs := replay evs
  let rows := unpack fs 1
  let branching := fs.toList.any (fun f => f.childErrors.length > 1)
  let chained := fs.toList.any (·.noPy)
  let message := ((← j.getObjVal? "impl").getObjValAs? String "message").toOption
  let tailOK := match message with
    | some m => endsWithRootError errText rootError m
    | none => true
  let strFailed := match (← j.getObjVal? "impl").getObjVal? "str_failed" with
    | .ok (.str _) => true
    | _ => false
  -- `traceback.format_exception_only` of an error whose own `__str__` raised
  let unrendered := errs.any (fun e => isInfix "<exception str() failed>".toList e.2)
  -- the property on str(exc) itself: the trace the message contains satisfies the clauses
  let msgOK := match message with
    | some m => checkC05 evsR errText rootError (msgTrace errText rootError m)
    | none => true
  -- tie: the message is the header, the model's trace at the default width, then the traceback lines
  let msgWidth := ((← j.getObjVal? "impl").getObjValAs? Nat "msg_width").toOption
  let msgAgree := match message, msgWidth with
    | some m, some w => strFailed ||
        isPrefix (msgHeader ++ (if w == width then model else traceText evs errText rootError w).toList ++ ['\n']) m.toList
    | _, _ => true
  let traceOK := checkC05 evsR errText rootError impl
  let holds := !strFailed && !unrendered && traceOK && tailOK && msgOK
  let modelHolds := checkC05 evsR errText rootError model
  -- the tie of the structural theorems (Props/C05Spine) to the code: the recorded evaluation must
  -- be the event list of a well-formed evaluation tree whose root raises the root error
  let domainWhy : String :=
    match treeOf evs with
    | none => "the recorded events are not the events of an evaluation tree (a call made with a scope that is neither the node's own nor chain_child of it)"
    | some t =>
      if events t != evs then "events (treeOf evs) differs from the recorded events"
      else if t.err != rootError then "the root call did not raise the root error"
      else if !chainOk true t.root then "a chained step continues from a sub-evaluation that raised"
      else if !onePath t.err t.kids then "the root error is the outcome of a call outside the propagation path"
      else ""
  let inDom := domainWhy == ""
  -- the lift theorem (Props/C05Text `c05_text_check`): where its hypotheses hold of the recorded evaluation
  -- (and no value is elided, so that the model's events are the checker's), the model's text satisfies checkC05
  let liftHyps := liftHypsOK evs ("<unknown error>".toList :: errs.map (·.2)) rootError width
  let liftOK := !(liftHyps && inDom && !elided) || modelHolds
  let clauses := clausesC05 evsR errText rootError impl
  let clauseNames := ["begin with the root target", "list the failing path in order", "show the failing spec's target",
    "show every failed branch", "stop at the failing spec (it lists a spec that returned normally below it)",
    "follow the branch that really raised (a spec that completed normally is shown with branches: a stale, recovered alternative leaks in)"]
  let failedClauses := (clauses.zip clauseNames).filterMap (fun (ok, n) => if ok then none else some n)
  return Json.mkObj [("agree", model == impl && inDom && msgAgree && reprAgree && liftOK), ("lift_hyps", liftHyps), ("lift_ok", liftOK), ("holds", holds), ("in_domain", inDom), ("domain_why", domainWhy), ("model_holds", modelHolds), ("clauses", toJson clauses),
    ("message_agrees", msgAgree), ("repr_agrees", reprAgree), ("values", nValues),
    ("message_clauses", toJson (match message with | some m => clausesC05 evsR errText rootError (msgTrace errText rootError m) | none => [])),
    ("why", if holds then (if !liftOK then "FRAMEWORK: the hypotheses of the lift theorem hold of this evaluation but the model's text does not satisfy checkC05" else if reprAgree then "" else "the model of bbrepr differs from the text bbrepr gave for a spec / target value") else if strFailed then "str(exc) raised: the error has no message" else if unrendered then "the message of an error in the trace could not be rendered: its __str__ raised" else if !tailOK then "the message does not end with the type and message of the original error" else if traceOK && !msgOK then "str(exc) does not contain a target-spec trace that begins with the root target / lists the failing path in order / shows the failing spec's target / shows every failed branch / stops at the failing spec" else
      "the trace does not " ++ ", ".intercalate failedClauses ++
      (if elided then " — a Target / Spec line does not show the value it was given: the rendering of a value that fits the line is elided (a reprlib size limit is in force)" else "")),
    ("model", Json.mkObj [("trace", model)]),
    ("branch", (if branching then "branching" else "linear") ++ (if chained then "+chain" else "") ++
               s!"-rows{rows.length}" ++ (if nValues > 0 then "+values" else "") ++ (if liftHyps then "+lift" else ""))]

end Glom.C05.Driver
