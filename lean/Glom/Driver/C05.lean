import Lean.Data.Json
import Glom.Spec.C05
import Glom.Spec.C05Tree
/-
  C05 driver.  case: {"events":[["enter",parent,flagged,spec,target,tid,tlen|null,slen|null] | ["ok"] | ["err",e]…],
                      "errors":[[e, text]…], "root_error":e, "width":w, "impl":{"trace": text}}
-/
namespace Glom.C05.Driver
open Lean Glom.C05

def optNat (j : Json) : Option Nat := match j with | .null => none | _ => j.getNat?.toOption

def evOfJson (j : Json) : Except String Ev :=
  match j with
  | .arr #[.str "enter", p, .bool fl, .str sp, .str tg, tid, tl, sl] => do
    return .enter (← p.getNat?) fl sp.toList tg.toList (← tid.getNat?) (optNat tl) (optNat sl)
  | .arr #[.str "ok"] => pure .exitOk
  | .arr #[.str "err", e] => do return .exitErr (← e.getNat?)
  | _ => .error s!"bad event {j.compress}"

def run (j : Json) : Except String Json := do
  let evs ← (match j.getObjVal? "events" with
    | .ok (.arr a) => a.toList.mapM evOfJson
    | _ => throw "events missing")
  let errs ← (match j.getObjVal? "errors" with
    | .ok (.arr a) => a.toList.mapM (fun e => match e with
        | .arr #[n, .str t] => do return ((← n.getNat?), t.toList)
        | _ => throw "bad error entry")
    | _ => throw "errors missing")
  if evs.isEmpty then
    -- glom() raised an object that is not a GlomError (GlomError.wrap gave the original back)
    match (← j.getObjVal? "impl").getObjVal? "unwrapped" with
    | .ok (.str cls) =>
      let couldWrap := match (← j.getObjVal? "impl").getObjVal? "could_wrap" with
        | .ok (.bool b) => b
        | _ => false
      if couldWrap then
        return Json.mkObj [("agree", false), ("holds", false), ("branch", "unwrapped-but-wrappable"),
          ("why", s!"glom() raised a bare {cls} that can be re-created from its .args (so it can be wrapped): its message contains no target-spec trace"),
          ("model", Json.mkObj [("trace", "")])]
      else
        return Json.mkObj [("skip", true), ("why", s!"glom() raised the user's own {cls} object, which cannot be re-created from its .args: outside the property (ASSUMPTIONS)")]
    | _ => return Json.mkObj [("skip", true), ("why", "the evaluation did not fail: no trace")]
  let rootError ← j.getObjValAs? Nat "root_error"
  let width ← j.getObjValAs? Nat "width"
  let impl ← (← j.getObjVal? "impl").getObjValAs? String "trace"
  let errText := fun (e : Nat) => ((errs.find? (·.1 == e)).map (·.2)).getD "<unknown error>".toList
  let model := traceText evs errText rootError width
  let fs := replay evs
  let rows := unpack fs 1
  let branching := fs.toList.any (fun f => f.childErrors.length > 1)
  let chained := fs.toList.any (·.noPy)
  let message := ((← j.getObjVal? "impl").getObjValAs? String "message").toOption
  let tailOK := match message with
    | some m => endsWithRootError errText rootError m
    | none => true
  let strFailed := match (← j.getObjVal? "impl").getObjVal? "str_failed" with
    | .ok (.str _) => true
    | _ => false
  -- `traceback.format_exception_only` of an error whose own `__str__` raised
  let unrendered := errs.any (fun e => isInfix "<exception str() failed>".toList e.2)
  -- the property on str(exc) itself: the trace the message contains satisfies the clauses
  let msgOK := match message with
    | some m => checkC05 evs errText rootError (msgTrace errText rootError m)
    | none => true
  -- tie: the message is the header, the model's trace at the default width, then the traceback lines
  let msgWidth := ((← j.getObjVal? "impl").getObjValAs? Nat "msg_width").toOption
  let msgAgree := match message, msgWidth with
    | some m, some w => strFailed ||
        isPrefix (msgHeader ++ (if w == width then model else traceText evs errText rootError w).toList ++ ['\n']) m.toList
    | _, _ => true
  let traceOK := checkC05 evs errText rootError impl
  let holds := !strFailed && !unrendered && traceOK && tailOK && msgOK
  let modelHolds := checkC05 evs errText rootError model
  -- the tie of the structural theorems (Props/C05Spine) to the code: the recorded evaluation must
  -- be the event list of a well-formed evaluation tree whose root raises the root error
  let domainWhy : String :=
    match treeOf evs with
    | none => "the recorded events are not the events of an evaluation tree (a call made with a scope that is neither the node's own nor chain_child of it)"
    | some t =>
      if events t != evs then "events (treeOf evs) differs from the recorded events"
      else if t.err != rootError then "the root call did not raise the root error"
      else if !chainOk true t.root then "a chained step continues from a sub-evaluation that raised"
      else if !onePath t.err t.kids then "the root error is the outcome of a call outside the propagation path"
      else ""
  let inDom := domainWhy == ""
  return Json.mkObj [("agree", model == impl && inDom && msgAgree), ("holds", holds), ("in_domain", inDom), ("domain_why", domainWhy), ("model_holds", modelHolds), ("clauses", toJson (clausesC05 evs errText rootError impl)),
    ("message_agrees", msgAgree),
    ("message_clauses", toJson (match message with | some m => clausesC05 evs errText rootError (msgTrace errText rootError m) | none => [])),
    ("why", if holds then "" else if strFailed then "str(exc) raised: the error has no message" else if unrendered then "the message of an error in the trace could not be rendered: its __str__ raised" else if !tailOK then "the message does not end with the type and message of the original error" else if traceOK && !msgOK then "str(exc) does not contain a target-spec trace that begins with the root target / lists the failing path in order / shows the failing spec's target / shows every failed branch / stops at the failing spec" else "the trace does not begin with the root target / list the failing path in order / show the failing spec's target / show every failed branch / stop at the failing spec (it lists a spec that returned normally below it)"),
    ("model", Json.mkObj [("trace", model)]),
    ("branch", (if branching then "branching" else "linear") ++ (if chained then "+chain" else "") ++
               s!"-rows{rows.length}")]

end Glom.C05.Driver
