import Lean.Data.Json
/- stub: the C05 driver is not built yet -/
namespace Glom.C05.Driver
open Lean

def run (_j : Json) : Except String Json := .error "property C05: driver not implemented yet"

end Glom.C05.Driver
