import Lean.Data.Json
/- stub: the C12 driver is not built yet -/
namespace Glom.C12.Driver
open Lean

def run (_j : Json) : Except String Json := .error "property C12: driver not implemented yet"

end Glom.C12.Driver
