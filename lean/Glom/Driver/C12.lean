import Glom.Driver.C11
import Glom.Spec.C12
/-
  C12 driver: one JSON case in, one JSON verdict out.  Same case format as C11
  (classes, cflags, heap, target, scope, root, spelling) plus
     "ignore_missing": bool,
     "impl": {"res": …, "heap": […], "calls": 0, "hidden": b}
-/
namespace Glom.C12.Driver
open Lean Glom Glom.Mut Glom.C11 Glom.C12 Glom.C11.Driver

def run (j : Json) : Except String Json := do
  let c ← commonOfJson j
  let ignore ← j.getObjValAs? Bool "ignore_missing"
  let implJ ← j.getObjVal? "impl"
  let implObs ← obsOfJson implJ
  let rd : Option (List Step) ← (match ← j.getObjVal? "readback" with
    | .null => pure none
    | r => do pure (some (← stepsOfSpelling (← r.getObjVal? "spelling")))
    : Except String (Option (List Step)))
  let implRead : Option ReadObs ← (match ← implJ.getObjVal? "read" with
    | .null => pure none
    | r => do pure (some (← readObsOfJson r))
    : Except String (Option ReadObs))
  let scopeKept ← implJ.getObjValAs? Bool "scope_kept"
  let root := if c.sroot then c.sref else c.target
  -- `Delete.__init__`: the path it keeps (first step of an S-rooted path re-spelled per the extracted
  -- table); the prescription follows the path as it is read (`S.a` ≡ `S['a']`)
  let hasSS := c.steps.any (fun st => st.1 == "X")
  if !(intSafe c.steps && (match rd with | some rs => intSafe rs | none => true)) || hasSS then
    -- CPython's int() is not the kernel's on these segments: only what needs no int() is checked
    let weak := match implObs.res with
      | .ok v => v == c.target
      | .err .. => hasStar c.steps || implObs.heap == c.heap
    return Json.mkObj [("agree", true), ("holds", weak), ("model_holds", true), ("wf", C12.WF c.env),
      ("covered", false), ("model", Json.null), ("ref", if hasSS then "starstar" else "int-unsafe"),
      ("branch", if hasSS then "`**` path (enumeration is C14's): same object only"
                 else "int() outside the modelled subset: same object / atomicity only")]
  let kept := initPath (genSFirst "Delete") c.sroot c.steps
  let refSteps := readSteps c.sroot c.steps
  let (out, rdOut) := match rd with
    | some rs => deleteThenRead c.env c.sroot c.sref ignore c.heap c.target kept rs
    | none => (delete c.env c.sroot c.sref ignore c.heap c.target kept, none)
  let modelObs := C12.observe c.env out
  let modelRead := observeRead c.env rdOut
  let ref := refDelete c.refEnv c.heap root refSteps ignore
  if ref == .unsupported || (match out.2 with | .error .unmodelled => true | _ => false) ||
      (match rdOut with | some (.error .unmodelled) => true | _ => false) then
    return Json.mkObj [("skip", true), ("why", "path outside the modelled domain (`**`)")]
  let readAgree := match rd, implRead with
    | some _, some r => modelObs.hidden || ReadObs.beq modelRead r
    | none, none => true
    | _, _ => false
  let readHolds := match rd, implRead with
    | some rs, some r => checkReadDel c.refEnv c.heap root refSteps ignore (readSteps c.sroot rs) implObs.heap r
    | none, none => true
    | _, _ => false
  let agree := modelObs == implObs && readAgree
  let holds := checkC12 c.refEnv c.heap c.target root refSteps ignore implObs && readHolds && scopeKept
  let modelHolds := checkC12 c.refEnv c.heap c.target root refSteps ignore modelObs &&
    (match rd with
     | some rs => checkReadDel c.refEnv c.heap root refSteps ignore (readSteps c.sroot rs) modelObs.heap modelRead
     | none => true)
  let star := hasStar c.steps
  let cov := C12.covered c.env c.steps
  -- `c12_star` / `c12_star_model_checks`: T-rooted, `*` only, the matches of the parent path exist
  let covStar := star && !c.sroot && C12.WF c.env && classesOK c.env && noScope c.env && wfStar c.steps &&
    intSafe c.steps && (match c.steps.getLast? with | some (lop, _) => finalOk lop | none => false) &&
    (match matchesOf c.env c.heap c.steps.dropLast 0 c.target with | .ok _ => true | _ => false)
  let refTag := match ref with
    | .ok .. => "del" | .missingFinal e => s!"missing-final({e.cls})" | .missingParent .. => "missing-parent"
    | .fault s => (if s then "fault(handler)" else "fault") | .partialFail .. => "partial" | .unsupported => "unsupported"
  let rdTag := match rd with
    | none => ""
    | some _ => (match modelRead with
      | .notRun => "read-notrun:" | .ok _ => "read-ok:" | .err e => s!"read-{resTag e}:")
  let branch := (if c.sroot then "S:" else "") ++ rdTag ++ (if c.hasUreg then "user-reg:" else "") ++
    (if star then "star:" else "") ++
    (if ignore then "ignore:" else "") ++ refTag ++ "→" ++ resTag modelObs.res ++
    (if cov then " [thm]" else if covStar then " [thm*]" else "")
  return Json.mkObj [("agree", agree), ("holds", holds), ("model_holds", modelHolds),
    ("wf", C12.WF c.env), ("covered", cov || covStar), ("model", obsToJson modelObs),
    ("model_read", readObsToJson modelRead),
    ("why", if !scopeKept then "the mapping handed to glom(scope=…) was changed"
            else if !readHolds then "the read-back step does not see what Python's del leaves" else ""),
    ("ref", refTag), ("branch", branch)]

end Glom.C12.Driver
