import Glom.Driver.C11
import Glom.Spec.C12
/-
  C12 driver: one JSON case in, one JSON verdict out.  Same case format as C11
  (classes, cflags, heap, target, scope, root, spelling) plus
     "ignore_missing": bool,
     "impl": {"res": …, "heap": […], "calls": 0, "hidden": b}
-/
namespace Glom.C12.Driver
open Lean Glom Glom.Mut Glom.C11 Glom.C12 Glom.C11.Driver

def run (j : Json) : Except String Json := do
  let c ← commonOfJson j
  let ignore ← j.getObjValAs? Bool "ignore_missing"
  let implObs ← obsOfJson (← j.getObjVal? "impl")
  let root := if c.sroot then c.sref else c.target
  -- `Delete.__init__`: the path it keeps (first step of an S-rooted path re-spelled per the extracted
  -- table); the prescription follows the path as it is read (`S.a` ≡ `S['a']`)
  let kept := initPath (genSFirst "Delete") c.sroot c.steps
  let refSteps := readSteps c.sroot c.steps
  let out := delete c.env c.sroot c.sref ignore c.heap c.target kept
  let modelObs := C12.observe c.env out
  let ref := refDelete c.env c.heap root refSteps ignore
  if ref == .unsupported || (match out.2 with | .error .unmodelled => true | _ => false) then
    return Json.mkObj [("skip", true), ("why", "path outside the modelled domain (`**`)")]
  let agree := modelObs == implObs
  let holds := checkC12 c.env c.heap c.target root refSteps ignore implObs
  let modelHolds := checkC12 c.env c.heap c.target root refSteps ignore modelObs
  let star := hasStar c.steps
  let cov := C12.covered c.env c.steps
  let covStar := star && C12.WF c.env && classesOK c.env && noScope c.env && wfStar c.steps
  let refTag := match ref with
    | .ok .. => "del" | .missingFinal e => s!"missing-final({e.cls})" | .missingParent .. => "missing-parent"
    | .fault => "fault" | .partialFail => "partial" | .unsupported => "unsupported"
  let branch := (if c.sroot then "S:" else "") ++ (if c.hasUreg then "user-reg:" else "") ++
    (if star then "star:" else "") ++
    (if ignore then "ignore:" else "") ++ refTag ++ "→" ++ resTag modelObs.res ++
    (if cov then " [thm]" else if covStar then " [thm*]" else "")
  return Json.mkObj [("agree", agree), ("holds", holds), ("model_holds", modelHolds),
    ("wf", C12.WF c.env), ("covered", cov || covStar), ("model", obsToJson modelObs),
    ("ref", refTag), ("branch", branch)]

end Glom.C12.Driver
