import Glom.Py.Json
import Glom.Spec.C15
import Glom.Model.C15Env
/-
  C15 driver.

  case: {"heap":[Obj…], "targets":[Val…],
         "prog":{"kind":"fold"|"sum"|"count"|"flatten"|"merge"|"flatten_fn"|"merge_fn",
                 "sub":[Val…], "init":Init|null, "op":Op|null, "levels":int|null},
         "impl":{"results":[R…], "after":[Obj…]}}
  Init: "int"|"str"|"list"|"tuple"|"dict"|"OrderedDict"|"Acc"|"lazy"|{"shared":Val};  null = argument
        omitted (the default extracted from the source is used)
  Op:   "iadd"|"add"|"update"|"first_wins";  null = omitted
  R:    {"err":[cls,isGlomError]} | {"imm":Val} | {"input":addr} | {"prev":i} | {"fresh":Obj}
-/
namespace Glom.C15.Driver
open Lean Glom Glom.C15

def initOfName (s : String) : Option InitArg :=
  match s with
  | "int" => some (.init .int) | "str" => some (.init .str) | "list" => some (.init .list)
  | "tuple" => some (.init .tuple) | "dict" => some (.init .dict)
  | "OrderedDict" => some (.init .odict) | "Acc" => some (.init .acc) | "lazy" => some .lazy
  | _ => none

def initArgOfJson (cls : String) (j : Json) : Except String InitArg :=
  match j with
  | .null =>
    match (defaultSrc cls "init").bind initOfName with
    | some i => .ok i
    | none => .error s!"no usable default for {cls}.init in the extracted facts"
  | .str s => match initOfName s with
    | some i => .ok i
    | none => .error s!"bad init {s}"
  | _ => do
    let v ← valOfJson (← j.getObjVal? "shared")
    return .init (.shared v)

def plainInit (cls : String) (j : Json) : Except String Init := do
  match ← initArgOfJson cls j with
  | .init i => return i
  | .lazy => throw "init='lazy' is only meaningful for Flatten"

def foldOpOfJson (j : Json) : Except String Op :=
  match j with
  | .null =>
    match defaultSrc "Fold" "op" with
    | some "operator.iadd" => .ok .iadd
    | some "operator.add" => .ok .add
    | d => .error s!"unusable default for Fold.op in the extracted facts: {d}"
  | .str "iadd" => .ok .iadd
  | .str "add" => .ok .add
  | _ => .error s!"bad fold op {j.compress}"

def mergeOpOfJson (cls : String) (j : Json) : Except String MergeOpArg :=
  match j with
  | .null =>
    match defaultSrc cls "op" with
    | some "None" => .ok .none
    | d => .error s!"unusable default for {cls}.op in the extracted facts: {d}"
  | .str "iadd" => .ok .iadd
  | .str "first_wins" => .ok .firstWins
  | .str n => .ok (.name n)
  | _ => .error s!"bad merge op {j.compress}"

def progOfJson (j : Json) : Except String Prog := do
  let kind ← j.getObjValAs? String "kind"
  let sub ← (match j.getObjVal? "sub" with
    | .ok s => listOfJson valOfJson s
    | .error _ => pure [])
  let ji := (j.getObjVal? "init").toOption.getD .null
  let jo := (j.getObjVal? "op").toOption.getD .null
  match kind with
  | "fold" => return .fold sub (← plainInit "Fold" ji) (← foldOpOfJson jo)
  | "sum" => return .sum sub (← plainInit "Sum" ji)
  | "count" => return .count
  | "flatten" => return .flatten sub (← initArgOfJson "Flatten" ji)
  | "merge" => return .merge sub (← plainInit "Merge" ji) (← mergeOpOfJson "Merge" jo)
  | "flatten_fn" =>
    let lv ← (match j.getObjVal? "levels" with
      | .ok .null | .error _ =>
        (match (defaultSrc "flatten" "levels").bind String.toInt? with
         | some l => pure l
         | none => throw "no usable default for flatten(levels=)")
      | .ok l => l.getInt?)
    return .flattenFn sub (← initArgOfJson "flatten" ji) lv
  | "merge_fn" => return .mergeFn sub (← plainInit "merge" ji) (← mergeOpOfJson "merge" jo)
  | k => throw s!"bad prog kind {k}"

def rOfJson (j : Json) : Except String R := do
  if let .ok e := j.getObjVal? "err" then
    match ← arrOf e with
    | [c, g] => return .err (← strOfJson c) (← g.getBool?)
    | _ => throw "bad err"
  else if let .ok v := j.getObjVal? "imm" then return .imm (← valOfJson v)
  else if let .ok a := j.getObjValAs? Nat "input" then return .input a
  else if let .ok i := j.getObjValAs? Nat "prev" then return .prev i
  else if let .ok o := j.getObjVal? "fresh" then return .fresh (← objOfJson o)
  else throw s!"bad R {j.compress}"

def rToJson : R → Json
  | .err c g => Json.mkObj [("err", Json.arr #[Json.str c, Json.bool g])]
  | .imm v => Json.mkObj [("imm", valToJson v)]
  | .input a => Json.mkObj [("input", a)]
  | .prev i => Json.mkObj [("prev", i)]
  | .fresh o => Json.mkObj [("fresh", objToJson o)]

def obsOfJson (j : Json) : Except String Obs := do
  return ⟨← listOfJson rOfJson (← j.getObjVal? "results"), ← heapOfJson (← j.getObjVal? "after")⟩

def obsToJson (o : Obs) : Json :=
  Json.mkObj [("results", Json.arr (o.results.map rToJson).toArray), ("after", heapToJson o.after)]

def rTag : R → String
  | .err c _ => s!"err-{c}"
  | .imm _ => "imm"
  | .input _ => "input"
  | .prev _ => "prev"
  | .fresh (.list c _) => s!"new-{c}"
  | .fresh (.tuple c _) => s!"new-{c}"
  | .fresh (.dict c _) => s!"new-{c}"
  | .fresh _ => "new-other"

def progTag : Prog → String
  | .fold _ _ .add => "Fold/add" | .fold .. => "Fold/iadd"
  | .sum .. => "Sum" | .count => "Count"
  | .flatten _ .lazy => "Flatten/lazy" | .flatten .. => "Flatten"
  | .merge .. => "Merge"
  | .flattenFn _ _ l => s!"flatten(levels={if l > 3 then 4 else l})"
  | .mergeFn .. => "merge()"

/-- dict keys the kernel's `pyKeyEq` does not cover (tuples compare by value in Python) -/
def keysOk (h : Heap) : Bool :=
  h.all (fun o => match o with
    | .dict _ es => es.all (fun e => match e.1 with | .ref _ => false | _ => true)
    | _ => true)

def run (j : Json) : Except String Json := do
  let heap ← heapOfJson (← j.getObjVal? "heap")
  let targets ← listOfJson valOfJson (← j.getObjVal? "targets")
  let prog ← progOfJson (← j.getObjVal? "prog")
  let implObs ← obsOfJson (← j.getObjVal? "impl")
  if !(wfCase heap targets && (progVals prog).all (Val.inb heap.length)) then
    return Json.mkObj [("skip", true), ("why", "heap not closed / dangling target")]
  if !(keysOk heap) then
    return Json.mkObj [("skip", true), ("why", "container used as a dict key")]
  let env := genEnv
  let out := runProg env prog targets heap
  let modelObs := observe env heap.length out
  -- hypothesis-violating stream (init returns a shared object): an operator call that fails
  -- half-way has already mutated that object; such partial effects are not modelled
  if !prog.initAllocates && modelObs.results.any (fun r => match r with | .err .. => true | _ => false) then
    return Json.mkObj [("skip", true), ("why", "shared init and a failing operator call")]
  let agree := modelObs == implObs
  -- the property is evaluated in the documented environment (`specEnv`), on the implementation's observation
  let holds := checkC15 specEnv heap prog targets implObs
  let modelHolds := checkC15 specEnv heap prog targets modelObs
  let tag := match modelObs.results with | r :: _ => rTag r | [] => "no-eval"
  return Json.mkObj [("agree", agree), ("holds", holds), ("model_holds", modelHolds),
    ("wf", WF env && WFSrc genSrc), ("hyp_init_allocates", prog.initAllocates),
    ("model", obsToJson modelObs),
    ("expected", Json.arr ((targets.map (expectR specEnv heap prog)).map rToJson).toArray),
    ("branch", s!"{progTag prog}:{tag}")]

end Glom.C15.Driver
