import Glom.Py.Json
import Glom.Spec.C15
import Glom.Spec.C15Lazy
import Glom.Model.C15Env
/-
  C15 driver.

  case: {"heap":[Obj…],
         "events":[{"t":Val} | {"reg":{"cls":c,"exact":b,"kw":[[op,hname|null]…]}} | {"probe":c} …]
                     ({"probe":c}: registry.get_handler('iterate', <an instance of c>, raise_exc=False)),
         "registry":"module"|"glommer"            (which registry the evaluations and registrations use),
         "prog":{"kind":"fold"|"sum"|"count"|"flatten"|"merge"|"flatten_fn"|"merge_fn",
                 "sub":[Val…], "init":Init|null, "op":Op|null, "levels":int|null},
         "impl":{"results":[R…], "after":[Obj…],
                 "hier":{"mro":[[t,[c…]]…],"inst":[[t,c]…],"sub":[[c,d]…],"auto":[[f,[[t,hname]…]]…]}}}
                 "extra_kw":true (flatten()/merge() with an unexpected keyword),
                 "levels" may also be "None" | {"f":bits} | {"b":bool}
  Init: "int"|"float"|"str"|"list"|"tuple"|"dict"|"OrderedDict"|"Acc"|"set"|"lazy"|"!bad" (not callable)|
        {"shared":Val}|{"copy":Val};  null / absent = argument not passed (the default extracted from the source)
  Op:   Fold: "iadd"|"add"|"append"|"cons"|"extend"|"dict_union"|"add_seq"|"poke"|"!bad";
        Merge: "iadd"|"first_wins"|"dict_union"|"!bad"| a method name "update"|"extend"|"append"|"nosuch";  null = omitted
  a generator cell may hold {"sent":"!raise:<Class>"}: the generator raises there
  Nothing is skipped: a case outside the modelled domain is a decode error; a case that violates a
  hypothesis of the property on purpose (shared init, an operator writing to its element, chain objects
  served by another handler) is run through model and implementation all the same and counted under its
  own `hyp-violated(...)` branch; `wf = false` or `model_holds = false` make `agree` false.
  R:    {"err":[cls,isGlomError]} | {"imm":Val} | {"input":addr} | {"prev":i} | {"fresh":Obj}
  a float is {"f": the 16 hex digits of its IEEE-754 bit pattern} (NaN canonical)

  a PULL case ("pull": true; prog = Flatten(init='lazy') or flatten(levels=k, init='lazy'), one
  evaluation whose target is a generator cell) observes the laziness instead:
         "impl":{"created":n, "pulls":[{"item":Val,"f":n} | {"stop":n} | {"error":[cls,isGlomError],"f":n} …]}
  `n` = how many items the source generator has been asked for at that moment
-/
namespace Glom.C15.Driver
open Lean Glom Glom.C15

def initOfName (s : String) : Option InitArg :=
  match s with
  | "int" => some (.init .int) | "float" => some (.init .float)
  | "str" => some (.init .str) | "list" => some (.init .list)
  | "tuple" => some (.init .tuple) | "dict" => some (.init .dict)
  | "OrderedDict" => some (.init .odict) | "Acc" => some (.init .acc) | "lazy" => some .lazy
  | "set" => some (.init .set)
  | "!bad" => some (.init .notCallable)            -- `init=5`, `init='LAZY'`: not callable
  | _ => none

def initArgOfJson (cls : String) (j : Json) : Except String InitArg :=
  match j with
  | .null =>
    match (defaultSrc cls "init").bind initOfName with
    | some i => .ok i
    | none => .error s!"no usable default for {cls}.init in the extracted facts"
  | .str s => match initOfName s with
    | some i => .ok i
    | none => .error s!"bad init {s}"
  | _ =>
    match j.getObjVal? "copy" with
    | .ok c => do return .init (.copyOf (← valOfJson c))
    | .error _ => do
      let v ← valOfJson (← j.getObjVal? "shared")
      return .init (.shared v)

def plainInit (cls : String) (j : Json) : Except String Init := do
  match ← initArgOfJson cls j with
  | .init i => return i
  | .lazy => throw "init='lazy' is only meaningful for Flatten"

def foldOpOfJson (j : Json) : Except String Op :=
  match j with
  | .null =>
    match defaultSrc "Fold" "op" with
    | some "operator.iadd" => .ok .iadd
    | some "operator.add" => .ok .add
    | d => .error s!"unusable default for Fold.op in the extracted facts: {d}"
  | .str "iadd" => .ok .iadd
  | .str "add" => .ok .add
  | .str "append" => .ok .append
  | .str "cons" => .ok .cons
  | .str "extend" => .ok .extend
  | .str "dict_union" => .ok .dictUnion
  | .str "add_seq" => .ok .addSeq
  | .str "poke" => .ok .pokeElem
  | .str "!bad" => .ok .notCallable
  | _ => .error s!"bad fold op {j.compress}"

def mergeOpOfJson (cls : String) (j : Json) : Except String MergeOpArg :=
  match j with
  | .null =>
    match defaultSrc cls "op" with
    | some "None" => .ok .none
    | d => .error s!"unusable default for {cls}.op in the extracted facts: {d}"
  | .str "iadd" => .ok .iadd
  | .str "first_wins" => .ok .firstWins
  | .str "dict_union" => .ok .dictUnion
  | .str "!bad" => .ok .notCallable
  | .str n =>
    if n == "update" || n == "extend" || n == "append" || n == "nosuch" then .ok (.name n)
    else .error s!"bad merge op name {n}"
  | _ => .error s!"bad merge op {j.compress}"

def progOfJson (j : Json) : Except String Prog := do
  let kind ← j.getObjValAs? String "kind"
  let sub ← listOfJson valOfJson (← j.getObjVal? "sub")
  -- an argument that is not passed is `null` or absent: the default extracted from the source is used
  let ji := (j.getObjVal? "init").toOption.getD .null
  let jo := (j.getObjVal? "op").toOption.getD .null
  -- calls decided on their arguments alone
  if let .ok (.bool true) := j.getObjVal? "extra_kw" then
    if kind == "flatten_fn" || kind == "merge_fn" then return .oddCall .extraKw
    else throw "extra_kw is for flatten() / merge()"
  if kind == "flatten_fn" then
    match j.getObjVal? "levels" with
    | .ok (.str "None") => return .oddCall .levelsNone
    | .ok lv =>
      if let .ok bits := lv.getObjValAs? String "f" then return .oddCall (.levelsFloat bits)
    | .error _ => pure ()
  match kind with
  | "fold" => return .fold sub (← plainInit "Fold" ji) (← foldOpOfJson jo)
  | "sum" => return .sum sub (← plainInit "Sum" ji)
  | "count" => return .count
  | "flatten" => return .flatten sub (← initArgOfJson "Flatten" ji)
  | "merge" => return .merge sub (← plainInit "Merge" ji) (← mergeOpOfJson "Merge" jo)
  | "flatten_fn" =>
    let lv ← (match j.getObjVal? "levels" with
      | .ok .null | .error _ =>
        (match (defaultSrc "flatten" "levels").bind String.toInt? with
         | some l => pure l
         | none => throw "no usable default for flatten(levels=)")
      | .ok l =>
        (match l.getObjValAs? Bool "b" with           -- `levels=True`: a bool is an int
         | .ok b => pure (if b then 1 else 0)
         | .error _ => l.getInt?))
    return .flattenFn sub (← initArgOfJson "flatten" ji) lv
  | "merge_fn" => return .mergeFn sub (← plainInit "merge" ji) (← mergeOpOfJson "merge" jo)
  | k => throw s!"bad prog kind {k}"

def rOfJson (j : Json) : Except String R := do
  if let .ok e := j.getObjVal? "err" then
    match ← arrOf e with
    | [c, g] => return .err (← strOfJson c) (← g.getBool?)
    | _ => throw "bad err"
  else if let .ok v := j.getObjVal? "imm" then return .imm (← valOfJson v)
  else if let .ok a := j.getObjValAs? Nat "input" then return .input a
  else if let .ok i := j.getObjValAs? Nat "prev" then return .prev i
  else if let .ok o := j.getObjVal? "fresh" then return .fresh (← objOfJson o)
  else throw s!"bad R {j.compress}"

def rToJson : R → Json
  | .err c g => Json.mkObj [("err", Json.arr #[Json.str c, Json.bool g])]
  | .imm v => Json.mkObj [("imm", valToJson v)]
  | .input a => Json.mkObj [("input", a)]
  | .prev i => Json.mkObj [("prev", i)]
  | .fresh o => Json.mkObj [("fresh", objToJson o)]

def obsOfJson (j : Json) : Except String Obs := do
  return ⟨← listOfJson rOfJson (← j.getObjVal? "results"), ← heapOfJson (← j.getObjVal? "after")⟩

def obsToJson (o : Obs) : Json :=
  Json.mkObj [("results", Json.arr (o.results.map rToJson).toArray), ("after", heapToJson o.after)]

def rTag : R → String
  | .err c _ => s!"err-{c}"
  | .imm _ => "imm"
  | .input _ => "input"
  | .prev _ => "prev"
  | .fresh (.list c _) => s!"new-{c}"
  | .fresh (.tuple c _) => s!"new-{c}"
  | .fresh (.dict c _) => s!"new-{c}"
  | .fresh _ => "new-other"

def progTag : Prog → String
  | .fold _ _ .add => "Fold/add" | .fold _ _ .append => "Fold/append" | .fold _ _ .cons => "Fold/cons"
  | .fold _ _ .addSeq => "Fold/add_seq" | .fold _ _ .pokeElem => "Fold/poke" | .fold _ _ .extend => "Fold/extend"
  | .fold _ _ .dictUnion => "Fold/dict_union" | .fold _ _ .notCallable => "Fold/bad-op"
  | .fold .. => "Fold/iadd"
  | .sum .. => "Sum" | .count => "Count"
  | .flatten _ .lazy => "Flatten/lazy" | .flatten .. => "Flatten"
  | .merge .. => "Merge"
  | .flattenFn _ _ l => s!"flatten(levels={if l > 3 then 4 else l})"
  | .mergeFn .. => "merge()"
  | .oddCall .extraKw => "call(extra kw)" | .oddCall .levelsNone => "flatten(levels=None)"
  | .oddCall (.levelsFloat _) => "flatten(levels=float)"

/-- dict keys the kernel's `pyKeyEq` does not cover (tuples compare by value in Python) -/
def keysOk (h : Heap) : Bool :=
  h.all (fun o => match o with
    | .dict _ es => es.all (fun e => match e.1 with | .ref _ => false | _ => true)
    | _ => true)

def valFloatOk : Val → Bool
  | .float s => (bitsOfHex s).isSome
  | _ => true

/-- floats are well-formed bit patterns; an iterable harness object has its `names` -/
def cellsOk (h : Heap) : Bool :=
  h.all (fun o => (cellVals o).all valFloatOk &&
    (match o with
     | .inst c as => !(iterInstClasses.contains c) || (attrOf as "names").isSome
     | _ => true))

def optStr (j : Json) : Except String (Option String) :=
  match j with
  | .null => .ok none
  | .str s => .ok (some s)
  | _ => .error s!"expected string or null, got {j.compress}"

def hierOfJson (j : Json) : Except String C13.HierTab := do
  let mro ← listOfJson (pairOfJson strOfJson (listOfJson strOfJson)) (← j.getObjVal? "mro")
  let inst ← listOfJson (pairOfJson strOfJson strOfJson) (← j.getObjVal? "inst")
  let sub ← listOfJson (pairOfJson strOfJson strOfJson) (← j.getObjVal? "sub")
  let auto ← listOfJson (pairOfJson strOfJson (listOfJson (pairOfJson strOfJson strOfJson)))
    (← j.getObjVal? "auto")
  return { mro, inst, sub, auto }

def eventOfJson (j : Json) : Except String Event := do
  if let .ok t := j.getObjVal? "t" then return .eval (← valOfJson t)
  if let .ok c := j.getObjValAs? String "probe" then return .probe c
  let r ← j.getObjVal? "reg"
  let cls ← r.getObjValAs? String "cls"
  let exact ← (← r.getObjVal? "exact").getBool?
  let kw ← listOfJson (pairOfJson strOfJson optStr) (← r.getObjVal? "kw")
  return .register cls exact kw

def eventsOfJson (j : Json) : Except String (List Event) := do
  listOfJson eventOfJson (← j.getObjVal? "events")

def hasReg : List Event → Bool
  | [] => false
  | .register .. :: _ => true
  | .probe _ :: _ => true
  | .eval _ :: es => hasReg es

def pullOfJson (j : Json) : Except String (Lazy.PullObs × String) := do
  if let .ok v := j.getObjVal? "item" then
    return (.item (← valOfJson v) (← j.getObjValAs? Nat "f"), "")
  else if let .ok n := j.getObjValAs? Nat "stop" then return (.stop n, "")
  else
    match ← arrOf (← j.getObjVal? "error") with
    | [c, _] => return (.error (← j.getObjValAs? Nat "f"), ← strOfJson c)
    | _ => throw "bad error pull"

def pullToJson : Lazy.PullObs → Json
  | .item v f => Json.mkObj [("item", valToJson v), ("f", f)]
  | .stop f => Json.mkObj [("stop", f)]
  | .error f => Json.mkObj [("error", Json.arr #[Json.str "TypeError", Json.bool false]), ("f", f)]

def runToJson (r : Nat × List Lazy.PullObs) : Json :=
  Json.mkObj [("created", r.1), ("pulls", Json.arr (r.2.map pullToJson).toArray)]

/-- a PULL case: the laziness of `Flatten(init='lazy')` / `flatten(levels=k, init='lazy')` -/
def runPull (j : Json) : Except String Json := do
  let heap ← heapOfJson (← j.getObjVal? "heap")
  let events ← eventsOfJson j
  let prog ← progOfJson (← j.getObjVal? "prog")
  let impl ← j.getObjVal? "impl"
  if !(wfCase heap (Event.targets events) && keysOk heap && cellsOk heap) then
    throw "pull case outside the domain: heap not closed / malformed"
  let k ← (match prog with
    | .flatten [] .lazy => pure 1
    | .flattenFn [] .lazy l => if l ≥ 1 then pure l.toNat else throw "pull case needs levels >= 1"
    | _ => throw "pull case needs a lazy Flatten / flatten() without sub-spec")
  let target ← (match events with
    | [.eval t] => pure t
    | _ => throw "pull case needs exactly one evaluation")
  let some xs := rawIter1 heap target | throw "pull case needs an iterable source"
  if let .ok r := impl.getObjVal? "raised" then
    return Json.mkObj [("agree", false), ("holds", false), ("branch", "pull:evaluation-raised"),
      ("why", s!"the lazy evaluation itself raised {r.compress}")]
  let created ← impl.getObjValAs? Nat "created"
  let ps ← listOfJson pullOfJson (← impl.getObjVal? "pulls")
  let implRun : Nat × List Lazy.PullObs := (created, ps.map (·.1))
  -- an error pull must be a TypeError
  let errOk := ps.all (fun p => match p.1 with | .error _ => p.2 == "TypeError" | _ => true)
  let modelRun := Lazy.lazyRun heap k xs
  let agree := modelRun == implRun && errOk
  let holds := Lazy.checkLazy heap k xs implRun && errOk
  let tag := match modelRun.2.getLast? with
    | some (.stop _) => "stop" | some (.error _) => "err-TypeError" | _ => "?"
  return Json.mkObj [("agree", agree), ("holds", holds),
    ("model_holds", Lazy.checkLazy heap k xs modelRun),
    ("model", runToJson modelRun), ("expected", runToJson (Lazy.refLazyRun heap k xs)),
    ("branch", s!"pull(levels={if k > 3 then 4 else k}):{tag}")]

/-- what of a result can be compared when partial effects of a failed operator call are not
    modelled (hypothesis-violating stream): error or not -/
def rKind : R → String
  | .err .. => "err"
  | _ => "ok"

def run (j : Json) : Except String Json := do
  if let .ok (.bool true) := j.getObjVal? "pull" then return ← runPull j
  let heap ← heapOfJson (← j.getObjVal? "heap")
  let events ← eventsOfJson j
  let targets := Event.targets events
  let prog ← progOfJson (← j.getObjVal? "prog")
  let impl ← j.getObjVal? "impl"
  let implObs ← obsOfJson impl
  let _ ← j.getObjValAs? String "registry"
  let H := (← hierOfJson (← impl.getObjVal? "hier")).toHier
  -- a case outside the modelled domain is a generator bug: an error, never a silent skip
  if !(wfCase heap targets && (progVals prog).all (Val.inb heap.length)) then
    throw "case outside the domain: heap not closed / dangling target"
  if !(keysOk heap) then throw "case outside the domain: container used as a dict key"
  if !(cellsOk heap && targets.all valFloatOk && (progVals prog).all valFloatOk) then
    throw "case outside the domain: malformed float / iterable instance without `names`"
  if !(prog.initWF heap) then
    throw "case outside the domain: copying init over something that is not a list / tuple / dict"
  let env := genEnv
  let out := runHistory H env prog events (genReg H) heap
  let modelObs := observe env heap.length (out.1, out.2.1)
  let wf := WFConv env && WFSrc genSrc && defaultsOK (pureLk H (genReg H))
  let tag := match modelObs.results with | r :: _ => rTag r | [] => "no-eval"
  -- hypotheses of the property that a case may violate on purpose (the model must still agree with
  -- the implementation; the checker does not apply): each gets its own histogram branch
  let chainOK := !prog.usesChain || chainIterAlong H specEnv events (specReg H)
  let hyp := if !prog.initAllocates then "hyp-violated(init shared):"
    else if !prog.opLawful then "hyp-violated(op writes to its element):"
    else if !chainOK then "hyp-violated(chain objects not iterated with iter):"
    else ""
  -- an operator call that fails half-way has already mutated a SHARED accumulator: partial effects
  -- are not modelled; what remains comparable is which evaluations raised
  let partialEffects := !prog.initAllocates &&
    modelObs.results.any (fun r => match r with | .err .. => true | _ => false)
  let agree0 := if partialEffects then modelObs.results.map rKind == implObs.results.map rKind
    else modelObs == implObs
  let applies := hyp == ""
  let holds := !applies || checkC15R H specEnv (specReg H) heap prog events implObs
  let modelHolds := !applies || checkC15R H specEnv (specReg H) heap prog events modelObs
  -- a model that fails its own checker, or facts that are not well-formed, break the tie
  let agree := agree0 && modelHolds && wf
  let branch := (if partialEffects then "hyp-violated(init shared, failing op: error pattern only):" else hyp) ++
    s!"{progTag prog}{if hasReg events then "+reg" else ""}:{tag}"
  return Json.mkObj [("agree", agree), ("holds", holds), ("model_holds", modelHolds),
    ("wf", wf), ("checker_applies", applies),
    ("model", obsToJson modelObs),
    ("expected", Json.arr ((expectHistory H specEnv heap prog events (specReg H)).map rToJson).toArray),
    ("branch", branch)]

end Glom.C15.Driver
