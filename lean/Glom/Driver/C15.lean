import Glom.Py.Json
import Glom.Spec.C15
import Glom.Spec.C15Lazy
import Glom.Model.C15Env
/-
  C15 driver.

  case: {"heap":[Obj…],
         "events":[{"t":Val} | {"reg":{"cls":c,"exact":b,"kw":[[op,hname|null]…]}} …]
                     (or "targets":[Val…]: evaluations only),
         "registry":"module"|"glommer"            (which registry the evaluations and registrations use),
         "prog":{"kind":"fold"|"sum"|"count"|"flatten"|"merge"|"flatten_fn"|"merge_fn",
                 "sub":[Val…], "init":Init|null, "op":Op|null, "levels":int|null},
         "impl":{"results":[R…], "after":[Obj…],
                 "hier":{"mro":[[t,[c…]]…],"inst":[[t,c]…],"sub":[[c,d]…],"auto":[[f,[[t,hname]…]]…]}}}
  Init: "int"|"float"|"str"|"list"|"tuple"|"dict"|"OrderedDict"|"Acc"|"lazy"|{"shared":Val}|{"copy":Val};
        null = argument omitted (the default extracted from the source is used)
  Op:   "iadd"|"add"|"append"|"cons"|"update"|"first_wins";  null = omitted
  R:    {"err":[cls,isGlomError]} | {"imm":Val} | {"input":addr} | {"prev":i} | {"fresh":Obj}
  a float is {"f": the 16 hex digits of its IEEE-754 bit pattern} (NaN canonical)

  a PULL case ("pull": true; prog = Flatten(init='lazy') or flatten(levels=k, init='lazy'), one
  evaluation whose target is a generator cell) observes the laziness instead:
         "impl":{"created":n, "pulls":[{"item":Val,"f":n} | {"stop":n} | {"error":[cls,isGlomError],"f":n} …]}
  `n` = how many items the source generator has been asked for at that moment
-/
namespace Glom.C15.Driver
open Lean Glom Glom.C15

def initOfName (s : String) : Option InitArg :=
  match s with
  | "int" => some (.init .int) | "float" => some (.init .float)
  | "str" => some (.init .str) | "list" => some (.init .list)
  | "tuple" => some (.init .tuple) | "dict" => some (.init .dict)
  | "OrderedDict" => some (.init .odict) | "Acc" => some (.init .acc) | "lazy" => some .lazy
  | _ => none

def initArgOfJson (cls : String) (j : Json) : Except String InitArg :=
  match j with
  | .null =>
    match (defaultSrc cls "init").bind initOfName with
    | some i => .ok i
    | none => .error s!"no usable default for {cls}.init in the extracted facts"
  | .str s => match initOfName s with
    | some i => .ok i
    | none => .error s!"bad init {s}"
  | _ =>
    match j.getObjVal? "copy" with
    | .ok c => do return .init (.copyOf (← valOfJson c))
    | .error _ => do
      let v ← valOfJson (← j.getObjVal? "shared")
      return .init (.shared v)

def plainInit (cls : String) (j : Json) : Except String Init := do
  match ← initArgOfJson cls j with
  | .init i => return i
  | .lazy => throw "init='lazy' is only meaningful for Flatten"

def foldOpOfJson (j : Json) : Except String Op :=
  match j with
  | .null =>
    match defaultSrc "Fold" "op" with
    | some "operator.iadd" => .ok .iadd
    | some "operator.add" => .ok .add
    | d => .error s!"unusable default for Fold.op in the extracted facts: {d}"
  | .str "iadd" => .ok .iadd
  | .str "add" => .ok .add
  | .str "append" => .ok .append
  | .str "cons" => .ok .cons
  | _ => .error s!"bad fold op {j.compress}"

def mergeOpOfJson (cls : String) (j : Json) : Except String MergeOpArg :=
  match j with
  | .null =>
    match defaultSrc cls "op" with
    | some "None" => .ok .none
    | d => .error s!"unusable default for {cls}.op in the extracted facts: {d}"
  | .str "iadd" => .ok .iadd
  | .str "first_wins" => .ok .firstWins
  | .str n => .ok (.name n)
  | _ => .error s!"bad merge op {j.compress}"

def progOfJson (j : Json) : Except String Prog := do
  let kind ← j.getObjValAs? String "kind"
  let sub ← (match j.getObjVal? "sub" with
    | .ok s => listOfJson valOfJson s
    | .error _ => pure [])
  let ji := (j.getObjVal? "init").toOption.getD .null
  let jo := (j.getObjVal? "op").toOption.getD .null
  match kind with
  | "fold" => return .fold sub (← plainInit "Fold" ji) (← foldOpOfJson jo)
  | "sum" => return .sum sub (← plainInit "Sum" ji)
  | "count" => return .count
  | "flatten" => return .flatten sub (← initArgOfJson "Flatten" ji)
  | "merge" => return .merge sub (← plainInit "Merge" ji) (← mergeOpOfJson "Merge" jo)
  | "flatten_fn" =>
    let lv ← (match j.getObjVal? "levels" with
      | .ok .null | .error _ =>
        (match (defaultSrc "flatten" "levels").bind String.toInt? with
         | some l => pure l
         | none => throw "no usable default for flatten(levels=)")
      | .ok l => l.getInt?)
    return .flattenFn sub (← initArgOfJson "flatten" ji) lv
  | "merge_fn" => return .mergeFn sub (← plainInit "merge" ji) (← mergeOpOfJson "merge" jo)
  | k => throw s!"bad prog kind {k}"

def rOfJson (j : Json) : Except String R := do
  if let .ok e := j.getObjVal? "err" then
    match ← arrOf e with
    | [c, g] => return .err (← strOfJson c) (← g.getBool?)
    | _ => throw "bad err"
  else if let .ok v := j.getObjVal? "imm" then return .imm (← valOfJson v)
  else if let .ok a := j.getObjValAs? Nat "input" then return .input a
  else if let .ok i := j.getObjValAs? Nat "prev" then return .prev i
  else if let .ok o := j.getObjVal? "fresh" then return .fresh (← objOfJson o)
  else throw s!"bad R {j.compress}"

def rToJson : R → Json
  | .err c g => Json.mkObj [("err", Json.arr #[Json.str c, Json.bool g])]
  | .imm v => Json.mkObj [("imm", valToJson v)]
  | .input a => Json.mkObj [("input", a)]
  | .prev i => Json.mkObj [("prev", i)]
  | .fresh o => Json.mkObj [("fresh", objToJson o)]

def obsOfJson (j : Json) : Except String Obs := do
  return ⟨← listOfJson rOfJson (← j.getObjVal? "results"), ← heapOfJson (← j.getObjVal? "after")⟩

def obsToJson (o : Obs) : Json :=
  Json.mkObj [("results", Json.arr (o.results.map rToJson).toArray), ("after", heapToJson o.after)]

def rTag : R → String
  | .err c _ => s!"err-{c}"
  | .imm _ => "imm"
  | .input _ => "input"
  | .prev _ => "prev"
  | .fresh (.list c _) => s!"new-{c}"
  | .fresh (.tuple c _) => s!"new-{c}"
  | .fresh (.dict c _) => s!"new-{c}"
  | .fresh _ => "new-other"

def progTag : Prog → String
  | .fold _ _ .add => "Fold/add" | .fold _ _ .append => "Fold/append" | .fold _ _ .cons => "Fold/cons"
  | .fold .. => "Fold/iadd"
  | .sum .. => "Sum" | .count => "Count"
  | .flatten _ .lazy => "Flatten/lazy" | .flatten .. => "Flatten"
  | .merge .. => "Merge"
  | .flattenFn _ _ l => s!"flatten(levels={if l > 3 then 4 else l})"
  | .mergeFn .. => "merge()"

/-- dict keys the kernel's `pyKeyEq` does not cover (tuples compare by value in Python) -/
def keysOk (h : Heap) : Bool :=
  h.all (fun o => match o with
    | .dict _ es => es.all (fun e => match e.1 with | .ref _ => false | _ => true)
    | _ => true)

def valFloatOk : Val → Bool
  | .float s => (bitsOfHex s).isSome
  | _ => true

/-- floats are well-formed bit patterns; an iterable harness object has its `names` -/
def cellsOk (h : Heap) : Bool :=
  h.all (fun o => (cellVals o).all valFloatOk &&
    (match o with
     | .inst c as => !(iterInstClasses.contains c) || (attrOf as "names").isSome
     | _ => true))

def optStr (j : Json) : Except String (Option String) :=
  match j with
  | .null => .ok none
  | .str s => .ok (some s)
  | _ => .error s!"expected string or null, got {j.compress}"

def hierOfJson (j : Json) : Except String C13.HierTab := do
  let mro ← listOfJson (pairOfJson strOfJson (listOfJson strOfJson)) (← j.getObjVal? "mro")
  let inst ← listOfJson (pairOfJson strOfJson strOfJson) (← j.getObjVal? "inst")
  let sub ← listOfJson (pairOfJson strOfJson strOfJson) (← j.getObjVal? "sub")
  let auto ← listOfJson (pairOfJson strOfJson (listOfJson (pairOfJson strOfJson strOfJson)))
    (← j.getObjVal? "auto")
  return { mro, inst, sub, auto }

def eventOfJson (j : Json) : Except String Event := do
  if let .ok t := j.getObjVal? "t" then return .eval (← valOfJson t)
  let r ← j.getObjVal? "reg"
  let cls ← r.getObjValAs? String "cls"
  let exact ← (← r.getObjVal? "exact").getBool?
  let kw ← listOfJson (pairOfJson strOfJson optStr) (← r.getObjVal? "kw")
  return .register cls exact kw

def eventsOfJson (j : Json) : Except String (List Event) :=
  match j.getObjVal? "events" with
  | .ok es => listOfJson eventOfJson es
  | .error _ => do
    let ts ← listOfJson valOfJson (← j.getObjVal? "targets")
    return ts.map .eval

def hasReg : List Event → Bool
  | [] => false
  | .register .. :: _ => true
  | .eval _ :: es => hasReg es

def pullOfJson (j : Json) : Except String (Lazy.PullObs × String) := do
  if let .ok v := j.getObjVal? "item" then
    return (.item (← valOfJson v) (← j.getObjValAs? Nat "f"), "")
  else if let .ok n := j.getObjValAs? Nat "stop" then return (.stop n, "")
  else
    match ← arrOf (← j.getObjVal? "error") with
    | [c, _] => return (.error (← j.getObjValAs? Nat "f"), ← strOfJson c)
    | _ => throw "bad error pull"

def pullToJson : Lazy.PullObs → Json
  | .item v f => Json.mkObj [("item", valToJson v), ("f", f)]
  | .stop f => Json.mkObj [("stop", f)]
  | .error f => Json.mkObj [("error", Json.arr #[Json.str "TypeError", Json.bool false]), ("f", f)]

def runToJson (r : Nat × List Lazy.PullObs) : Json :=
  Json.mkObj [("created", r.1), ("pulls", Json.arr (r.2.map pullToJson).toArray)]

/-- a PULL case: the laziness of `Flatten(init='lazy')` / `flatten(levels=k, init='lazy')` -/
def runPull (j : Json) : Except String Json := do
  let heap ← heapOfJson (← j.getObjVal? "heap")
  let events ← eventsOfJson j
  let prog ← progOfJson (← j.getObjVal? "prog")
  let impl ← j.getObjVal? "impl"
  if !(wfCase heap (Event.targets events) && keysOk heap && cellsOk heap) then
    return Json.mkObj [("skip", true), ("why", "heap not closed / malformed")]
  let k ← (match prog with
    | .flatten [] .lazy => pure 1
    | .flattenFn [] .lazy l => if l ≥ 1 then pure l.toNat else throw "pull case needs levels >= 1"
    | _ => throw "pull case needs a lazy Flatten / flatten() without sub-spec")
  let target ← (match events with
    | [.eval t] => pure t
    | _ => throw "pull case needs exactly one evaluation")
  let some xs := rawIter1 heap target | throw "pull case needs an iterable source"
  if let .ok r := impl.getObjVal? "raised" then
    return Json.mkObj [("agree", false), ("holds", false), ("branch", "pull:evaluation-raised"),
      ("why", s!"the lazy evaluation itself raised {r.compress}")]
  let created ← impl.getObjValAs? Nat "created"
  let ps ← listOfJson pullOfJson (← impl.getObjVal? "pulls")
  let implRun : Nat × List Lazy.PullObs := (created, ps.map (·.1))
  -- an error pull must be a TypeError
  let errOk := ps.all (fun p => match p.1 with | .error _ => p.2 == "TypeError" | _ => true)
  let modelRun := Lazy.lazyRun heap k xs
  let agree := modelRun == implRun && errOk
  let holds := Lazy.checkLazy heap k xs implRun && errOk
  let tag := match modelRun.2.getLast? with
    | some (.stop _) => "stop" | some (.error _) => "err-TypeError" | _ => "?"
  return Json.mkObj [("agree", agree), ("holds", holds),
    ("model_holds", Lazy.checkLazy heap k xs modelRun),
    ("model", runToJson modelRun), ("expected", runToJson (Lazy.refLazyRun heap k xs)),
    ("branch", s!"pull(levels={if k > 3 then 4 else k}):{tag}")]

def run (j : Json) : Except String Json := do
  if let .ok (.bool true) := j.getObjVal? "pull" then return ← runPull j
  let heap ← heapOfJson (← j.getObjVal? "heap")
  let events ← eventsOfJson j
  let targets := Event.targets events
  let prog ← progOfJson (← j.getObjVal? "prog")
  let impl ← j.getObjVal? "impl"
  let implObs ← obsOfJson impl
  let H := (← hierOfJson (← impl.getObjVal? "hier")).toHier
  if !(wfCase heap targets && (progVals prog).all (Val.inb heap.length)) then
    return Json.mkObj [("skip", true), ("why", "heap not closed / dangling target")]
  if !(keysOk heap) then
    return Json.mkObj [("skip", true), ("why", "container used as a dict key")]
  if !(cellsOk heap && targets.all valFloatOk && (progVals prog).all valFloatOk) then
    return Json.mkObj [("skip", true), ("why", "malformed float / iterable instance without `names`")]
  if !(prog.initWF heap) then
    return Json.mkObj [("skip", true), ("why", "copying init over something that is not a list / tuple / dict")]
  let env := genEnv
  let out := runProgR H env prog events (genReg H) heap
  let modelObs := observe env heap.length (out.1, out.2.1)
  -- hypothesis-violating stream (init returns a shared object): an operator call that fails
  -- half-way has already mutated that object; such partial effects are not modelled
  if !prog.initAllocates && modelObs.results.any (fun r => match r with | .err .. => true | _ => false) then
    return Json.mkObj [("skip", true), ("why", "shared init and a failing operator call")]
  let agree := modelObs == implObs
  -- hypothesis of the flatten(levels ≥ 2) reference: chain objects are iterated with `iter`
  let chainOK := !prog.usesChain || chainIterAlong H specEnv events (specReg H)
  -- the property is evaluated in the documented environment (`specEnv`, `specReg`), memo-free,
  -- on the implementation's observation
  let holds := !chainOK || checkC15R H specEnv (specReg H) heap prog events implObs
  let modelHolds := !chainOK || checkC15R H specEnv (specReg H) heap prog events modelObs
  let tag := match modelObs.results with | r :: _ => rTag r | [] => "no-eval"
  return Json.mkObj [("agree", agree), ("holds", holds), ("model_holds", modelHolds),
    ("wf", WFConv env && WFSrc genSrc && defaultsOK (pureLk H (genReg H))),
    ("wf_parts", Json.arr #[Json.bool (WFConv env), Json.bool (WFSrc genSrc), Json.bool (defaultsOK (pureLk H (genReg H)))]),
    ("hyp_init_allocates", prog.initAllocates), ("hyp_chain_iter", chainOK),
    ("model", obsToJson modelObs),
    ("expected", Json.arr ((expectAll H specEnv heap prog events (specReg H)).map rToJson).toArray),
    ("branch", s!"{progTag prog}{if hasReg events then "+reg" else ""}:{tag}")]

end Glom.C15.Driver
