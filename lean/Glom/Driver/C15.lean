import Lean.Data.Json
/- stub: the C15 driver is not built yet -/
namespace Glom.C15.Driver
open Lean

def run (_j : Json) : Except String Json := .error "property C15: driver not implemented yet"

end Glom.C15.Driver
