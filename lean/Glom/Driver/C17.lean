import Lean.Data.Json
import Glom.Model.C17Env
import Glom.Spec.C17Streams
import Glom.Model.C17Boltons
import Glom.Spec.C17Args
import Glom.Spec.C17Events
/-
  C17 driver: one JSON case in, one JSON verdict out.

  Iter case:
    {"kind":"iter", "sub":name, "sentinel":null|{"v":V}, "p":[op…], "e1":[op…], "e2":[op…],
     "src":{"fin":[V…],"tail":null|cls}, "k":n, "mode":"take"|"all"|{"first":key},
     "impl":{"main":…, "repr_same":b, "before":T, "after":T, "reused":T, "fresh":T}}
    the prefix spec p = Iter(sub, sentinel=…).P…; d1 = p.E1…; d2 = p.E2… (after d1);
    T = {"items":[V…], "fin":"gotK"|"exhausted"|{"raised":cls}, "pulls":n}
    main = T (take / all) | {"first":{"found":V}|"default"|{"raised":cls}, "pulls":n}
    every T / main also carries "src_after":{"rest":[V…],"ended":b,"closed":b}: what next() finds on the
    source object after the run (at most "R" items asked), whether close() was called on it;
    "srckind":"gen"|"obj"|"plain" says which kind of self-iterator the source is (the model is the same)
  Reuse case (several pipelines over ONE source object, one after the other):
    {"kind":"reuse", "srckind":…, "src":…, "R":n, "pipes":[{"sub":name,"sentinel":…,"ops":[op…]}…],
     "form":"calls"|"dict", "steps":[{"pipe":i,"mode":"take","k":n}|{"pipe":i,"mode":"all"}|{"pipe":i,"mode":{"first":key}}…],
     "impl":{"steps":[T | {"first":…,"pulls":n} …], "src_after":…}}
    a "take" step creates the iterator of its pipe at its first use and resumes it later; "all"/"first"
    steps (the only ones of a dict spec) run a fresh iterator; the sequence ends at the first exception
  Streams case (several LIVE iterators, made from one spec object and from specs derived from it, pulled in
  interleaved order; every stream has its own source object):
    {"kind":"streams", "base":{"sub":name,"sentinel":…,"ops":[op…]}, "derived":[{"from":i,"ops":[op…]}…],
     "streams":[{"spec":i,"src":…,"mode":"take"|"all"|{"first":key}}…],
     "events":[["open",s]|["next",s]|["run",s]…],
     "impl":{"events":[{"open":"ok"|{"raised":cls},"pulls":n} | {"item":V,"pulls":n} | {"end":"exhausted"|{"raised":cls},"pulls":n}
                       | {"dead":true} | T | {"first":…,"pulls":n} …]}}
    spec 0 is the base spec, spec j+1 = spec derived[j].from extended by derived[j].ops; "pulls" counts the items
    taken from the stream's OWN source
  Boltons case (the code-shaped models of boltons' helpers in Model/C17Boltons.lean against the installed boltons,
  called directly on an instrumented iterator):
    {"kind":"boltons", "op":op (chunked | windowed | split | unique, arguments as in a stage), "src":…, "k":n,
     "impl":{"init":"ok"|{"raised":cls}, "init_pulls":n, "events":[{"item":V,"pulls":n} | {"end":"exhausted"|{"raised":cls},"pulls":n} …]}}
  Invoke case:
    {"kind":"invoke", "p":[call…], "e1":[call…], "e2":[call…], "target":V,
     "impl":{"repr_same":b, "before":R, "after":R, "reused":R, "fresh":R}}
    R = {"ok":[[V…],[[k,V]…]]} | {"raised":cls}
  V = {"k":"SKIP"|"STOP"} (glom's SKIP / STOP object as a value) | {"g":true} (a live iterator object) |
      null | {"i":n} | {"l":[V…]} | {"t":[V…]} | {"b":bool} | {"f":n} (the float n.0) | {"s":str} |
      {"o":cls} (instance of a user class) | {"ref":id,"v":V} (THE object number id: same id = same Python object)
-/
namespace Glom.C17.Driver
open Lean Glom.C17

/-- an item the implementation yielded that is not a value of the domain (a SKIP / STOP object
    that leaked into the stream, a generator …) is kept as a marker no model run produces -/
def outOfDomain : V := .tup [.list [.tup [.list []]], .int 424242]

partial def vOfJson (j : Json) : Except String V :=
  match j with
  | .null => .ok .none
  | .obj _ =>
    if let .ok i := j.getObjValAs? Int "i" then .ok (.int i)
    else if let .ok _ := j.getObjVal? "x" then .ok outOfDomain
    else if let .ok (.arr a) := j.getObjVal? "l" then do return .list (← a.toList.mapM vOfJson)
    else if let .ok (.arr a) := j.getObjVal? "t" then do return .tup (← a.toList.mapM vOfJson)
    else if let .ok b := j.getObjValAs? Bool "b" then .ok (.bool b)
    else if let .ok i := j.getObjValAs? Int "f" then .ok (.flt i)
    else if let .ok s := j.getObjValAs? String "s" then .ok (.str s)
    else if let .ok c := j.getObjValAs? Nat "o" then .ok (.obj c)
    else if let .ok k := j.getObjValAs? String "k" then
      (match k with | "SKIP" => .ok (.sent false) | "STOP" => .ok (.sent true) | _ => .error s!"bad V {j.compress}")
    else if let .ok true := j.getObjValAs? Bool "g" then .ok .gen
    else if let .ok n := j.getObjValAs? Nat "ref" then do
      -- an identity is given to objects only: floats, strings, tuples, lists, instances
      match ← vOfJson (← j.getObjVal? "v") with
      | .none | .int _ | .bool _ | .ref _ _ => .error s!"bad V {j.compress}"
      | v => return .ref n v
    else .error s!"bad V {j.compress}"
  | _ => .error s!"bad V {j.compress}"

partial def vToJson : V → Json
  | .none => .null
  | .int i => Json.mkObj [("i", toJson i)]
  | .list xs => Json.mkObj [("l", Json.arr (xs.map vToJson).toArray)]
  | .tup xs => Json.mkObj [("t", Json.arr (xs.map vToJson).toArray)]
  | .bool b => Json.mkObj [("b", b)]
  | .flt i => Json.mkObj [("f", toJson i)]
  | .str s => Json.mkObj [("s", s)]
  | .obj c => Json.mkObj [("o", c)]
  | .ref n v => Json.mkObj [("ref", n), ("v", vToJson v)]
  | .sent b => Json.mkObj [("k", if b then "STOP" else "SKIP")]
  | .gen => Json.mkObj [("g", true)]

def arr (j : Json) : Except String (List Json) :=
  match j with
  | .arr a => .ok a.toList
  | _ => .error s!"expected array, got {j.compress}"

/-! ### the catalogue of user callables (Python side: harness/props/c17.py `CATALOGUE`) -/

/-- a function of numbers (`x + 1`, `x % 2` …): ints and bools give ints, floats give floats;
    anything else raises TypeError.  The result is a new object (no identity). -/
def numFn (g : Int → Int) : Fn := fun x =>
  match x.strip with
  | .int i => .ok (.int (g i))
  | .bool b => .ok (.int (g (if b then 1 else 0)))
  | .flt i => .ok (.flt (g i))
  | _ => .error "TypeError"

def catalogue (name : String) : Option Fn :=
  match name with
  | "T" => some (fun x => .ok x)
  | "inc" => some (numFn (· + 1))
  | "dbl" => some (fun x => match x.strip with
      | .int i => .ok (.int (i * 2))
      | .bool b => .ok (.int (if b then 2 else 0))
      | .flt i => .ok (.flt (i * 2))
      | .str s => .ok (.str (s ++ s))
      | .list xs => .ok (.list (xs ++ xs))
      | .tup xs => .ok (.tup (xs ++ xs))
      | _ => .error "TypeError")
  | "neg" => some (numFn (fun i => -i))
  | "mod2" => some (numFn (· % 2))
  | "mod3" => some (numFn (· % 3))
  | "lt3" => some (fun x => match x.strip.num with
      | some i => .ok (.int (if i < 3 then 1 else 0))
      | none => .error "TypeError")
  | "wrap" => some (fun x => .ok (.list [x, x]))
  | "rng" => some (fun x => match x.strip with
      | .flt _ => .error "TypeError"
      | y => match y.num with
        | some i => .ok (.list ((List.range (i % 3).toNat).map (fun (n : Nat) => V.int (Int.ofNat n))))
        | none => .error "TypeError")
  | "pair" => some (fun x => .ok (.tup [x, .int 0]))
  | "length" => some (fun x => match x.strip with
      | .list xs => .ok (.int xs.length)
      | .tup xs => .ok (.int xs.length)
      | .str s => .ok (.int s.length)
      | _ => .error "TypeError")
  | "head" => some (fun x => match x.strip with
      | .list (y :: _) => .ok y
      | .tup (y :: _) => .ok y
      | .str s => (match s.toList with | c :: _ => .ok (.str (String.singleton c)) | [] => .error "PathAccessError")
      | _ => .error "PathAccessError")
  | "bad3" => some (fun x => match x.pyEqAtom (.int 3) with
      | .ok true => .error "ValueError"
      | .ok false => .ok x
      | .error e => .error e)
  | "none" => some (fun _ => .ok .none)
  | "zero" => some (fun _ => .ok (.int 0))
  | "one" => some (fun _ => .ok (.int 1))
  -- functions that answer with the SKIP / STOP object: as `Iter(f)` they filter / end the stream, as a
  -- `map` function, a key … they produce an ordinary value
  | "skip2" => some (fun x => match x with | .int 2 => .ok (.sent false) | _ => .ok x)
  | "stop3" => some (fun x => match x with | .int 3 => .ok (.sent true) | _ => .ok x)
  | "nobool2" => some (fun x => match x with | .int 2 => .ok (.ref 94 (.obj 4)) | _ => .ok x)
  | "pos" => some (fun x => match x.strip.num with
      | some i => .ok (.bool (i > 0))
      | none => .error "TypeError")
  | "tofloat" => some (fun x => match x with | .int i => .ok (.flt i) | _ => .ok x)
  | "tobool" => some (fun x => match x with | .int i => .ok (.bool (i != 0)) | _ => .ok x)
  | _ => none

def baseCatalogue (name : String) : Option BaseFn :=
  match name with
  | "skip_odd" => some (fun x => match x with
      | .int i => if i % 2 != 0 then .ok .skip else .ok (.val x)
      | _ => .ok (.val x))
  | "stop_ge4" => some (fun x => match x with
      | .int i => if i ≥ 4 then .ok .stop else .ok (.val x)
      | _ => .ok (.val x))
  | "skip_stop" => some (fun x => match x with
      | .int i => if i ≥ 5 then .ok .stop else if i % 3 == 1 then .ok .skip else .ok (.val x)
      | _ => .ok (.val x))
  | n => (catalogue n).map BaseFn.ofFn

def fnOf (name : String) : Except String Fn :=
  match catalogue name with
  | some f => .ok f
  | none => .error s!"unknown callable {name}"

def optNat (j : Json) : Except String (Option Nat) :=
  match j with
  | .null => .ok none
  | _ => do return some (← j.getNat?)

def entryOfJson (j : Json) : Except String Entry := do
  let op ← j.getObjValAs? String "op"
  -- no "f": the method was called without its key (the default, `T`)
  let f : Except String Fn := (match j.getObjVal? "f" with
    | .ok (.str n) => fnOf n
    | .ok .null => fnOf "T"
    | .ok x => .error s!"bad callable {x.compress}"
    | .error _ => fnOf "T")
  match op with
  | "map" => return ⟨op, .map (← f)⟩
  | "filter" =>
    (match j.getObjVal? "check" with
     | .ok cj => do
       let v ← fnOf (← cj.getObjValAs? String "validate")
       let onFail ← (match cj.getObjVal? "default" with
         | .ok (.str "SKIP") => pure CheckFail.skip
         | .ok (.str "keep") => pure CheckFail.keep
         | .ok .null => pure CheckFail.raises
         | _ => throw "bad Check default")
       return ⟨op, .filter (Fn.ofCheck v onFail)⟩
     | .error _ => return ⟨op, .filter (Fn.asFilterKey (← f))⟩)
  | "takewhile" => return ⟨op, .takewhile (Fn.asPredicate (← f))⟩
  | "dropwhile" => return ⟨op, .dropwhile (Fn.asPredicate (← f))⟩
  | "unique" => return ⟨op, .unique (← f)⟩
  | "flatten" => return ⟨op, .flatten⟩
  | "limit" => return ⟨op, .slice 0 (← optNat (← j.getObjVal? "n")) 1⟩
  | "slice" =>
    let a ← (← arr (← j.getObjVal? "a")).mapM optNat
    match a with
    | [stop] => return ⟨op, .slice 0 stop 1⟩
    | [start, stop] => return ⟨op, .slice (start.getD 0) stop 1⟩
    | [start, stop, step] => return ⟨op, .slice (start.getD 0) stop (step.getD 1)⟩
    | _ => throw "bad slice args"
  | "chunked" =>
    let size ← j.getObjValAs? Nat "size"
    let fill ← (match j.getObjVal? "fill" with
      | .ok fj => do return some (← vOfJson (← fj.getObjVal? "v"))
      | .error _ => pure none)
    return ⟨op, .chunked size fill⟩
  | "windowed" => return ⟨op, .windowed (← j.getObjValAs? Nat "size")⟩
  | "split" =>
    let sep ← (match j.getObjVal? "sep" with
      | .ok sj =>
        -- `split(sep=None)` written out is the default: the grouping mode
        if let .ok v := sj.getObjVal? "scalar" then do
          return (match ← vOfJson v with | .none => Sep.none | w => Sep.scalar w)
        else if let .ok v := sj.getObjVal? "set" then do return Sep.set (← (← arr v).mapM vOfJson)
        else if let .ok n := sj.getObjValAs? String "fn" then do return Sep.fn (Fn.asPredicate (← fnOf n))
        else pure Sep.none
      | .error _ => pure Sep.none)
    let m ← (match j.getObjVal? "maxsplit" with
      | .ok mj => optNat mj
      | .error _ => pure none)
    return ⟨op, .split sep m⟩
  | _ => throw s!"unknown op {op}"

def srcOfJson (j : Json) : Except String Src := do
  let xs ← (← arr (← j.getObjVal? "fin")).mapM vOfJson
  let tail := match j.getObjValAs? String "tail" with
    | .ok e => some e
    | .error _ => none
  return .fin xs tail

def finOfJson (j : Json) : Except String Fin :=
  match j with
  | .str "gotK" => .ok .gotK
  | .str "exhausted" => .ok .exhausted
  | _ => match j.getObjValAs? String "raised" with
    | .ok e => .ok (.raised e)
    | .error _ => .error s!"bad fin {j.compress}"

def finToJson : Fin → Json
  | .gotK => "gotK"
  | .exhausted => "exhausted"
  | .raised e => Json.mkObj [("raised", e)]
  | .oof => "oof"

def itemOfJson (j : Json) : Except String V := vOfJson j

def takeOfJson (j : Json) : Except String TakeObs := do
  let items ← (← arr (← j.getObjVal? "items")).mapM itemOfJson
  return ⟨items, ← finOfJson (← j.getObjVal? "fin"), ← j.getObjValAs? Nat "pulls"⟩

/-- `all()`: what was returned IS a list (`Pipe(self, list)`), not something that merely holds the same items -/
def isListOfJson (j : Json) : Except String Bool := j.getObjValAs? Bool "is_list"

def takeToJson (o : TakeObs) : Json :=
  Json.mkObj [("items", Json.arr (o.items.map vToJson).toArray), ("fin", finToJson o.fin), ("pulls", o.pulls)]

def obsOfRun (r : RunOut) : TakeObs := ⟨r.items, r.fin, r.pulls⟩

def afterOfJson (j : Json) : Except String SrcAfter := do
  let a ← j.getObjVal? "src_after"
  return ⟨← (← arr (← a.getObjVal? "rest")).mapM vOfJson, ← a.getObjValAs? Bool "ended", ← a.getObjValAs? Bool "closed"⟩

def afterToJson (a : SrcAfter) : Json :=
  Json.mkObj [("rest", Json.arr (a.rest.map vToJson).toArray), ("ended", a.ended), ("closed", a.closed)]

def probeCount (j : Json) : Nat :=
  match j.getObjValAs? Nat "R" with
  | .ok r => r
  | .error _ => 3

def firstToJson : FirstObs → Json
  | .found v => Json.mkObj [("found", vToJson v)]
  | .default => "default"
  | .raised e => Json.mkObj [("raised", e)]
  | .oof => "oof"

def firstOfJson (j : Json) : Except String FirstObs :=
  match j with
  | .str "default" => .ok .default
  | _ =>
    if let .ok v := j.getObjVal? "found" then do return .found (← itemOfJson v)
    else if let .ok e := j.getObjValAs? String "raised" then .ok (.raised e)
    else .error s!"bad first obs {j.compress}"

/-- fuel for the model runs: far above anything a generated case needs -/
def FUEL : Nat := 4000

def chain (fwd : Bool) (h : BHeap) (i : Nat) (es : List Entry) : BHeap × Nat := h.chain fwd i es

def finName : Fin → String
  | .gotK => "gotK"
  | .exhausted => "exhausted"
  | .raised e => s!"raised-{e}"
  | .oof => "oof"

/-- `{"first": name}`; `{"first": null}`: `first()` / `first(default=D)` — the default key `T` -/
def firstKey (modeJ : Json) : Except String Fn :=
  match modeJ.getObjVal? "first" with
  | .ok (.str n) => (fnOf n).map Fn.asPredicate
  | .ok .null => (fnOf "T").map Fn.asPredicate
  | _ => .error s!"bad mode {modeJ.compress}"

/-- the implementation against the composition of the LIST functions (`composeE`, which shares nothing
    with the transducers), whenever that evaluates: a finite source that ends normally and no stage raises -/
def refTake (kinds : List Kind) (src : Src) (k : Nat) (o : TakeObs) : Bool :=
  match src with
  | .fin xs none =>
    (match composeE kinds xs with
     | .ok ys => o.items == ys.take k && o.fin == (if ys.length ≥ k then .gotK else .exhausted)
     | .error _ => true)
  | _ => true

def refAll (kinds : List Kind) (src : Src) (o : TakeObs) : Bool :=
  match src with
  | .fin xs none =>
    (match composeE kinds xs with
     | .ok ys => o.items == ys && o.fin == .exhausted
     | .error _ => true)
  | _ => true

def refFirst (kinds : List Kind) (src : Src) (key : Fn) (o : FirstObs) : Bool :=
  match src with
  | .fin xs none =>
    (match composeE kinds xs with
     | .ok ys =>
       (match firstRef key ys .eof 0 with
        | .found v _ => o == .found v
        | .keyRaised _ _ => (match o with | .raised _ => true | _ => false)
        | .atEnd _ => o == .default)
     | .error _ => true)
  | _ => true

def runIter (j : Json) : Except String Json := do
  let fwd := genFacts.addOpForwardsSentinel
  let subName ← j.getObjValAs? String "sub"
  let some sub := baseCatalogue subName | throw s!"unknown subspec {subName}"
  let sentinel ← (match j.getObjVal? "sentinel" with
    | .ok .null => pure none
    | .ok sj => do return some (← vOfJson (← sj.getObjVal? "v"))
    | .error _ => pure none)
  let p ← (← arr (← j.getObjVal? "p")).mapM entryOfJson
  let e1 ← (← arr (← j.getObjVal? "e1")).mapM entryOfJson
  let e2 ← (← arr (← j.getObjVal? "e2")).mapM entryOfJson
  let src ← srcOfJson (← j.getObjVal? "src")
  let k ← j.getObjValAs? Nat "k"
  let modeJ ← j.getObjVal? "mode"
  let impl ← j.getObjVal? "impl"
  -- the builder calls, on the heap model
  let (h0, i0) := (BHeap.mk [] []).newIter sub sentinel
  let (h1, ip) := chain fwd h0 i0 p
  let some pBefore := h1.view ip | throw "model: prefix spec missing"
  let (h2, _) := chain fwd h1 ip e1
  let (h3, id2) := chain fwd h2 ip e2
  let some pAfter := h3.view ip | throw "model: prefix spec missing"
  let some d2 := h3.view id2 | throw "model: derived spec missing"
  -- what the user wrote: Iter(sub, sentinel=…) followed by P ++ E2 (the sentinel stays)
  let userKinds : List Kind := .base sub sentinel :: (p ++ e2).map (·.kind)
  let prefixKinds : List Kind := .base sub sentinel :: p.map (·.kind)
  if !(userKinds.all Kind.wf) || !((e1.map (·.kind)).all Kind.wf) then
    return Json.mkObj [("skip", true), ("why", "stage arguments outside the modelled domain")]
  let mBefore := obsOfRun (runTake pBefore.kinds src FUEL k)
  let mAfter := obsOfRun (runTake pAfter.kinds src FUEL k)
  let mReused := obsOfRun (runTake d2.kinds src FUEL k)
  let iBefore ← takeOfJson (← impl.getObjVal? "before")
  let iAfter ← takeOfJson (← impl.getObjVal? "after")
  let iReused ← takeOfJson (← impl.getObjVal? "reused")
  let iFresh ← takeOfJson (← impl.getObjVal? "fresh")
  let reprSame ← impl.getObjValAs? Bool "repr_same"
  -- `_add_op` builds `type(self)(…)`: the prefix spec and both derived specs are of the class of the base spec
  let clsKept ← impl.getObjValAs? Bool "cls_kept"
  let mainJ ← impl.getObjVal? "main"
  let r := probeCount j
  let aBefore ← afterOfJson (← impl.getObjVal? "before")
  let aAfter ← afterOfJson (← impl.getObjVal? "after")
  let aReused ← afterOfJson (← impl.getObjVal? "reused")
  let aFresh ← afterOfJson (← impl.getObjVal? "fresh")
  let srcHolds := checkSource src iBefore.pulls r aBefore && checkSource src iAfter.pulls r aAfter &&
    checkSource src iReused.pulls r aReused && checkSource src iFresh.pulls r aFresh
  let srcAgree := src.after mBefore.pulls r == aBefore && src.after mAfter.pulls r == aAfter &&
    src.after mReused.pulls r == aReused && src.after mReused.pulls r == aFresh
  let reuseHolds := clsKept && checkReuse reprSame iBefore iAfter iReused iFresh &&
    checkTake prefixKinds src k iBefore && checkTake userKinds src k iReused &&
    refTake prefixKinds src k iBefore && refTake userKinds src k iReused
  let reuseAgree := clsKept == genFacts.addOpTypeSelf && mBefore == iBefore && mAfter == iAfter && mReused == iReused && mReused == iFresh
  let (mainAgree, mainHolds, mainModel, br) ← (match modeJ with
    | .str "take" => pure (true, true, Json.null, s!"take-{finName mReused.fin}")
    | .str "all" => do
      let m := obsOfRun (runAll d2.kinds src FUEL)
      let i ← takeOfJson mainJ
      let isList ← isListOfJson mainJ
      let a ← afterOfJson mainJ
      let agree := m.fin == i.fin && m.pulls == i.pulls && (m.fin != .exhausted || m.items == i.items) &&
        src.after m.pulls r == a
      pure (agree && isList, checkAll userKinds src i && refAll userKinds src i && checkSource src i.pulls r a && isList,
        takeToJson m,
        s!"all-{finName m.fin}")
    | _ => do
      let key ← firstKey modeJ
      let dflt : FirstDefault ← (match modeJ.getObjVal? "default" with
        | .ok (.str "T") => pure FirstDefault.tExpr
        | .ok (.str "Val") => pure (FirstDefault.valInt 424243)
        | .ok x => throw s!"bad default {x.compress}"
        | .error _ => pure FirstDefault.plain)
      let m := runFirst d2.kinds src FUEL key
      let i ← firstOfJson (← mainJ.getObjVal? "first")
      let ip ← mainJ.getObjValAs? Nat "pulls"
      let mo := (match firstObsOf m.1 with | .default => dflt.miss | o => o)
      let sameKind := match mo, i with
        | .raised _, .raised _ => true      -- class of a key error: see `checkFirst`
        | a, b => a == b
      let a ← afterOfJson mainJ
      pure ((mo == i || sameKind) && m.2 == ip && src.after m.2 r == a,
        checkFirstD dflt userKinds src key i ip &&
          refFirst userKinds src key (if dflt != .plain && i == dflt.miss then .default else i) && checkSource src ip r a,
        Json.mkObj [("first", firstToJson mo), ("pulls", m.2)],
        s!"first-{match mo with | .found _ => "found" | .default => "default" | .raised e => "raised-" ++ e | .oof => "oof"}"))
  let oof := mBefore.fin == .oof || mReused.fin == .oof
  if oof then
    return Json.mkObj [("skip", true), ("why", "model ran out of fuel")]
  let why := (if reuseHolds then "" else "prefix/derived spec: ") ++ (if mainHolds then "" else "main observation") ++
    (if srcHolds then "" else " source after the run: items lost / pushed back, or close() called")
  return Json.mkObj [
    ("agree", reuseAgree && mainAgree && srcAgree), ("holds", reuseHolds && mainHolds && srcHolds),
    ("model", Json.mkObj [("before", takeToJson mBefore), ("after", takeToJson mAfter),
      ("reused", takeToJson mReused), ("main", mainModel),
      ("src_after", afterToJson (src.after mReused.pulls r))]),
    ("need", needFrom userKinds src (srcLen src) k (primeNeed userKinds src (srcLen src))),
    ("branch", br), ("why", why)]

/-! ### several pipelines over one source object -/

def stepObsToJson : StepObs → Json
  | .run o => takeToJson o
  | .first o p => Json.mkObj [("first", firstToJson o), ("pulls", p)]

def stepObsOfJson (m : Mode) (j : Json) : Except String StepObs := do
  match m with
  | .first _ => return .first (← firstOfJson (← j.getObjVal? "first")) (← j.getObjValAs? Nat "pulls")
  | _ => return .run (← takeOfJson j)

/-- model and implementation observed the same thing at one step (`all()` that raised has no
    items; the class of an exception raised by the key of `first` is not compared) -/
def stepAgree (m : Mode) (a b : StepObs) : Bool :=
  match m, a, b with
  | .take _, .run x, .run y => x == y
  | .all, .run x, .run y => x.fin == y.fin && x.pulls == y.pulls && (x.fin != .exhausted || x.items == y.items)
  | .first _, .first x p, .first y q =>
    p == q && (match x, y with | .raised _, .raised _ => true | u, v => u == v)
  | _, _, _ => false

def stepOfJson (j : Json) : Except String Step := do
  let pipe ← j.getObjValAs? Nat "pipe"
  let mj ← j.getObjVal? "mode"
  match mj with
  | .str "take" => return ⟨pipe, .take (← j.getObjValAs? Nat "k")⟩
  | .str "all" => return ⟨pipe, .all⟩
  | _ => return ⟨pipe, .first (← firstKey mj)⟩

def pipeOfJson (j : Json) : Except String (List Kind) := do
  let subName ← j.getObjValAs? String "sub"
  let some sub := baseCatalogue subName | throw s!"unknown subspec {subName}"
  let sentinel ← (match j.getObjVal? "sentinel" with
    | .ok .null => pure none
    | .ok sj => do return some (← vOfJson (← sj.getObjVal? "v"))
    | .error _ => pure none)
  let ops ← (← arr (← j.getObjVal? "ops")).mapM entryOfJson
  return .base sub sentinel :: ops.map (·.kind)

def runReuse (j : Json) : Except String Json := do
  let src ← srcOfJson (← j.getObjVal? "src")
  let (xs, tail) := match src with
    | .fin xs tail => (xs, tail)
    | .inf _ => ([], none)
  let pipes ← (← arr (← j.getObjVal? "pipes")).mapM pipeOfJson
  let steps ← (← arr (← j.getObjVal? "steps")).mapM stepOfJson
  let impl ← j.getObjVal? "impl"
  let r := probeCount j
  if !(pipes.all (·.all Kind.wf)) then
    return Json.mkObj [("skip", true), ("why", "stage arguments outside the modelled domain")]
  if steps.any (fun s => s.pipe ≥ pipes.length) then throw "step names a pipe that does not exist"
  let obsJ ← arr (← impl.getObjVal? "steps")
  if obsJ.length > steps.length then throw "more observations than steps"
  let iObs ← (steps.take obsJ.length |>.zip obsJ).mapM (fun (s, o) => stepObsOfJson s.mode o)
  let listsOk ← (steps.take obsJ.length |>.zip obsJ).mapM (fun (s, o) => match s.mode with
    | .all => isListOfJson o
    | _ => pure true)
  let iAfter ← afterOfJson impl
  let none0 : List (Option (List StageSt)) := pipes.map (fun _ => none)
  let mObs := (modelSteps FUEL src pipes steps 0 none0).map StepOut.obs
  if mObs.any StepObs.oof then
    return Json.mkObj [("skip", true), ("why", "model ran out of fuel")]
  let mPos := match mObs.getLast? with | some o => o.pulls | none => 0
  let iPos := match iObs.getLast? with | some o => o.pulls | none => 0
  let agree := mObs.length == iObs.length &&
    ((steps.zip (mObs.zip iObs)).all fun (s, a, b) => stepAgree s.mode a b) && src.after mPos r == iAfter
  -- the observations stop early only at an exception
  let complete := iObs.length == steps.length || (match iObs.getLast? with | some o => o.raised | none => false)
  let stepsHold := complete && listsOk.all id &&
    checkSteps xs tail pipes (steps.take iObs.length) iObs 0 (pipes.map fun _ => {})
  let srcHolds := checkSource src iPos r iAfter
  let why := (if stepsHold then "" else "a step does not yield the composition over the remaining source items") ++
    (if srcHolds then "" else " source after the run: items lost / pushed back, or close() called")
  let form := match j.getObjValAs? String "form" with | .ok f => f | .error _ => "calls"
  let lastName := match mObs.getLast? with
    | some (.run o) => finName o.fin
    | some (.first o _) => (match o with | .found _ => "found" | .default => "default" | .raised e => "raised-" ++ e | .oof => "oof")
    | none => "none"
  return Json.mkObj [
    ("agree", agree), ("holds", stepsHold && srcHolds),
    ("model", Json.mkObj [("steps", Json.arr (mObs.map stepObsToJson).toArray), ("src_after", afterToJson (src.after mPos r))]),
    ("branch", s!"reuse-{form}-{mObs.length}-{lastName}"), ("why", why)]

/-! ### several live streams -/

def evObsToJson : EvObs → Json
  | .opened p => Json.mkObj [("open", "ok"), ("pulls", p)]
  | .openErr e p => Json.mkObj [("open", Json.mkObj [("raised", e)]), ("pulls", p)]
  | .item v p => Json.mkObj [("item", vToJson v), ("pulls", p)]
  | .eof p => Json.mkObj [("end", "exhausted"), ("pulls", p)]
  | .err e p => Json.mkObj [("end", Json.mkObj [("raised", e)]), ("pulls", p)]
  | .ran o => takeToJson o
  | .first o p => Json.mkObj [("first", firstToJson o), ("pulls", p)]
  | .dead => Json.mkObj [("dead", true)]

def evObsOfJson (e : Ev) (j : Json) : Except String EvObs := do
  if let .ok true := j.getObjValAs? Bool "dead" then return .dead
  match e with
  | .open _ _ _ =>
    let p ← j.getObjValAs? Nat "pulls"
    match ← j.getObjVal? "open" with
    | .str "ok" => return .opened p
    | o => return .openErr (← o.getObjValAs? String "raised") p
  | .next _ =>
    let p ← j.getObjValAs? Nat "pulls"
    if let .ok v := j.getObjVal? "item" then return .item (← itemOfJson v) p
    match ← j.getObjVal? "end" with
    | .str "exhausted" => return .eof p
    | o => return .err (← o.getObjValAs? String "raised") p
  | .all _ _ _ => return .ran (← takeOfJson j)
  | .first _ _ _ _ => return .first (← firstOfJson (← j.getObjVal? "first")) (← j.getObjValAs? Nat "pulls")

def evAgree (e : Ev) (a b : EvObs) : Bool :=
  match e, a, b with
  | _, .opened p, .opened q => p == q
  | _, .openErr x p, .openErr y q => x == y && p == q
  | _, .item v p, .item w q => v == w && p == q
  | _, .eof p, .eof q => p == q
  | _, .err x p, .err y q => x == y && p == q
  | _, .dead, .dead => true
  | _, .ran x, .ran y => stepAgree .all (.run x) (.run y)
  | .first _ _ _ key, .first x p, .first y q => stepAgree (.first key) (.first x p) (.first y q)
  | _, _, _ => false

def runStreams (j : Json) : Except String Json := do
  let baseKinds ← pipeOfJson (← j.getObjVal? "base")
  let derivedJ ← arr (← j.getObjVal? "derived")
  let mut specs : Array (List Kind) := #[baseKinds]
  for d in derivedJ do
    let from_ ← d.getObjValAs? Nat "from"
    let ops ← (← arr (← d.getObjVal? "ops")).mapM entryOfJson
    let some parent := specs[from_]? | throw "derived spec names a spec that does not exist"
    specs := specs.push (parent ++ ops.map (·.kind))
  if !(specs.toList.all (·.all Kind.wf)) then
    return Json.mkObj [("skip", true), ("why", "stage arguments outside the modelled domain")]
  let streamsJ ← arr (← j.getObjVal? "streams")
  let streams ← streamsJ.mapM fun sj => do
    let si ← sj.getObjValAs? Nat "spec"
    let some kinds := specs[si]? | throw "stream names a spec that does not exist"
    let src ← srcOfJson (← sj.getObjVal? "src")
    let modeJ ← sj.getObjVal? "mode"
    return (kinds, src, modeJ)
  let srcs : List Src := streams.map (·.2.1)
  let srcsFin : List (List V × Option Err) := srcs.map fun s => match s with
    | .fin xs tail => (xs, tail)
    | .inf _ => ([], none)
  let evsJ ← arr (← j.getObjVal? "events")
  let evs ← evsJ.mapM fun ej => do
    match ← arr ej with
    | [.str "open", n] =>
      let i ← n.getNat?
      let some (kinds, _, _) := streams[i]? | throw "event names a stream that does not exist"
      return Ev.open i kinds i
    | [.str "next", n] => return Ev.next (← n.getNat?)
    | [.str "run", n] =>
      let i ← n.getNat?
      let some (kinds, _, modeJ) := streams[i]? | throw "event names a stream that does not exist"
      match modeJ with
      | .str "all" => return Ev.all i kinds i
      | _ => return Ev.first i kinds i (← firstKey modeJ)
    | _ => throw s!"bad event {ej.compress}"
  let impl ← j.getObjVal? "impl"
  let obsJ ← arr (← impl.getObjVal? "events")
  if obsJ.length != evs.length then throw "number of observations differs from the number of events"
  let iObs ← (evs.zip obsJ).mapM fun (e, o) => evObsOfJson e o
  let listsOk ← (evs.zip obsJ).mapM fun (e, o) => match e with
    | .all _ _ _ => isListOfJson o
    | _ => pure true
  let mOut := (World.empty.run srcs FUEL evs).2.map (·.2)
  if mOut.any EvOut.isOof then
    return Json.mkObj [("skip", true), ("why", "model ran out of fuel")]
  let mObs := mOut.map EvOut.obs
  let agree := (evs.zip (mObs.zip iObs)).all fun (e, a, b) => evAgree e a b
  let holds := checkStreams srcsFin evs iObs (fun _ => none) && listsOk.all id
  let nlive := (evs.filter fun e => match e with | .open _ _ _ => true | _ => false).length
  return Json.mkObj [
    ("agree", agree), ("holds", holds),
    ("model", Json.mkObj [("events", Json.arr (mObs.map evObsToJson).toArray)]),
    ("branch", s!"streams-{nlive}-{specs.size}"),
    ("why", if holds then "" else "a stream does not yield what it yields when it is run alone (the composition of its stages over its own source)")]

/-! ### builder methods at the edges of their arguments -/

def argOfJson (j : Json) : Except String Arg :=
  match j with
  | .null => .ok .none
  | .bool b => .ok (.bool b)
  | .num _ => do return .int (← j.getInt?)
  | .obj _ =>
    if let .ok s := j.getObjValAs? String "str" then .ok (.str s)
    else do return .flt (← j.getObjValAs? Int "trunc") (← j.getObjValAs? Bool "integral")
  | _ => .error s!"bad argument {j.compress}"

/-- the builder call of an `args` case, by the model: a build-time exception or the stage -/
def methodOfJson (j : Json) : Except String (Except Err Kind) := do
  let m ← j.getObjValAs? String "m"
  let args ← (match j.getObjVal? "args" with
    | .ok a => do (← arr a).mapM argOfJson
    | .error _ => pure [])
  match m, args with
  | "slice", _ => return sliceMethod args
  | "limit", [a] => return .ok (limitMethod a)
  | "chunked", [a] =>
    let fill ← (match j.getObjVal? "fill" with
      | .ok fj => do return some (← vOfJson (← fj.getObjVal? "v"))
      | .error _ => pure none)
    return .ok (chunkedMethod a fill)
  | "windowed", [a] => return .ok (windowedMethod a)
  | "split", _ =>
    let sep ← (match j.getObjVal? "sep" with
      | .ok sj =>
        if let .ok v := sj.getObjVal? "scalar" then do
          return (match ← vOfJson v with | .none => Sep.none | w => Sep.scalar w)
        else if let .ok v := sj.getObjVal? "set" then do return Sep.set (← (← arr v).mapM vOfJson)
        else throw "bad separator"
      | .error _ => pure Sep.none)
    return .ok (splitMethod sep (← argOfJson (← j.getObjVal? "maxsplit")))
  | _, _ => throw s!"bad method call {j.compress}"

def runArgs (j : Json) : Except String Json := do
  let pre ← (← arr (← j.getObjVal? "pre")).mapM entryOfJson
  let post ← (← arr (← j.getObjVal? "post")).mapM entryOfJson
  let built ← methodOfJson (← j.getObjVal? "op")
  let src ← srcOfJson (← j.getObjVal? "src")
  let k ← j.getObjValAs? Nat "k"
  let modeJ ← j.getObjVal? "mode"
  let impl ← j.getObjVal? "impl"
  let buildJ ← impl.getObjVal? "build"
  let iBuild : Option Err ← (match buildJ with
    | .str "ok" => pure none
    | o => do return some (← o.getObjValAs? String "raised"))
  match built with
  | .error e =>
    -- the builder call itself raises: nothing else to observe
    let ok := iBuild == some e
    return Json.mkObj [("agree", ok), ("holds", ok), ("model", Json.mkObj [("build", Json.mkObj [("raised", e)])]),
      ("branch", s!"args-build-{e}"),
      ("why", if ok then "" else "the builder method does not reject these arguments the way the model says")]
  | .ok kind =>
    let kinds : List Kind := .base (BaseFn.ofFn (fun x => .ok x)) none :: (pre.map (·.kind) ++ [kind] ++ post.map (·.kind))
    if !(kinds.all Kind.wf) then throw "args case: a stage of pre/post is outside the domain"
    if iBuild.isSome then
      return Json.mkObj [("agree", false), ("holds", false), ("model", Json.mkObj [("build", "ok")]),
        ("branch", "args-build-ok"), ("why", "the builder method raised; the model accepts these arguments")]
    let runJ ← impl.getObjVal? "run"
    let i ← takeOfJson runJ
    let a ← afterOfJson runJ
    match modeJ with
    | .str "all" =>
      let isList ← isListOfJson runJ
      let m := obsOfRun (runAllG kinds src FUEL)
      if m.fin == .oof then return Json.mkObj [("skip", true), ("why", "model ran out of fuel")]
      let agree := m.fin == i.fin && m.pulls == i.pulls && (m.fin != .exhausted || m.items == i.items) && isList
      return Json.mkObj [("agree", agree), ("holds", checkAllG kinds src i && refAll kinds src i && isList &&
          checkSource src i.pulls 1 a),
        ("model", takeToJson m), ("branch", s!"args-all-{finName m.fin}"), ("why", "")]
    | _ =>
      let m := obsOfRun (runTakeG kinds src FUEL k)
      if m.fin == .oof then return Json.mkObj [("skip", true), ("why", "model ran out of fuel")]
      return Json.mkObj [("agree", m == i), ("holds", checkTakeG kinds src k i && refTake kinds src k i &&
          checkSource src i.pulls 1 a),
        ("model", takeToJson m), ("branch", s!"args-take-{finName m.fin}"), ("why", "")]

/-! ### a consumer that goes on after exceptions -/

def evtToJson (o : Option Evt × Nat) : Json :=
  match o.1 with
  | some (.item v) => Json.mkObj [("item", vToJson v), ("pulls", o.2)]
  | some (.err e) => Json.mkObj [("raised", e), ("pulls", o.2)]
  | none => Json.mkObj [("end", "exhausted"), ("pulls", o.2)]

def evtOfJson (j : Json) : Except String (Option Evt × Nat) := do
  let p ← j.getObjValAs? Nat "pulls"
  if let .ok v := j.getObjVal? "item" then return (some (.item (← vOfJson v)), p)
  if let .ok e := j.getObjValAs? String "raised" then return (some (.err e), p)
  match ← j.getObjVal? "end" with
  | .str "exhausted" => return (none, p)
  | x => throw s!"bad event {x.compress}"

def optEvtEq : Option Evt → Option Evt → Bool
  | some a, some b => a == b
  | none, none => true
  | _, _ => false

/-- Events case: {"kind":"events", "sub":…, "sentinel":…, "ops":[op…], "src":…, "n":n,
      "impl":{"open":"ok"|{"raised":cls}, "open_pulls":n, "events":[{"item":V,"pulls":n}|{"raised":cls,"pulls":n}|{"end":"exhausted","pulls":n}…]}}
    `n` calls of next() on ONE iterator, every exception caught and the loop continued -/
def runEventsCase (j : Json) : Except String Json := do
  let kinds ← pipeOfJson j
  let src ← srcOfJson (← j.getObjVal? "src")
  let (xs, tail) := match src with
    | .fin xs tail => (xs, tail)
    | .inf _ => ([], none)
  let n ← j.getObjValAs? Nat "n"
  let impl ← j.getObjVal? "impl"
  if !(kinds.all Kind.wf) then throw "events case: a stage is outside the domain"
  if kinds.any (fun k => k.primeCount != 0 || k.glomitErr.isSome) then
    throw "events case: windowed / glomit-raising stages are not part of this class"
  let iOpenErr : Option Err ← (match ← impl.getObjVal? "open" with
    | .str "ok" => pure none
    | o => do return some (← o.getObjValAs? String "raised"))
  let iEvents ← (← arr (← impl.getObjVal? "events")).mapM evtOfJson
  let r := probeCount j
  let iAfter ← afterOfJson impl
  match runEvents kinds src FUEL n with
  | .oof => return Json.mkObj [("skip", true), ("why", "model ran out of fuel")]
  | .glomitRaised e p =>
    let ok := iOpenErr == some e && (← impl.getObjValAs? Nat "open_pulls") == p
    return Json.mkObj [("agree", ok), ("holds", ok), ("model", Json.mkObj [("open", Json.mkObj [("raised", e)])]),
      ("branch", "events-open-raised"), ("why", "")]
  | .opened mEvents =>
    if mEvents.length < n && (match mEvents.getLast? with | some (none, _) => false | _ => true) then
      return Json.mkObj [("skip", true), ("why", "model ran out of fuel")]
    let agree := iOpenErr.isNone && mEvents.length == iEvents.length &&
      ((mEvents.zip iEvents).all fun (a, b) => optEvtEq a.1 b.1 && a.2 == b.2) &&
      src.after (match mEvents.getLast? with | some (_, p) => p | none => 0) r == iAfter
    let iPos := match iEvents.getLast? with | some (_, p) => p | none => 0
    let holds := iOpenErr.isNone && checkEvents kinds xs tail (iEvents.map (·.1)) && checkSource src iPos r iAfter
    let nerr := (mEvents.filter fun o => match o.1 with | some (.err _) => true | _ => false).length
    return Json.mkObj [("agree", agree), ("holds", holds),
      ("model", Json.mkObj [("events", Json.arr (mEvents.map evtToJson).toArray)]),
      ("branch", s!"events-{nerr}-errors"),
      ("why", if holds then "" else "after an exception the stream does not go on as the composition of map / filter / itertools objects does (or the source is not where it left it)")]

/-! ### boltons' helpers, as written -/

open Glom.C17.Boltons in
/-- `k` calls of `next()` on a generator model: what each gave, and the position of the source after it -/
def genEvents {σ : Type} (next : σ → Res × σ) (posOf : σ → Nat) : Nat → σ → List EvObs
  | 0, _ => []
  | k + 1, g =>
    match next g with
    | (.item v, g') => .item v (posOf g') :: genEvents next posOf k g'
    | (.eof, g') => [.eof (posOf g')]
    | (.err e, g') => [.err e (posOf g')]
    | (.oof, _) => [.dead]

open Glom.C17.Boltons in
def runBoltons (j : Json) : Except String Json := do
  let e ← entryOfJson (← j.getObjVal? "op")
  let src ← srcOfJson (← j.getObjVal? "src")
  let k ← j.getObjValAs? Nat "k"
  let impl ← j.getObjVal? "impl"
  if !e.kind.wf then
    return Json.mkObj [("skip", true), ("why", "stage arguments outside the modelled domain")]
  -- the model: (outcome of the call itself, pulls by the call, events)
  let (mInit, mInitPulls, mEvents) : (Option Err × Nat × List EvObs) := match e.kind with
    | .chunked size fill => (none, 0, genEvents (chunkedNext src size fill) (·.pos) k ⟨0, false⟩)
    | .unique key => (none, 0, genEvents (uniqueNext src key FUEL) (·.pos) k ⟨0, [], false⟩)
    | .split sep m => (none, 0, genEvents (splitNext src sep m FUEL) (·.pos) k ⟨0, [], 0, false⟩)
    | .windowed size =>
      (match windowedInit src 0 size with
       | .ok g => (none, g.pos, genEvents (windowedNext src) (·.pos) k g)
       | .error (err, p) => (some err, p, []))
    | _ => (some "unsupported", 0, [])
  if mInit == some "unsupported" then throw "not a boltons helper"
  let iInit : Option Err := match impl.getObjVal? "init" with
    | .ok (.str _) => none
    | .ok o => (match o.getObjValAs? String "raised" with | .ok c => some c | .error _ => some "?")
    | .error _ => some "?"
  let iInitPulls ← impl.getObjValAs? Nat "init_pulls"
  let obsJ ← arr (← impl.getObjVal? "events")
  let iEvents ← obsJ.mapM fun o => evObsOfJson (.next 0) o
  let agree := mInit == iInit && mInitPulls == iInitPulls && mEvents.length == iEvents.length &&
    (mEvents.zip iEvents).all fun (a, b) => evAgree (.next 0) a b
  let iItems := iEvents.filterMap fun o => match o with | .item v _ => some v | _ => none
  let refOk : Bool := match src with
    | .fin xs none => (match refE e.kind xs with
      | .ok ys => iInit.isNone && iItems == ys.take k &&
          (iEvents.length ≤ k) && (ys.length ≥ k || (match iEvents.getLast? with | some (.eof _) => true | _ => false))
      | .error _ => true)
    | _ => true
  return Json.mkObj [
    -- the helper of the installed boltons must BE the list function of the stage (that is what the pipeline
    -- property composes); and it must be the code-shaped model the `c17_boltons_*` theorems are about
    ("agree", agree), ("holds", agree && refOk),
    ("model", Json.mkObj [("init", match mInit with | none => Json.str "ok" | some c => Json.mkObj [("raised", c)]),
      ("init_pulls", mInitPulls), ("events", Json.arr (mEvents.map evObsToJson).toArray)]),
    ("branch", s!"boltons-{e.name}"),
    ("why", if agree && refOk then "" else "the installed boltons helper is not the list function / the generator the stage theorems are about")]

/-! ### Invoke -/

def kwFnCatalogue (name : String) : Option (V → Except Err (List (String × V))) :=
  match name with
  | "kwd" => some (fun x => match x with
      | .int i => .ok [("a", x), ("c", .int (i + 1))]
      | _ => .error "TypeError")
  | "kwb" => some (fun x => .ok [("b", x)])
  | _ => none

def kwOfJson (f : Json → Except String α) (j : Json) : Except String (List (String × α)) := do
  (← arr j).mapM fun e => do
    match ← arr e with
    | [.str k, v] => return (k, ← f v)
    | _ => throw s!"bad kw {e.compress}"

def callOfJson (j : Json) : Except String ICall := do
  let op ← j.getObjValAs? String "op"
  match op with
  | "C" => return .C (← (← arr (← j.getObjVal? "a")).mapM vOfJson) (← kwOfJson vOfJson (← j.getObjVal? "kw"))
  | "S" =>
    let fj : Json → Except String Fn := fun x => do fnOf (← x.getStr?)
    return .S (← (← arr (← j.getObjVal? "a")).mapM fj) (← kwOfJson fj (← j.getObjVal? "kw"))
  | "*" =>
    let a ← (match j.getObjVal? "args" with
      | .ok (.str n) => do return some (← fnOf n)
      | _ => pure none)
    let k ← (match j.getObjVal? "kwargs" with
      | .ok (.str n) => (match kwFnCatalogue n with
        | some f => pure (some f)
        | none => throw s!"unknown kwargs spec {n}")
      | _ => pure none)
    return .star a k
  | _ => throw s!"unknown invoke call {op}"

inductive IRes where
  | ok (a : List V) (kw : List (String × V))
  | raised (e : Err)

def sortKw (kw : List (String × V)) : List (String × V) :=
  (kw.toArray.qsort (fun a b => a.1 < b.1)).toList

def IRes.beq : IRes → IRes → Bool
  | .ok a k, .ok b l => a == b && (sortKw k).map (·.1) == (sortKw l).map (·.1) && (sortKw k).map (·.2) == (sortKw l).map (·.2)
  | .raised a, .raised b => a == b
  | _, _ => false
instance : BEq IRes := ⟨IRes.beq⟩

def iresOfJson (j : Json) : Except String IRes := do
  if let .ok e := j.getObjValAs? String "raised" then return .raised e
  match ← arr (← j.getObjVal? "ok") with
  | [a, kw] => return .ok (← (← arr a).mapM vOfJson) (← kwOfJson vOfJson kw)
  | _ => throw s!"bad invoke result {j.compress}"

def iresToJson : IRes → Json
  | .ok a kw => Json.mkObj [("ok", Json.arr #[Json.arr (a.map vToJson).toArray,
      Json.arr ((sortKw kw).map (fun p => Json.arr #[Json.str p.1, vToJson p.2])).toArray])]
  | .raised e => Json.mkObj [("raised", e)]

def evalInvoke (inv : Invoke) (t : V) : IRes :=
  match inv.evalArgs t with
  | .ok (a, kw) => .ok a kw
  | .error e => .raised e

def runInvoke (j : Json) : Except String Json := do
  let p ← (← arr (← j.getObjVal? "p")).mapM callOfJson
  let e1 ← (← arr (← j.getObjVal? "e1")).mapM callOfJson
  let e2 ← (← arr (← j.getObjVal? "e2")).mapM callOfJson
  let target ← vOfJson (← j.getObjVal? "target")
  let impl ← j.getObjVal? "impl"
  let base : Invoke := p.foldl Invoke.call ⟨[], []⟩
  let _d1 : Invoke := e1.foldl Invoke.call base
  let d2 : Invoke := e2.foldl Invoke.call base
  let mBase := evalInvoke base target
  let mD2 := evalInvoke d2 target
  let iBefore ← iresOfJson (← impl.getObjVal? "before")
  let iAfter ← iresOfJson (← impl.getObjVal? "after")
  let iReused ← iresOfJson (← impl.getObjVal? "reused")
  let iFresh ← iresOfJson (← impl.getObjVal? "fresh")
  let reprSame ← impl.getObjValAs? Bool "repr_same"
  let holds := reprSame && iBefore == iAfter && iReused == iFresh
  let agree := mBase == iBefore && mBase == iAfter && mD2 == iReused && mD2 == iFresh
  return Json.mkObj [("agree", agree), ("holds", holds),
    ("model", Json.mkObj [("base", iresToJson mBase), ("derived", iresToJson mD2)]),
    ("branch", match mD2 with | .ok _ _ => "invoke-ok" | .raised e => s!"invoke-raised-{e}"),
    ("why", if holds then "" else "Invoke base spec changed or derived spec differs from the fresh one")]

def run (j : Json) : Except String Json := do
  match j.getObjValAs? String "kind" with
  | .ok "invoke" => runInvoke j
  | .ok "reuse" => runReuse j
  | .ok "streams" => runStreams j
  | .ok "boltons" => runBoltons j
  | .ok "args" => runArgs j
  | .ok "events" => runEventsCase j
  | _ => runIter j

end Glom.C17.Driver
