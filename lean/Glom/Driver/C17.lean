import Lean.Data.Json
/- stub: the C17 driver is not built yet -/
namespace Glom.C17.Driver
open Lean

def run (_j : Json) : Except String Json := .error "property C17: driver not implemented yet"

end Glom.C17.Driver
