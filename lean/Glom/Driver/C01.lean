import Glom.Py.Json
import Glom.Spec.C01Reg
import Glom.Model.C01Env2
/-
  C01 driver: one JSON case in, one JSON verdict out.

  case:  {"classes":[[cls,[mro…]]…],            effective MRO of every user class
          "info":[[cls,{"fields":[…],"props":[[name,Behav]…],"attrs":[[name,kind,extra]…],
                        "fallback":Behav|null,"missing":Behav|null,"logA":b,"logI":b}]…],
          "excs":[[cls,[mro…]]…],                user exception classes
          "heap":[Obj…],
          "star":bool (optional; false: glom.core.PATH_STAR = False),
          "defaults":bool (optional; false: Glommer(register_default_types=False)),
          "events":[ {"reg":{"cls":c,"get":Handler|null,"exact":b}}
                   | {"glom":{"spelling":Spelling,"target":Val}}
                   | {"probe":{"target":Val}} …],                         at least one glom event
          "impl":[ {"obs":Obs,"log":[n…]} … ] }                          one per glom event
  Spelling: {"text":"a.b.c"} | {"parts":[Part…]}
  Part:     {"seg":Val} | {"t":[[op,Val]…]} | {"path":[Part…]}
  Behav:    {"raises":cls} | {"const":Val} | "echo" | {"slot":a} | {"table":a} | {"glomtab":a}
  Handler:  "getattr" | "getitem" | "seq" | {"table":a} | {"glomtab":a} | {"raises":cls} | false
  Obs:      {"ok":Val,"toks":[s…]}
          | {"pae":{"idx":n,"exc":cls,"glom":b,"key":b,"index":b,"attr":b,"exc_ok":b,"path_ok":b,"arg":Val?}}
          | {"other":cls}
-/
namespace Glom.C01.Driver
open Lean Glom Glom.C01

def stepOfJson (j : Json) : Except String (String × Val) := pairOfJson strOfJson valOfJson j

partial def partOfJson (j : Json) : Except String Part2 := do
  if let .ok v := j.getObjVal? "seg" then return .seg (← valOfJson v)
  else if let .ok t := j.getObjVal? "t" then return .t (← listOfJson stepOfJson t)
  else if let .ok p := j.getObjVal? "path" then return .path (← (← arrOf p).mapM partOfJson)
  else throw s!"bad part {j.compress}"

def obsOfJson (j : Json) : Except String Obs2 := do
  if let .ok v := j.getObjVal? "ok" then
    return .ok (← valOfJson v) (← listOfJson strOfJson (← j.getObjVal? "toks"))
  else if let .ok p := j.getObjVal? "pae" then
    let arg : Option Val ← (match p.getObjVal? "arg" with
      | .ok a => do return some (← valOfJson a)
      | .error _ => pure none)
    return .pae (← p.getObjValAs? Nat "idx") (← p.getObjValAs? String "exc")
      (← p.getObjValAs? Bool "glom") (← p.getObjValAs? Bool "key")
      (← p.getObjValAs? Bool "index") (← p.getObjValAs? Bool "attr")
      (← p.getObjValAs? Bool "exc_ok") (← p.getObjValAs? Bool "path_ok") arg
  else if let .ok c := j.getObjValAs? String "other" then return .other c
  else throw s!"bad obs {j.compress}"

def obsToJson : Obs2 → Json
  | .ok v toks => Json.mkObj [("ok", valToJson v), ("toks", toJson toks)]
  | .pae k c g ke ie ae _ _ _ => Json.mkObj [("pae", Json.mkObj [("idx", k), ("exc", c), ("glom", g),
      ("key", ke), ("index", ie), ("attr", ae)])]
  | .other c => Json.mkObj [("other", c)]

def behavOfJson (j : Json) : Except String Behav := do
  match j with
  | .str "echo" => return .echo
  | _ =>
    if let .ok c := j.getObjValAs? String "raises" then return .raises c
    else if let .ok v := j.getObjVal? "const" then return .const (← valOfJson v)
    else if let .ok a := j.getObjValAs? String "slot" then return .slot a
    else if let .ok a := j.getObjValAs? String "table" then return .table a
    else if let .ok a := j.getObjValAs? String "glomtab" then return .glomTable a
    else throw s!"bad behav {j.compress}"

def optBehav (j : Json) (key : String) : Except String (Option Behav) :=
  match j.getObjVal? key with
  | .ok .null => pure none
  | .ok b => do return some (← behavOfJson b)
  | .error _ => pure none

def infoOfJson (j : Json) : Except String ClsInfo := do
  let fields ← listOfJson strOfJson (← j.getObjVal? "fields")
  let props ← listOfJson (pairOfJson strOfJson behavOfJson) (← j.getObjVal? "props")
  let attrs ← listOfJson (fun a => do
    match ← arrOf a with
    | [n, k, e] => return (← strOfJson n, ← strOfJson k, ← strOfJson e)
    | _ => throw s!"bad attr {a.compress}") (← j.getObjVal? "attrs")
  return { fields, props, attrs, fallback := ← optBehav j "fallback", missing := ← optBehav j "missing",
           logA := (j.getObjValAs? Bool "logA").toOption.getD false,
           logI := (j.getObjValAs? Bool "logI").toOption.getD false }

def handlerOfJson (j : Json) : Except String (Option Handler) := do
  match j with
  | .null => return none
  | .bool false => return some .off
  | .str "getattr" => return some .getattr
  | .str "getitem" => return some .getitem
  | .str "seq" => return some .seqItem
  | _ =>
    if let .ok a := j.getObjValAs? String "table" then return some (.table a)
    else if let .ok a := j.getObjValAs? String "glomtab" then return some (.glomTable a)
    else if let .ok c := j.getObjValAs? String "raises" then return some (.raises c)
    else throw s!"bad handler {j.compress}"

/-- an event; for a glom event also whether its steps are access steps only -/
def eventOfJson (star : Bool) (j : Json) : Except String Event := do
  if let .ok r := j.getObjVal? "reg" then
    return .register (← r.getObjValAs? String "cls") (← handlerOfJson (r.getObjValD "get"))
      (← r.getObjValAs? Bool "exact")
  else if let .ok g := j.getObjVal? "glom" then
    let sp ← g.getObjVal? "spelling"
    let parts ← (do
      if let .ok t := sp.getObjValAs? String "text" then return partsOfTextS star t.toList
      else listOfJson partOfJson (← sp.getObjVal? "parts") : Except String (List Part2))
    return .glom (stepsOfParts2 parts) (← valOfJson (← g.getObjVal? "target"))
  else if let .ok g := j.getObjVal? "probe" then
    return .probe (← valOfJson (← g.getObjVal? "target"))
  else throw s!"bad event {j.compress}"

def implOfJson (j : Json) : Except String (Obs2 × List Nat) := do
  let o ← obsOfJson (← j.getObjVal? "obs")
  return (o, ← listOfJson natOfJson (← j.getObjVal? "log"))

/-- model observation against the implementation's: same outcome, same value (a class
    attribute: the model's identity token is among those of the returned object), same log -/
def obsAgree (m i : Obs2) : Bool :=
  match m, i with
  | .ok a _, .ok b toks => valMatch a b toks
  | .pae k c g ke ie ae _ _ _, .pae k' c' g' ke' ie' ae' eo po _ =>
    k == k' && c == c' && g == g' && ke == ke' && ie == ie' && ae == ae' && eo && po
  | .other a, .other b => a == b
  | _, _ => false

def agreeAll : List Out2 → Env → List (Obs2 × List Nat) → Bool
  | [], _, [] => true
  | o :: os, env, (i, t) :: is => obsAgree (observe2 env o) i && o.log == t && agreeAll os env is
  | _, _, _ => false

def branchOf (hasReg : Bool) (o : Obs2) : String :=
  (if hasReg then "reg/" else "") ++
  (match o with
   | .ok (.ref _) _ => "ok-container"
   | .ok (.sent "opaque") _ => "ok-computed-attr"
   | .ok (.sent _) _ => "ok-class-attr"
   | .ok _ _ => "ok-scalar"
   | .pae _ c .. => s!"pae-{c}"
   | .other c => s!"other-{c}")

def run (j : Json) : Except String Json := do
  let classes ← classTableOfJson (← j.getObjVal? "classes")
  let info ← listOfJson (pairOfJson strOfJson infoOfJson) (← j.getObjVal? "info")
  let excs ← classTableOfJson (← j.getObjVal? "excs")
  let heap ← heapOfJson (← j.getObjVal? "heap")
  let star := (j.getObjValAs? Bool "star").toOption.getD true
  let events ← listOfJson (eventOfJson star) (← j.getObjVal? "events")
  if !(events.any (fun e => match e with | .glom .. => true | _ => false)) then
    throw "case without a glom event: nothing to check"
  let impl ← listOfJson implOfJson (← j.getObjVal? "impl")
  -- handlers outside the catalogue do not occur in generated cases
  let env := genEnv2 classes info excs (fun _ _ _ _ => .beyond)
  if !(wfEvents events) then
    return Json.mkObj [("skip", true), ("why", "path has non-access steps")]
  -- Glommer(register_default_types=False) starts from an empty table
  let defaults := (j.getObjValAs? Bool "defaults").toOption.getD true
  let tbl0 : Table := if defaults then defaultTable else { map := [], tree := [] }
  let reg0 : Reg := { tbl := tbl0, cache := [] }
  let ref := refHistory env heap tbl0 events
  if !(ref.all (fun p => p.w.inDomain)) then
    return Json.mkObj [("skip", true), ("why", "a walk leaves the modelled domain")]
  let outs := runHistory env heap reg0 events
  let agree := agreeAll outs env impl
  let holds := checkC01h env heap tbl0 events impl
  let modelHolds := checkC01h env heap tbl0 events (outs.map (fun o => (observe2 env o, o.log)))
  -- `c01_model_checks`: with well-formed facts the model's own observations satisfy the checker;
  -- if they do not, model, checker or theorem is broken — an error, never a silent pass
  if WF2 env && factsOK && !modelHolds then
    throw "the model's own observation fails the checker although the facts are well-formed (c01_model_checks says it cannot)"
  if impl.length != outs.length then
    throw "number of observations differs from the number of glom events"
  let hasReg := events.any (fun e => match e with | .register .. => true | _ => false)
  let lastObs := match outs.getLast? with
    | some o => observe2 env o
    | none => .other "no-glom-event"
  return Json.mkObj [("agree", agree), ("holds", holds), ("model_holds", modelHolds),
    ("wf", WF2 env && factsOK),
    ("model", Json.arr (outs.map (fun o => obsToJson (observe2 env o))).toArray),
    ("model_touched", Json.arr (outs.map (fun o => toJson (touchedAddrs o.touched))).toArray),
    ("model_log", Json.arr (outs.map (fun o => toJson o.log)).toArray),
    ("branch", branchOf hasReg lastObs)]

end Glom.C01.Driver
