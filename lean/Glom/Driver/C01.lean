import Glom.Py.Json
import Glom.Spec.C01Reg
import Glom.Model.C01Env2
/-
  C01 driver: one JSON case in, one JSON verdict out.

  case:  {"classes":[[cls,[mro…]]…],            effective MRO of every user class
          "info":[[cls,{"fields":[…],"props":[[name,Behav]…],"attrs":[…],
                        "fallback":Behav|null,"missing":Behav|null}]…],
          "excs":[[cls,[mro…]]…],                user exception classes
          "heap":[Obj…],
          "events":[ {"reg":{"cls":c,"get":Handler|null,"exact":b}}
                   | {"glom":{"spelling":Spelling,"target":Val}} …],
          "defaults":bool (optional; false: Glommer(register_default_types=False)),
          "impl":[ {"obs":Obs,"touched":[n…]|null} … ] }     one per glom event
  Spelling: {"text":"a.b.c"} | {"parts":[{"seg":Val} | {"t":[[op,Val]…]}…]}
  Behav:    {"raises":cls} | {"const":Val} | "echo" | {"slot":a} | {"table":a}
  Handler:  "getattr" | "getitem" | "seq" | {"table":a} | {"raises":cls} | false
  Obs:      {"ok":Val} | {"pae":{"idx":n,"exc":cls,"glom":b,"key":b,"index":b,"attr":b}} | {"other":cls}
-/
namespace Glom.C01.Driver
open Lean Glom Glom.C01

def stepOfJson (j : Json) : Except String (String × Val) := pairOfJson strOfJson valOfJson j

def partOfJson (j : Json) : Except String Part := do
  if let .ok v := j.getObjVal? "seg" then return .seg (← valOfJson v)
  else if let .ok t := j.getObjVal? "t" then return .t (← listOfJson stepOfJson t)
  else throw s!"bad part {j.compress}"

def obsOfJson (j : Json) : Except String Obs := do
  if let .ok v := j.getObjVal? "ok" then return .ok (← valOfJson v)
  else if let .ok p := j.getObjVal? "pae" then
    return .pae (← p.getObjValAs? Nat "idx") (← p.getObjValAs? String "exc")
      (← p.getObjValAs? Bool "glom") (← p.getObjValAs? Bool "key")
      (← p.getObjValAs? Bool "index") (← p.getObjValAs? Bool "attr")
  else if let .ok c := j.getObjValAs? String "other" then return .other c
  else throw s!"bad obs {j.compress}"

def obsToJson : Obs → Json
  | .ok v => Json.mkObj [("ok", valToJson v)]
  | .pae k c g ke ie ae => Json.mkObj [("pae", Json.mkObj [("idx", k), ("exc", c), ("glom", g),
      ("key", ke), ("index", ie), ("attr", ae)])]
  | .other c => Json.mkObj [("other", c)]

def behavOfJson (j : Json) : Except String Behav := do
  match j with
  | .str "echo" => return .echo
  | _ =>
    if let .ok c := j.getObjValAs? String "raises" then return .raises c
    else if let .ok v := j.getObjVal? "const" then return .const (← valOfJson v)
    else if let .ok a := j.getObjValAs? String "slot" then return .slot a
    else if let .ok a := j.getObjValAs? String "table" then return .table a
    else throw s!"bad behav {j.compress}"

def optBehav (j : Json) (key : String) : Except String (Option Behav) :=
  match j.getObjVal? key with
  | .ok .null => pure none
  | .ok b => do return some (← behavOfJson b)
  | .error _ => pure none

def infoOfJson (j : Json) : Except String ClsInfo := do
  let fields ← listOfJson strOfJson (← j.getObjVal? "fields")
  let props ← listOfJson (pairOfJson strOfJson behavOfJson) (← j.getObjVal? "props")
  let attrs ← listOfJson strOfJson (← j.getObjVal? "attrs")
  return { fields, props, attrs, fallback := ← optBehav j "fallback", missing := ← optBehav j "missing" }

def handlerOfJson (j : Json) : Except String (Option Handler) := do
  match j with
  | .null => return none
  | .bool false => return some .off
  | .str "getattr" => return some .getattr
  | .str "getitem" => return some .getitem
  | .str "seq" => return some .seqItem
  | _ =>
    if let .ok a := j.getObjValAs? String "table" then return some (.table a)
    else if let .ok c := j.getObjValAs? String "raises" then return some (.raises c)
    else throw s!"bad handler {j.compress}"

/-- an event; for a glom event also whether its steps are access steps only -/
def eventOfJson (j : Json) : Except String Event := do
  if let .ok r := j.getObjVal? "reg" then
    return .register (← r.getObjValAs? String "cls") (← handlerOfJson (r.getObjValD "get"))
      (← r.getObjValAs? Bool "exact")
  else if let .ok g := j.getObjVal? "glom" then
    let sp ← g.getObjVal? "spelling"
    let parts ← (do
      if let .ok t := sp.getObjValAs? String "text" then return partsOfText t.toList
      else listOfJson partOfJson (← sp.getObjVal? "parts") : Except String (List Part))
    return .glom (stepsOfParts parts) (← valOfJson (← g.getObjVal? "target"))
  else throw s!"bad event {j.compress}"

def implOfJson (j : Json) : Except String (Obs × Option (List Nat)) := do
  let o ← obsOfJson (← j.getObjVal? "obs")
  let t : Option (List Nat) ←
    (match j.getObjVal? "touched" with
     | .ok .null => pure none
     | .ok t => do return some (← listOfJson natOfJson t)
     | .error _ => pure none)
  return (o, t)

def obsAgree (m i : Obs) : Bool :=
  match m, i with
  | .ok a, .ok b => valMatch a b
  | a, b => a == b

def agreeAll : List Out2 → Env → List (Obs × Option (List Nat)) → Bool
  | [], _, [] => true
  | o :: os, env, (i, t) :: is =>
    obsAgree (observe2 env o) i &&
    (match t with | some t => isSubseq t (touchedAddrs o.touched) | none => true) &&
    agreeAll os env is
  | _, _, _ => false

def branchOf (hasReg : Bool) (o : Obs) : String :=
  (if hasReg then "reg/" else "") ++
  (match o with
   | .ok (.ref _) => "ok-container"
   | .ok (.sent _) => "ok-opaque"
   | .ok _ => "ok-scalar"
   | .pae _ c .. => s!"pae-{c}"
   | .other c => s!"other-{c}")

def run (j : Json) : Except String Json := do
  let classes ← classTableOfJson (← j.getObjVal? "classes")
  let info ← listOfJson (pairOfJson strOfJson infoOfJson) (← j.getObjVal? "info")
  let excs ← classTableOfJson (← j.getObjVal? "excs")
  let heap ← heapOfJson (← j.getObjVal? "heap")
  let events ← listOfJson eventOfJson (← j.getObjVal? "events")
  let impl ← listOfJson implOfJson (← j.getObjVal? "impl")
  -- handlers outside the catalogue do not occur in generated cases
  let env := genEnv2 classes info excs (fun _ _ _ _ => .beyond)
  if !(wfEvents events) then
    return Json.mkObj [("skip", true), ("why", "path has non-access steps")]
  -- Glommer(register_default_types=False) starts from an empty table
  let defaults := (j.getObjValAs? Bool "defaults").toOption.getD true
  let tbl0 : Table := if defaults then defaultTable else { map := [], tree := [] }
  let reg0 : Reg := { tbl := tbl0, cache := [] }
  let ref := refHistory env heap tbl0 events
  if !(ref.all (fun p => p.1.inDomain)) then
    return Json.mkObj [("skip", true), ("why", "a walk leaves the modelled domain")]
  let outs := runHistory env heap reg0 events
  let agree := agreeAll outs env impl
  let holds := checkC01h env heap tbl0 events impl
  let modelHolds := checkC01h env heap tbl0 events
    (outs.map (fun o => (observe2 env o, some (touchedAddrs o.touched))))
  let hasReg := events.any (fun e => match e with | .register .. => true | _ => false)
  let lastObs := match outs.getLast? with
    | some o => observe2 env o
    | none => .other "no-glom-event"
  return Json.mkObj [("agree", agree), ("holds", holds), ("model_holds", modelHolds),
    ("wf", WF2 env && factsOK),
    ("model", Json.arr (outs.map (fun o => obsToJson (observe2 env o))).toArray),
    ("model_touched", Json.arr (outs.map (fun o => toJson (touchedAddrs o.touched))).toArray),
    ("branch", branchOf hasReg lastObs)]

end Glom.C01.Driver
