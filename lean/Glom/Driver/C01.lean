import Glom.Py.Json
import Glom.Spec.C01
import Glom.Model.C01Env
/-
  C01 driver: one JSON case in, one JSON verdict out.

  case:  {"classes":[[cls,[mro…]]…], "heap":[Obj…], "target":Val,
          "spelling": {"text": "a.b.c"} | {"parts":[{"seg":Val} | {"t":[[op,Val]…]}…]},
          "impl": {"ok":Val} | {"pae":{"idx":n,"exc":cls,"glom":b,"key":b,"index":b,"attr":b}}
                  | {"other":cls},
          "impl_touched": [n…] | null }
-/
namespace Glom.C01.Driver
open Lean Glom Glom.C01

def stepOfJson (j : Json) : Except String (String × Val) := pairOfJson strOfJson valOfJson j

def partOfJson (j : Json) : Except String Part := do
  if let .ok v := j.getObjVal? "seg" then return .seg (← valOfJson v)
  else if let .ok t := j.getObjVal? "t" then return .t (← listOfJson stepOfJson t)
  else throw s!"bad part {j.compress}"

def obsOfJson (j : Json) : Except String Obs := do
  if let .ok v := j.getObjVal? "ok" then return .ok (← valOfJson v)
  else if let .ok p := j.getObjVal? "pae" then
    return .pae (← p.getObjValAs? Nat "idx") (← p.getObjValAs? String "exc")
      (← p.getObjValAs? Bool "glom") (← p.getObjValAs? Bool "key")
      (← p.getObjValAs? Bool "index") (← p.getObjValAs? Bool "attr")
  else if let .ok c := j.getObjValAs? String "other" then return .other c
  else throw s!"bad obs {j.compress}"

def obsToJson : Obs → Json
  | .ok v => Json.mkObj [("ok", valToJson v)]
  | .pae k c g ke ie ae => Json.mkObj [("pae", Json.mkObj [("idx", k), ("exc", c), ("glom", g),
      ("key", ke), ("index", ie), ("attr", ae)])]
  | .other c => Json.mkObj [("other", c)]

def run (j : Json) : Except String Json := do
  let classes ← classTableOfJson (← j.getObjVal? "classes")
  let heap ← heapOfJson (← j.getObjVal? "heap")
  let target ← valOfJson (← j.getObjVal? "target")
  let sp ← j.getObjVal? "spelling"
  let parts ← (do
    if let .ok t := sp.getObjValAs? String "text" then return partsOfText t.toList
    else listOfJson partOfJson (← sp.getObjVal? "parts") : Except String (List Part))
  let implObs ← obsOfJson (← j.getObjVal? "impl")
  let implTouched : Option (List Nat) ←
    (match j.getObjVal? "impl_touched" with
     | .ok .null => pure none
     | .ok t => do return some (← listOfJson natOfJson t)
     | .error _ => pure none)
  let env := genEnv classes
  let steps := stepsOfParts parts
  let out := tEval env heap (flatOfParts parts) target
  let modelObs := observe env out
  -- wildcard steps are outside C01 (C14): report as skipped
  if !(wfSteps steps) then
    return Json.mkObj [("skip", true), ("why", "path has non-access steps")]
  let agree := (modelObs == implObs) &&
    (match implTouched with | some t => isSubseq t (touchedAddrs out.touched) | none => true)
  let holds := checkC01 env heap steps target implObs implTouched
  let modelHolds := checkC01 env heap steps target modelObs (some (touchedAddrs out.touched))
  return Json.mkObj [("agree", agree), ("holds", holds), ("model_holds", modelHolds),
    ("wf", WF env),
    ("model", obsToJson modelObs),
    ("model_touched", toJson (touchedAddrs out.touched)),
    ("branch", match modelObs with
      | .ok (.ref _) => "ok-container" | .ok _ => "ok-scalar"
      | .pae _ c .. => s!"pae-{c}" | .other c => s!"other-{c}")]

end Glom.C01.Driver
