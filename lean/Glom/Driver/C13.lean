import Glom.Py.Json
import Glom.Spec.C13
import Glom.Model.C13Env
/-
  C13 driver: one JSON case in, one JSON verdict out.

  case:
    "hier":   {"top":"object","mro":[[t,[c…]]…],"inst":[[t,c]…],"sub":[[c,d]…],
               "auto":[[f,[[t,hname]…]]…],"universe":[t…]}
    "kinds":  ["module"|"registry:1"|"registry:0"|"glommer:1"|"glommer:0" …]
    "module_orders": [[t…]…]                      (set order of known_types at import time)
    "actions": [{"a":"register","reg":i,"ty":t,"exact":b,"kw":[[op,hname|null]…]}
               |{"a":"register_op","reg":i,"op":o,"auto":f,"exact":b}
               |{"a":"lookup","reg":i,"op":o,"ty":t,"raise":b}
               |{"a":"glom","reg":i,"spec":"get"|"iterate"|"assign"|"delete"|"star","ty":t}
               |{"a":"create","reg":i}         (constructs registry i; must precede its other actions)
               |{"a":"bad_call","reg":i,"what":"register-instance"|"register_op-name"|"register_op-auto",…}]
              a handler name starting with "!" (kw value, auto-discovery outcome) is a value
              register()/register_op() refuse
    "impl":   {"obs":[ null | {"raised":"TypeError"}          (register, bad_call)
                     | {"order":[t…]}                         (register_op: observed set order; + "raised")
                     | {"created":[[op,[t…]]…]}               (create: ops a Glommer copied, set orders)
                     | {"calls":[{"op","ty","raise","ans"}…],"ran":[tag…]} …],
               "trees":[[[op,forest]…]…], "init_trees":[[[op,forest]…]…]}
    ans: {"ret":hname|null} | "unregistered" | "keyError"      forest: [[ty,forest]…]
-/
namespace Glom.C13.Driver
open Lean Glom Glom.C13

def optStr (j : Json) : Except String (Option String) :=
  match j with
  | .null => .ok none
  | .str s => .ok (some s)
  | _ => .error s!"expected string or null, got {j.compress}"

partial def forestOfJson (j : Json) : Except String Forest := do
  let items ← arrOf j
  let rec go : List Json → Except String Forest
    | [] => .ok .nil
    | x :: xs => do
      match ← arrOf x with
      | [t, k] => return .cons (← strOfJson t) (← forestOfJson k) (← go xs)
      | _ => throw s!"bad forest item {x.compress}"
  go items

partial def forestToJson : Forest → Json
  | f => Json.arr (go f).toArray
where
  go : Forest → List Json
    | .nil => []
    | .cons c k r => Json.arr #[Json.str c, forestToJson k] :: go r

def fdepth : Forest → Nat
  | .nil => 0
  | .cons _ k r => max (fdepth k + 1) (fdepth r)

def hierOfJson (j : Json) : Except String (HierTab × List Ty) := do
  let mro ← listOfJson (pairOfJson strOfJson (listOfJson strOfJson)) (← j.getObjVal? "mro")
  let inst ← listOfJson (pairOfJson strOfJson strOfJson) (← j.getObjVal? "inst")
  let sub ← listOfJson (pairOfJson strOfJson strOfJson) (← j.getObjVal? "sub")
  let auto ← listOfJson (pairOfJson strOfJson (listOfJson (pairOfJson strOfJson strOfJson)))
    (← j.getObjVal? "auto")
  let uni ← listOfJson strOfJson (← j.getObjVal? "universe")
  return ({ mro, inst, sub, auto }, uni)

/-- the hierarchy the *property* is evaluated on: the interpreter's tables, except that the rows of
    glom's own duck types (`_AbstractIterable`: iterable but not a string; `_ObjStyleKeys`: has a
    `__dict__` with keys) and of the auto-discovery functions of the two builtin ops (`iterate`: `iter`
    for a type with a callable `__iter__`; `get`: `getattr`) are the harness's statement of their
    meaning when glom's code answers differently (`ref_inst` / `ref_sub` / `ref_auto` are present
    only then) -/
def refHierOfJson (j : Json) (tab : HierTab) : Except String HierTab := do
  let inst ← (match j.getObjVal? "ref_inst" with
    | .ok x => listOfJson (pairOfJson strOfJson strOfJson) x
    | .error _ => pure tab.inst)
  let sub ← (match j.getObjVal? "ref_sub" with
    | .ok x => listOfJson (pairOfJson strOfJson strOfJson) x
    | .error _ => pure tab.sub)
  let auto ← (match j.getObjVal? "ref_auto" with
    | .ok x => listOfJson (pairOfJson strOfJson (listOfJson (pairOfJson strOfJson strOfJson))) x
    | .error _ => pure tab.auto)
  return { tab with inst, sub, auto }

def kindOfStr : String → Except String RegKind
  | "module" => .ok .module
  | "registry:1" => .ok (.registry true)
  | "registry:0" => .ok (.registry false)
  | "glommer:1" => .ok (.glommer true)
  | "glommer:0" => .ok (.glommer false)
  | s => .error s!"bad registry kind {s}"

def ansOfJson (j : Json) : Except String Answer :=
  match j with
  | .str "unregistered" => .ok .unregistered
  | .str "keyError" => .ok .keyError
  | _ =>
    match j.getObjVal? "error" with
    | .ok _ => .ok .keyError      -- neither a handler nor UnregisteredTarget: never an allowed answer
    | .error _ => do
      let h ← optStr (← j.getObjVal? "ret")
      return .ret h

def ansToJson : Answer → Json
  | .ret (some h) => Json.mkObj [("ret", Json.str h)]
  | .ret none => Json.mkObj [("ret", Json.null)]
  | .unregistered => Json.str "unregistered"
  | .keyError => Json.str "keyError"

structure Call where
  op : Op
  ty : Ty
  raiseExc : Bool
  ans : Answer
  deriving Repr, DecidableEq

def callOfJson (j : Json) : Except String Call := do
  return { op := ← j.getObjValAs? String "op", ty := ← j.getObjValAs? String "ty",
           raiseExc := ← j.getObjValAs? Bool "raise", ans := ← ansOfJson (← j.getObjVal? "ans") }

def callToJson (c : Call) : Json :=
  Json.mkObj [("op", c.op), ("ty", c.ty), ("raise", c.raiseExc), ("ans", ansToJson c.ans)]

/-- a case action, before expansion into model actions -/
inductive CAct where
  | register (reg : Nat) (ty : Ty) (exact : Bool) (kw : List (Op × Handler))
  | registerOp (reg : Nat) (op : Op) (auto : String) (exact : Bool)
  | lookup (reg : Nat) (op : Op) (ty : Ty) (raiseExc : Bool)
  | glom (reg : Nat) (spec : String) (ty : Ty)
  | create (reg : Nat)
  | badCall (reg : Nat) (what : String)

def cactOfJson (j : Json) : Except String CAct := do
  let a ← j.getObjValAs? String "a"
  let reg ← j.getObjValAs? Nat "reg"
  match a with
  | "register" =>
    let kw ← listOfJson (pairOfJson strOfJson optStr) (← j.getObjVal? "kw")
    return .register reg (← j.getObjValAs? String "ty") (← j.getObjValAs? Bool "exact") kw
  | "register_op" =>
    return .registerOp reg (← j.getObjValAs? String "op") (← j.getObjValAs? String "auto")
      (← j.getObjValAs? Bool "exact")
  | "lookup" =>
    return .lookup reg (← j.getObjValAs? String "op") (← j.getObjValAs? String "ty")
      (← j.getObjValAs? Bool "raise")
  | "glom" => return .glom reg (← j.getObjValAs? String "spec") (← j.getObjValAs? String "ty")
  | "create" => return .create reg
  | "bad_call" => return .badCall reg (← j.getObjValAs? String "what")
  | _ => throw s!"bad action {a}"

/-- the memo policy of the code under test, as read from its source on this run: `false` (failed
    lookups are not memoised) is the code the theorems are about -/
def storeMisses : Bool := !Generated.c13MemoStoresOnlySuccess

/-- the memo-hit behaviour of the code under test: `false` (a remembered `False` is reported through
    the same `if ret is False and raise_exc` test as a fresh one) is the code the theorems are
    about; `true` replays the code before 8b51f6e (a hit returns whatever is stored) -/
def hitReturns : Bool := !Generated.c13MemoHitRaises

/-- `get_handler` as the facts of this run describe it -/
def getHandlerD (H : Hier) (r : Reg) (op : Op) (t : Ty) (re : Bool) : Reg × Answer :=
  if hitReturns then
    match odGet (t, op) r.cache with
    | some h => (r, .ret h)
    | none => getHandlerV storeMisses H r op t re
  else getHandlerV storeMisses H r op t re

/-- the iteration order of `known_types` in `register_op`: the registration order (the model's
    `Reg.knownTypes`) when the source builds a list (fact `c13KnownTypesOrdered`), else — a set of
    types — the order the harness observed -/
def knownOrder (r : Option Reg) (observed : List Ty) : List Ty :=
  if Generated.c13KnownTypesOrdered then (r.map Reg.knownTypes).getD [] else observed

/-- the `get_handler` calls one real `glom` / `assign` / `delete` call performs (each with
    `raise_exc=True`), following `_t_eval` 'P', `_handle_list`, `_assign_op`, `Delete._del_one`
    and `_extend_children` (keys, then get; on UnregisteredTarget — also the one it raises itself
    for instances of list / tuple / set / frozenset that only have obj-style keys — iterate) -/
def glomCalls (H : Hier) (r : Reg) (spec : String) (t : Ty) : Reg × List Call :=
  let one (r : Reg) (op : Op) : Reg × Call :=
    let (r', a) := getHandlerD H r op t true
    (r', ⟨op, t, true, a⟩)
  if spec == "star" then
    let (r1, c1) := one r "keys"
    if c1.ans == .unregistered then
      let (r2, c2) := one r1 "iterate"
      (r2, [c1, c2])
    else
      let (r2, c2) := one r1 "get"
      -- `if keys is _ObjStyleKeys.get_keys and isinstance(item, (list, tuple, set, frozenset)):
      --      raise UnregisteredTarget(…)`  → the iterate branch as well
      let seqGuard := c1.ans == .ret (some "_ObjStyleKeys.get_keys") &&
        ["list", "tuple", "set", "frozenset"].any (fun b => H.inst t b)
      if c2.ans == .unregistered || seqGuard then
        let (r3, c3) := one r2 "iterate"
        (r3, [c1, c2, c3])
      else (r2, [c1, c2])
  else
    let (r1, c1) := one r spec
    (r1, [c1])

/-- the tagged handlers such a call then invokes (tagged `keys` handlers return no keys and
    tagged `iterate` handlers no items, so nothing else runs) -/
def expectedRan (spec : String) (calls : List Call) : List String :=
  let tagOf (c : Call) : List String := match c.ans with
    | .ret (some h) => if h.startsWith "h:" then [h] else []
    | _ => []
  if spec == "star" then
    match calls with
    | [k, g] => if g.op == "get" then tagOf k else tagOf g
    | [_, _, i] => tagOf i
    | _ => []
  else calls.flatMap tagOf

structure ImplObs where
  raised : Option String := none
  order : Option (List Ty) := none
  created : List (Op × List Ty) := []
  calls : List Call := []
  ran : List String := []

def implObsOfJson (j : Json) : Except String ImplObs := do
  match j with
  | .null => return {}
  | _ =>
    let order ← (match j.getObjVal? "order" with
      | .ok o => do return some (← listOfJson strOfJson o)
      | .error _ => pure none : Except String (Option (List Ty)))
    let calls ← (match j.getObjVal? "calls" with
      | .ok c => listOfJson callOfJson c
      | .error _ => pure [])
    let ran ← (match j.getObjVal? "ran" with
      | .ok c => listOfJson strOfJson c
      | .error _ => pure [])
    let created ← (match j.getObjVal? "created" with
      | .ok c => listOfJson (pairOfJson strOfJson (listOfJson strOfJson)) c
      | .error _ => pure [])
    let raised ← (match j.getObjVal? "raised" with
      | .ok (.str e) => pure (some e)
      | _ => pure none : Except String (Option String))
    return { raised, order, created, calls, ran }

def treesOfJson (j : Json) : Except String (List (Option (List (Op × Forest)))) :=
  listOfJson (fun x => match x with
    | .null => pure none
    | _ => do return some (← listOfJson (pairOfJson strOfJson forestOfJson) x)) j

def sameTrees (model : List (Op × Forest)) : Option (List (Op × Forest)) → Bool
  | none => true
  | some impl =>
    impl.all (fun p => (odGet p.1 model).getD .nil == p.2) &&
    model.all (fun p => p.2 == .nil || (odGet p.1 impl).isSome)

def isPerm (a b : List Ty) : Bool :=
  a.length == b.length && a.all (fun x => b.contains x) && b.all (fun x => a.contains x)

/-- which branch of `get_handler` answers (for the histogram) -/
def lookupBranch (H : Hier) (r : Reg) (op : Op) (t : Ty) : String :=
  if (odGet (t, op) r.cache).isSome then "memo"
  else if (r.map op).isEmpty then "no-types"
  else if (odGet t (r.map op)).isSome then "exact"
  else match closest H t (r.tree op) with
    | none => "no-match"
    | some c =>
      let m := matching H t (r.tree op)
      let d := dropSupers H m
      let kind := if (H.mro t).contains c then "base" else "virtual"
      let multi := if d.eraseDups.length > 1 then "-among-" ++ toString (min d.eraseDups.length 3) else ""
      let dropped := if d.length < m.length then "-supers-dropped" else ""
      s!"tree-{kind}{multi}{dropped}"

/-- insertion into a list sorted by `<` on strings (Python's `sorted(…, key=lambda t: t.__name__)`;
    diagnostics only) -/
def insSorted (x : String) : List String → List String
  | [] => [x]
  | y :: ys => if x < y then x :: y :: ys else y :: insSorted x ys

def sortNames (l : List String) : List String := l.foldr insSorted []

/-- what the diagnostic classification remembers along a history -/
structure Diag where
  memo : List (Nat × List (Op × Ty) × List (Op × Ty))
  lossy : List (Nat × Op) := []
  /-- registries × types of `register` calls that were refused -/
  rejReg : List (Nat × Ty) := []
  /-- `(registry, op, type, handler)`: the entries a refused `register_op` call had validated for
      an *existing* table of the op before it reached the offending type -/
  leak : List (Nat × Op × Ty × Handler) := []
  /-- lookups that found no handler at a moment the reference had none either -/
  failed : List (Nat × Op × Ty) := []

/-- diagnostic classification of the lookups on which the property fails (for known-finding
    classifiers); `holds` itself is `checkRun`, not this function -/
def failingLookups (H : Hier) (S : Setup) (kinds : List RegKind) :
    Nat → List RefReg → Diag → List Action → List (Option Answer) → List Json
  | _, _, _, [], _ => []
  | _, _, _, _, [] => []
  | n, w, d, a :: as, o :: os =>
    let here : List Json := match a, o with
      | .lookup i op t re, some ans =>
        (match w[i]? with
         | some ρ =>
           if answerOk (refAnswers H ρ op t) re ans then [] else
           let moduleOnly := S.moduleOps.any (fun m => m.op == op) &&
             !(S.builtinOps.any (fun m => m.op == op))
           let stale := (d.memo.find? (fun m => m.1 == i)).map (fun m => m.2.2.contains (op, t))
           let isGlommer := match kinds[i]? with | some (.glommer _) => true | _ => false
           let app := applicable H (ρ.coverOf op) t
           let noHandler := ans == .unregistered || ans == .ret none
           let leaked := d.leak.any (fun l => l.1 == i && l.2.1 == op && l.2.2.1 == t &&
             ans == .ret l.2.2.2)
           let cls :=
             if ans == .ret none && re then "returned-False-although-raise_exc"
             else if isGlommer && moduleOnly then "glommer-lacks-module-op"
             else if leaked then "rejected-register-op-half-applied"
             else if d.rejReg.contains (i, t) then "rejected-register-half-applied"
             else if noHandler && d.failed.contains (i, op, t) then "failed-lookup-memoised"
             else if stale == some true then "register-op-keeps-memo"
             else if d.lossy.contains (i, op) then "reregistering-type-that-is-not-its-own-subclass"
             else if (minimal H app).length > 1 then "several-minimal-matches"
             else "other"
           [Json.mkObj [("index", n), ("reg", i), ("op", op), ("ty", t), ("class", cls),
             ("allowed", toJson (refAnswers H ρ op t))]]
         | none => [])
      | _, _ => []
    let memo' := match a with
      | .register i .. => d.memo.map (fun m => if m.1 == i then (m.1, [], []) else m)
      | .registerOp i .. => d.memo.map (fun m => if m.1 == i then (m.1, m.2.1, m.2.2 ++ m.2.1) else m)
      | .lookup i op t _ => d.memo.map (fun m => if m.1 == i then (m.1, (op, t) :: m.2.1, m.2.2) else m)
      | .badCall .. => d.memo
    -- a non-exact registration of a type that already covers and is not `issubclass` of itself
    let lossy' := match a with
      | .register i t false kw =>
        (match w[i]? with
         | some ρ => d.lossy ++ ((newOpMap H ρ.handlers ρ.autoOps t kw).filterMap (fun p =>
             if (ρ.coverOf p.1).contains t && !(H.sub t t) then some (i, p.1) else none))
         | none => d.lossy)
      | .registerOp i op _ false order =>
        (match w[i]? with
         | some ρ => if order.any (fun t => (ρ.coverOf op).contains t && !(H.sub t t))
             then d.lossy ++ [(i, op)] else d.lossy
         | none => d.lossy)
      | _ => d.lossy
    let rejReg' := match a with
      | .register i t _ kw =>
        (match w[i]? with
         | some ρ => if (firstInvalid (newOpMap H ρ.handlers ρ.autoOps t kw)).isSome
             then d.rejReg ++ [(i, t)] else d.rejReg
         | none => d.rejReg)
      | _ => d.rejReg
    let leak' := match a with
      | .registerOp i op au _ order =>
        (match w[i]? with
         | some ρ =>
           (match firstInvalidAuto H au (sortNames order) (ρ.table op) with
            | some bad =>
              if (odGet op ρ.handlers).isSome then
                d.leak ++ (((sortNames order).takeWhile (· != bad)).filterMap (fun t =>
                  if (odGet t (ρ.table op)).isNone then some (i, op, t, H.auto au t) else none))
              else d.leak
            | none => d.leak)
         | none => d.leak)
      | _ => d.leak
    let failed' := match a, o with
      | .lookup i op t _, some _ =>
        (match w[i]? with
         | some ρ => if refAnswers H ρ op t == [none] then d.failed ++ [(i, op, t)] else d.failed
         | none => d.failed)
      | _, _ => d.failed
    here ++ failingLookups H S kinds (n + 1) (refStep H w a)
      { memo := memo', lossy := lossy', rejReg := rejReg', leak := leak', failed := failed' } as os

def run (j : Json) : Except String Json := do
  let (tab, _uni) ← hierOfJson (← j.getObjVal? "hier")
  let H := tab.toHier
  let tabRef ← refHierOfJson (← j.getObjVal? "hier") tab
  let Href := tabRef.toHier
  let duckDiffers := ((← j.getObjVal? "hier").getObjVal? "ref_inst" |>.toOption |>.isSome) ||
    ((← j.getObjVal? "hier").getObjVal? "ref_auto" |>.toOption |>.isSome)
  let kinds ← (← listOfJson strOfJson (← j.getObjVal? "kinds")).mapM kindOfStr
  let ordersObs ← listOfJson (listOfJson strOfJson) (← j.getObjVal? "module_orders")
  let cacts ← listOfJson cactOfJson (← j.getObjVal? "actions")
  let impl ← j.getObjVal? "impl"
  if let .ok (.str why) := impl.getObjVal? "skip" then
    return Json.mkObj [("skip", true), ("why", why)]
  if let .ok (.str why) := impl.getObjVal? "crash" then
    -- glom cannot be imported / cannot build a registry: no lookup is answered at all
    return Json.mkObj [("agree", false), ("holds", false), ("branch", "impl-crash"),
      ("failing", Json.arr #[Json.mkObj [("class", "impl-crash")]]),
      ("why", s!"the implementation could not be set up: {why}")]
  let obs ← listOfJson implObsOfJson (← impl.getObjVal? "obs")
  let implTrees ← treesOfJson (← impl.getObjVal? "trees")
  let implInit ← treesOfJson (← impl.getObjVal? "init_trees")
  if obs.length != cacts.length then throw "impl.obs does not align with actions"
  if !(subOK tab) then
    return Json.mkObj [("skip", true), ("why", "isinstance/issubclass of this hierarchy are not a transitive, antisymmetric relation with isinstance closed under it (outside the property's family)")]
  let S := genSetup
  -- the known types at the module-level `register_op` calls: in registration order (fact), else observed
  let orders := if Generated.c13KnownTypesOrdered
    then S.moduleOps.map (fun _ => (freshReg H S true).knownTypes) else ordersObs
  let w0 := kinds.map (mkReg H S orders)
  let initAgree := (w0.zip implInit).all (fun p => sameTrees p.1.typeTree p.2)
  -- run the model over the case actions, expanding `glom` into its lookups
  let mut w := w0
  let mut acts : List Action := []          -- expanded history (for the checker)
  let mut modelAns : List (Option Answer) := []
  let mut implAns : List (Option Answer) := []
  let mut notes : List String := []
  -- valid registrations the implementation refused: "a register() call takes effect for the very
  -- next glom call" fails on them
  let mut refused : List String := []
  let mut branches : List String := []
  let mut modelObs : List Json := []
  for (ca, ob) in cacts.zip obs do
    match ca with
    | .register i t e kw =>
      let a := Action.register i t e kw
      let err := (w[i]?.map (fun r => (registerChecked H r t e kw).2)).getD none
      if err.isSome then branches := branches ++ ["rejected-register"]
      if err.isSome != (ob.raised == some "TypeError") then
        notes := notes ++ [s!"register({t}): the model says {if err.isSome then "TypeError" else "accepted"}, the implementation {ob.raised.getD "accepted"}"]
      if err.isNone && ob.raised.isSome then
        refused := refused ++ [s!"register({t}) is valid but raised {ob.raised.getD ""}"]
      w := (step H w a).1; acts := acts ++ [a]
      modelAns := modelAns ++ [none]; implAns := implAns ++ [none]
      modelObs := modelObs ++ [if err.isSome then Json.mkObj [("raised", "TypeError")] else Json.null]
    | .registerOp i op f e =>
      let order := knownOrder w[i]? (ob.order.getD [])
      let known := (w[i]?.map Reg.knownTypes).getD []
      if !(isPerm order known) then
        notes := notes ++ [s!"register_op order {order} is not a permutation of the model's known types {known}"]
      let a := Action.registerOp i op f e order
      let err := (w[i]?.map (fun r => (registerOpChecked H r op f e order).2)).getD none
      if err.isSome then branches := branches ++ ["rejected-register-op"]
      if err.isSome != (ob.raised == some "TypeError") then
        notes := notes ++ [s!"register_op({op}): the model says {if err.isSome then "TypeError" else "accepted"}, the implementation {ob.raised.getD "accepted"}"]
      if err.isNone && ob.raised.isSome then
        refused := refused ++ [s!"register_op({op}) is valid but raised {ob.raised.getD ""}"]
      w := (step H w a).1; acts := acts ++ [a]
      modelAns := modelAns ++ [none]; implAns := implAns ++ [none]
      modelObs := modelObs ++ [if err.isSome then Json.mkObj [("raised", "TypeError")] else Json.null]
    | .badCall i what =>
      let err : RegError := if what == "register-instance" then .notAType
        else if what == "register_op-name" then .badOpName else .badAutoFunc
      branches := branches ++ ["rejected-call"]
      if ob.raised != some "TypeError" then
        notes := notes ++ [s!"{what}: the model says TypeError, the implementation {ob.raised.getD "accepted"}"]
      let a := Action.badCall i err
      w := (step H w a).1; acts := acts ++ [a]
      modelAns := modelAns ++ [none]; implAns := implAns ++ [none]
      modelObs := modelObs ++ [Json.mkObj [("raised", "TypeError")]]
    | .create i =>
      -- Glommer.__init__: copy the ops of the registry it is created from (the module registry)
      let isGlommer := match kinds[i]? with | some (.glommer _) => true | _ => false
      let mut expansion : List Json := []
      if isGlommer then
        let base := match kinds.findIdx? (· == RegKind.module) with
          | some m => (w[m]?).getD (moduleReg H S orders)
          | none => moduleReg H S orders
        let own := (w[i]?).getD {}
        let ops := glommerOps base own
        if ops.map (·.1) != ob.created.map (·.1) then
          notes := notes ++ [s!"Glommer() copied ops {ob.created.map (·.1)}, the model expects {ops.map (·.1)}"]
        for (op, f) in ops do
          let known := (w[i]?.map Reg.knownTypes).getD []
          let order := knownOrder w[i]? (((ob.created.find? (·.1 == op)).map (·.2)).getD known)
          if !(isPerm order known) then
            notes := notes ++ [s!"Glommer() op {op}: order {order} is not a permutation of the known types {known}"]
          let a := Action.registerOp i op f false order
          w := (step H w a).1; acts := acts ++ [a]
          modelAns := modelAns ++ [none]; implAns := implAns ++ [none]
          expansion := expansion ++ [Json.str op]
      else if !ob.created.isEmpty then
        notes := notes ++ ["create of a non-Glommer reported copied ops"]
      modelObs := modelObs ++ [Json.mkObj [("created", Json.arr expansion.toArray)]]
    | .lookup i op t re =>
      match w[i]? with
      | none => throw s!"no registry {i}"
      | some r =>
        branches := branches ++ [lookupBranch H r op t]
        let a := Action.lookup i op t re
        let (r', o1) := getHandlerD H r op t re
        let o := some o1
        w := updateAt (fun _ => r') i w; acts := acts ++ [a]
        modelAns := modelAns ++ [o]
        match ob.calls with
        | [c] =>
          if c.op != op || c.ty != t || c.raiseExc != re then
            notes := notes ++ [s!"lookup observation is for a different call"]
          implAns := implAns ++ [some c.ans]
        | _ => notes := notes ++ ["lookup without exactly one observed call"]
               implAns := implAns ++ [none]
        modelObs := modelObs ++ [Json.mkObj [("calls", Json.arr #[callToJson ⟨op, t, re, o.getD .keyError⟩])]]
    | .glom i spec t =>
      match w[i]? with
      | none => throw s!"no registry {i}"
      | some r =>
        let (r', calls) := glomCalls H r spec t
        -- branch of the first call
        branches := branches ++ [s!"glom-{spec}"] ++ (calls.head?.map (fun c => [lookupBranch H r c.op t])).getD []
        w := updateAt (fun _ => r') i w
        if calls.map (fun c => (c.op, c.ty, c.raiseExc)) != ob.calls.map (fun c => (c.op, c.ty, c.raiseExc)) then
          notes := notes ++ [s!"glom({spec}) performed different get_handler calls than the model expects"]
        if expectedRan spec ob.calls != ob.ran then
          notes := notes ++ [s!"glom({spec}) ran handlers {ob.ran}, not the ones get_handler returned"]
        -- the history seen by the checker is the sequence of calls the implementation made
        for c in ob.calls do
          acts := acts ++ [Action.lookup i c.op c.ty c.raiseExc]
          implAns := implAns ++ [some c.ans]
        -- model answers aligned with the implementation's calls (padded / truncated)
        let m := calls.map (fun c => some c.ans)
        modelAns := modelAns ++ (m.take ob.calls.length) ++
          List.replicate (ob.calls.length - m.length) (some Answer.keyError)
        modelObs := modelObs ++ [Json.mkObj [("calls", Json.arr (calls.map callToJson).toArray),
          ("ran", toJson (expectedRan spec calls))]]
  let treesAgree := (w.zip implTrees).all (fun p => sameTrees p.1.typeTree p.2)
  -- the outcome has to be a function of the history: the harness replays every case that runs
  -- `register_op` with the case's classes at other memory addresses (`impl.layout` = the first
  -- action answered differently)
  let layoutDiff := (impl.getObjVal? "layout").toOption
  let layoutTrees := (impl.getObjVal? "layout_trees").toOption.isSome
  let agree := initAgree && treesAgree && notes.isEmpty && modelAns == implAns && !duckDiffers &&
    !layoutTrees
  -- the reference starts from the registration sequences the property takes as given
  let refW := kinds.map (refMk Href pinnedSetup orders)
  -- `ran` consistency is part of what the property observes ("which registered handler runs")
  let ranOK := (cacts.zip obs).all (fun p => match p.1 with
    | .glom _ spec _ => expectedRan spec p.2.calls == p.2.ran
    | _ => true)
  -- a glom / assign / delete call that consulted no registry at all has no answer to check
  let glomOK := (cacts.zip obs).all (fun p => match p.1 with
    | .glom .. => !p.2.calls.isEmpty
    | _ => true)
  let holds := checkRun Href refW acts implAns && ranOK && refused.isEmpty && layoutDiff.isNone && glomOK
  let modelHolds := checkRun H (kinds.map (refMk H S orders)) acts modelAns
  let why :=
    (if initAgree then [] else ["initial trees differ"]) ++
    (if treesAgree then [] else ["final trees differ"]) ++
    (if modelAns == implAns then [] else ["answers differ"]) ++ notes ++ refused ++
    (match layoutDiff with
     | some d => [s!"the answers depend on the memory addresses of the classes (replayed with the classes elsewhere in memory): {d.compress}"]
     | none => []) ++
    (if layoutTrees then ["the type trees depend on the memory addresses of the classes"] else []) ++
    (if glomOK then [] else ["a glom call performed no get_handler call"]) ++
    (if duckDiffers then ["isinstance/issubclass of glom's duck types (_AbstractIterable / _ObjStyleKeys) or the auto-discovery of the builtin ops (get / iterate) differ from their stated meaning"] else [])
  -- one representative branch per case: the rarest kind of lookup it contains
  let prio : List String := ["supers-dropped", "among-3", "among-2", "tree-virtual", "tree-base", "memo",
    "exact", "no-match", "no-types"]
  let rep := (prio.findSome? (fun p =>
    (branches.find? (fun b => (b.splitOn p).length > 1)))).getD "no-lookup"
  return Json.mkObj [("agree", agree), ("holds", holds), ("model_holds", modelHolds),
    ("wf", subOK tab), ("mro_ok", mroOK tab),
    ("shape_ok", shapeOK),
    ("memo_stores_misses", storeMisses),
    ("model", Json.mkObj [("obs", Json.arr modelObs.toArray),
      -- (trees nested deeper than a few hundred levels are not printed: JSON readers recurse)
      ("trees", Json.arr (w.map (fun r =>
        if r.typeTree.any (fun p => fdepth p.2 > 300) then Json.null else
        Json.arr (r.typeTree.map (fun p =>
          Json.arr #[Json.str p.1, forestToJson p.2])).toArray)).toArray)]),
    ("failing", Json.arr ((failingLookups Href pinnedSetup kinds 0 refW
        { memo := (List.range kinds.length).map (fun i => (i, [], [])) } acts implAns) ++
      (match layoutDiff with
       | some d => [Json.mkObj [("class", "memory-layout-dependent"), ("detail", d)]]
       | none => [])).toArray),
    ("rejected", (branches.filter (fun b => b.startsWith "rejected")).length),
    ("branch", rep),
    ("why", "; ".intercalate why)]

end Glom.C13.Driver
