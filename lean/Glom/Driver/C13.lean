import Lean.Data.Json
/- stub: the C13 driver is not built yet -/
namespace Glom.C13.Driver
open Lean

def run (_j : Json) : Except String Json := .error "property C13: driver not implemented yet"

end Glom.C13.Driver
