import Lean.Data.Json
/- stub: the C10 driver is not built yet -/
namespace Glom.C10.Driver
open Lean

def run (_j : Json) : Except String Json := .error "property C10: driver not implemented yet"

end Glom.C10.Driver
