import Lean.Data.Json
import Glom.Spec.C10
import Glom.Spec.C09
import Glom.Model.C10Env
/-
  C10 driver: one JSON case in, one JSON verdict out.  (The decoders are shared
  with the C09 driver.)

  V:     null | {"b":bool} | {"i":int} | {"f2":twice} | {"s":str} | {"l":[V…]} | {"t":[V…]}
         | {"set":[V…]} | {"fs":[V…]} | {"d":[[V,V]…]} | {"obj":tag}
         | {"sub":cls,"v":V}   (an instance of the user subclass `cls` of the builtin class of V: dict / list /
                                tuple / set / frozenset / str)
  Arg:   {"c":V} | {"t":[V…]} | {"val":V} (Val(v)) | {"seq":[{"c":V}|{"t":[V…]} …],"tuple":bool}
  (a "pred" / validator node may carry "form":"fn"|"inst"|"partial", a "many" node "as":"list"|"tuple",
   a check "one_of_as": how the harness built the Python object; the model does not depend on it)
  Spec:  {"k":"t","e":[V…]} | {"k":"val","v":V} | {"k":"M"} | {"k":"msub","e":[V…]}
         | {"k":"mexpr","l":Side,"op":"eq|ne|gt|lt|ge|le","r":Side}      Side: {"m":true}|{"sub":[V…]}|{"c":V}
         | {"k":"and"|"or","cs":[Spec…],"d":Arg|null} | {"k":"not","c":Spec}
         | {"k":"switch","cases":[[Spec,Spec]…],"d":Arg|null}
         | {"k":"check", "spec":[V…]|null, "type":OM|null, "instance_of":OM|null, "equal_to":{"v":V}|null,
            "one_of":[V…]|null, "validate":OMF|null, "d":Arg|null}       OM: {"one":x}|{"many":[x…]}
         | {"k":"regex","items":[{"c":cls,"p":bool}…],"f":"fullmatch|search|match"}
         | {"k":"match","s":Spec,"d":Arg|null} | {"k":"ty","n":name} | {"k":"lit","v":V}
         | {"k":"pred","id":n,"fn":name} | {"k":"list"|"set"|"fset"|"tuple","cs":[Spec…]}
         | {"k":"dict","es":[[kind,Spec,Spec]…]}    kind: "plain" | "req" | {"opt":Arg|null}
  OpExpr: {"leaf":Spec} | {"and":[a,b]} | {"or":[a,b]} | {"inv":a}
  Obs:   {"ok":V,"log":[n…]} | {"exc":cls,"glom":b,"match":b,"typematch":b,"typeerror":b,"pae":b,"check":b,"log":[n…]}
         | {"ctor":cls}
  OpExprX: OpExpr with the additional operand {"use":i}   (the object bound by the i-th def step)
  Step:  {"def":OpExprX} | {"eval":i,"target":V[,"bare":true]}
  case:  {"spec":Spec | "ops":OpExpr, "target":V, "impl":Obs, "impl_bare":Obs|null}
           (+ optional "copy_used":"copy"|"deepcopy"|"pickle": the spec object used is that copy)
         | {"spec":Spec | "ops":OpExpr, "targets":[V…], "impl_seq":[Obs…]}   -- one spec object, consecutive calls
         | {"prog":[Step…], "impl_steps":[null | Obs …]}   -- a program over spec objects; one entry per executed
                                                          -- statement (null: a def that succeeded; it ends with
                                                          -- the {"ctor":cls} of a def that raised)
-/
namespace Glom.C10.Driver
open Lean Glom Glom.MV Glom.C10

def arrOf (j : Json) : Except String (List Json) :=
  match j with
  | .arr a => .ok a.toList
  | _ => .error s!"expected array, got {j.compress}"

partial def vOfJson (j : Json) : Except String V :=
  match j with
  | .null => .ok .none
  | .obj _ =>
    if let .ok b := j.getObjValAs? Bool "b" then .ok (.bool b)
    else if let .ok i := j.getObjValAs? Int "i" then .ok (.int i)
    else if let .ok i := j.getObjValAs? Int "f2" then .ok (.flt i)
    else if let .ok s := j.getObjValAs? String "s" then .ok (.str s)
    else if let .ok s := j.getObjValAs? String "obj" then .ok (.obj s)
    else if let .ok c := j.getObjValAs? String "sub" then do
      let b ← vOfJson (← j.getObjVal? "v")
      match b with
      | .list _ | .tuple _ | .set _ | .fset _ | .dict _ | .str _ => return .sub c b
      | _ => throw s!"bad subclass instance {j.compress}"
    else if let .ok (.arr a) := j.getObjVal? "l" then do return .list (← a.toList.mapM vOfJson)
    else if let .ok (.arr a) := j.getObjVal? "t" then do return .tuple (← a.toList.mapM vOfJson)
    else if let .ok (.arr a) := j.getObjVal? "set" then do return .set (← a.toList.mapM vOfJson)
    else if let .ok (.arr a) := j.getObjVal? "fs" then do return .fset (← a.toList.mapM vOfJson)
    else if let .ok (.arr a) := j.getObjVal? "d" then do
      return .dict (← a.toList.mapM (fun e => match e with
        | .arr #[k, v] => do return (← vOfJson k, ← vOfJson v)
        | _ => throw s!"bad pair {e.compress}"))
    else .error s!"bad V {j.compress}"
  | _ => .error s!"bad V {j.compress}"

partial def vToJson : V → Json
  | .none => .null
  | .bool b => Json.mkObj [("b", b)]
  | .int i => Json.mkObj [("i", toJson i)]
  | .flt i => Json.mkObj [("f2", toJson i)]
  | .str s => Json.mkObj [("s", s)]
  | .obj s => Json.mkObj [("obj", s)]
  | .sub c b => Json.mkObj [("sub", c), ("v", vToJson b)]
  | .list xs => Json.mkObj [("l", Json.arr (xs.map vToJson).toArray)]
  | .tuple xs => Json.mkObj [("t", Json.arr (xs.map vToJson).toArray)]
  | .set xs => Json.mkObj [("set", Json.arr (xs.map vToJson).toArray)]
  | .fset xs => Json.mkObj [("fs", Json.arr (xs.map vToJson).toArray)]
  | .dict es => Json.mkObj [("d", Json.arr (es.map (fun e => Json.arr #[vToJson e.1, vToJson e.2])).toArray)]

def vsOfJson (j : Json) : Except String (List V) := do (← arrOf j).mapM vOfJson

def optField {α} (j : Json) (k : String) (f : Json → Except String α) : Except String (Option α) :=
  match j.getObjVal? k with
  | .ok .null => .ok none
  | .ok v => do return some (← f v)
  | .error _ => .ok none

def argItemOfJson (j : Json) : Except String ArgItem := do
  if let .ok v := j.getObjVal? "c" then return .const (← vOfJson v)
  else if let .ok e := j.getObjVal? "t" then return .t (← vsOfJson e)
  else throw s!"bad Arg item {j.compress}"

def argOfJson (j : Json) : Except String Arg := do
  if let .ok v := j.getObjVal? "c" then return .const (← vOfJson v)
  else if let .ok v := j.getObjVal? "val" then return .val (← vOfJson v)
  else if let .ok items := j.getObjVal? "seq" then
    let tup := match j.getObjValAs? Bool "tuple" with | .ok b => b | .error _ => false
    return .seq tup (← (← arrOf items).mapM argItemOfJson)
  else if let .ok e := j.getObjVal? "t" then return .t (← vsOfJson e)
  else throw s!"bad Arg {j.compress}"

def cmpOfJson (s : String) : Except String CmpOp :=
  match s with
  | "eq" => .ok .eq | "ne" => .ok .ne | "gt" => .ok .gt | "lt" => .ok .lt
  | "ge" => .ok .ge | "le" => .ok .le
  | _ => .error s!"bad op {s}"

def sideOfJson (j : Json) : Except String Side := do
  if let .ok _ := j.getObjVal? "m" then return .m
  else if let .ok e := j.getObjVal? "sub" then return .sub (← vsOfJson e)
  else if let .ok v := j.getObjVal? "c" then return .const (← vOfJson v)
  else throw s!"bad Side {j.compress}"

def omOfJson {α} (f : Json → Except String α) (j : Json) : Except String (OneOrMany α) := do
  if let .ok v := j.getObjVal? "one" then return .one (← f v)
  else if let .ok v := j.getObjVal? "many" then return .many (← (← arrOf v).mapM f)
  else throw s!"bad OneOrMany {j.compress}"

def strOf (j : Json) : Except String String :=
  match j with
  | .str s => .ok s
  | _ => .error s!"expected string, got {j.compress}"

def fnOfJson (j : Json) : Except String Fn := do
  let id ← optField j "id" (fun v => match v.getNat? with | .ok n => .ok n | .error e => .error e)
  return (id, ← j.getObjValAs? String "fn")

def clsOfJson (j : Json) : Except String CharCls :=
  match j with
  | .str "lower" => .ok .lower
  | .str "digit" => .ok .digit
  | .str "notAt" => .ok .notAt
  | .str "any" => .ok .any
  | _ => match j.getObjValAs? String "lit" with
    | .ok s => (match s.toList with | [c] => .ok (.lit c) | _ => .error "bad lit class")
    | .error _ => .error s!"bad char class {j.compress}"

partial def specOfJson (j : Json) : Except String Spec := do
  let k ← j.getObjValAs? String "k"
  let children := fun (key : String) => do (← arrOf (← j.getObjVal? key)).mapM specOfJson
  match k with
  | "t" => return .t (← vsOfJson (← j.getObjVal? "e"))
  | "val" => return .val (← vOfJson (← j.getObjVal? "v"))
  | "M" => return .mtype
  | "msub" => return .msub (← vsOfJson (← j.getObjVal? "e"))
  | "mexpr" =>
    let l ← sideOfJson (← j.getObjVal? "l")
    let ml ← (match l with
      | .m => pure MSide.m
      | .sub e => pure (MSide.sub e)
      | .const _ => throw "mexpr: lhs must be M or M(T…)")
    return .mexpr ml (← cmpOfJson (← j.getObjValAs? String "op")) (← sideOfJson (← j.getObjVal? "r"))
  | "and" => return .and (← children "cs") (← optField j "d" argOfJson)
  | "or" => return .or (← children "cs") (← optField j "d" argOfJson)
  | "not" => return .not (← specOfJson (← j.getObjVal? "c"))
  | "switch" =>
    let cases ← (← arrOf (← j.getObjVal? "cases")).mapM (fun e => match e with
      | .arr #[a, b] => do return (← specOfJson a, ← specOfJson b)
      | _ => throw s!"bad case {e.compress}")
    return .switch cases (← optField j "d" argOfJson)
  | "check" =>
    return .check {
      spec := ← optField j "spec" vsOfJson
      type_ := ← optField j "type" (omOfJson strOf)
      instanceOf := ← optField j "instance_of" (omOfJson strOf)
      equalTo := ← optField j "equal_to" (fun v => do vOfJson (← v.getObjVal? "v"))
      oneOf := ← optField j "one_of" vsOfJson
      validate := ← optField j "validate" (omOfJson fnOfJson)
      default := ← optField j "d" argOfJson }
  | "regex" =>
    let items ← (← arrOf (← j.getObjVal? "items")).mapM (fun e => do
      return ({ cls := ← clsOfJson (← e.getObjVal? "c"), plus := ← e.getObjValAs? Bool "p" } : ReItem))
    let f ← (match ← j.getObjValAs? String "f" with
      | "fullmatch" => pure ReFunc.fullmatch
      | "search" => pure ReFunc.search
      | "match" => pure ReFunc.match_
      | o => throw s!"bad regex func {o}")
    return .regex items f
  | "match" => return .matchS (← specOfJson (← j.getObjVal? "s")) (← optField j "d" argOfJson)
  | "ty" => return .ty (← j.getObjValAs? String "n")
  | "lit" => return .lit (← vOfJson (← j.getObjVal? "v"))
  | "pred" => return .pred (← j.getObjValAs? Nat "id") (← j.getObjValAs? String "fn")
  | "list" => return .list (← children "cs")
  | "set" => return .set (← children "cs")
  | "fset" => return .fset (← children "cs")
  | "tuple" => return .tuple (← children "cs")
  | "dict" =>
    let es ← (← arrOf (← j.getObjVal? "es")).mapM (fun e => match e with
      | .arr #[kind, ks, vs] => do
        let kk ← (match kind with
          | .str "plain" => pure KeyKind.plain
          | .str "req" => pure KeyKind.req
          | o => do return KeyKind.opt (← optField o "opt" argOfJson))
        return (kk, ← specOfJson ks, ← specOfJson vs)
      | _ => throw s!"bad dict entry {e.compress}")
    return .dict es
  | o => throw s!"bad spec kind {o}"

partial def opsOfJson (j : Json) : Except String OpExpr := do
  if let .ok s := j.getObjVal? "leaf" then return .leaf (← specOfJson s)
  else if let .ok (.arr #[a, b]) := j.getObjVal? "and" then return .band (← opsOfJson a) (← opsOfJson b)
  else if let .ok (.arr #[a, b]) := j.getObjVal? "or" then return .bor (← opsOfJson a) (← opsOfJson b)
  else if let .ok a := j.getObjVal? "inv" then return .inv (← opsOfJson a)
  else throw s!"bad OpExpr {j.compress}"

partial def opsXOfJson (j : Json) : Except String OpExprX := do
  if let .ok s := j.getObjVal? "leaf" then return .leaf (← specOfJson s)
  else if let .ok i := j.getObjValAs? Nat "use" then return .use i
  else if let .ok (.arr #[a, b]) := j.getObjVal? "and" then return .band (← opsXOfJson a) (← opsXOfJson b)
  else if let .ok (.arr #[a, b]) := j.getObjVal? "or" then return .bor (← opsXOfJson a) (← opsXOfJson b)
  else if let .ok a := j.getObjVal? "inv" then return .inv (← opsXOfJson a)
  else throw s!"bad OpExprX {j.compress}"

def stepOfJson (j : Json) : Except String Step := do
  if let .ok e := j.getObjVal? "def" then return .bind (← opsXOfJson e)
  else return .eval (← j.getObjValAs? Nat "eval") (← vOfJson (← j.getObjVal? "target"))

def logOfJson (j : Json) : Except String Log := do
  (← arrOf (← j.getObjVal? "log")).mapM (fun v => match v.getNat? with | .ok n => .ok n | .error e => .error e)

def obsOfJson (j : Json) : Except String Obs := do
  if let .ok v := j.getObjVal? "ok" then return .ok (← vOfJson v) (← logOfJson j)
  else if let .ok c := j.getObjValAs? String "ctor" then return .ctor c
  else if let .ok c := j.getObjValAs? String "exc" then
    return .exc c (← j.getObjValAs? Bool "glom") (← j.getObjValAs? Bool "match")
      (← j.getObjValAs? Bool "typematch") (← j.getObjValAs? Bool "typeerror")
      (← j.getObjValAs? Bool "pae") (← j.getObjValAs? Bool "check") (← logOfJson j)
  else throw s!"bad obs {j.compress}"

def obsToJson : Obs → Json
  | .ok v l => Json.mkObj [("ok", vToJson v), ("log", toJson l)]
  | .ctor c => Json.mkObj [("ctor", c)]
  | .exc c g m tm te p ck l => Json.mkObj [("exc", c), ("glom", g), ("match", m), ("typematch", tm),
      ("typeerror", te), ("pae", p), ("check", ck), ("log", toJson l)]

/-- observations agree: same kind, same class/flags/log, results equal up to set / dict order -/
def obsAgree (a b : Obs) : Bool :=
  match a, b with
  | .ok v l, .ok v' l' => valEq v v' && l == l'
  | a, b => a == b

def specHead : Spec → String
  | .t _ => "t" | .val _ => "val" | .mtype => "M" | .msub _ => "msub" | .mexpr .. => "mexpr"
  | .and _ d => if d.isSome then "and+d" else "and" | .or _ d => if d.isSome then "or+d" else "or"
  | .not _ => "not" | .switch _ d => if d.isSome then "switch+d" else "switch"
  | .check _ => "check" | .regex .. => "regex" | .matchS _ d => if d.isSome then "match+d" else "match"
  | .ty _ => "ty" | .lit _ => "lit" | .pred .. => "pred" | .list _ => "list" | .set _ => "set"
  | .fset _ => "fset" | .tuple _ => "tuple" | .dict _ => "dict"

def verdictTag : Verdict → String
  | .pass _ => "pass"
  | .reject .comb => "reject" | .reject .typ => "reject-type" | .reject .access => "reject-access"
  | .reject .check => "reject-check"
  | .fault c => s!"fault-{c}"

/-- a T expression as an operand of & | ~ : TType records the operator itself (C02) -/
def hasTOperand : OpExpr → Bool
  | .leaf (.t _) => true
  | .leaf _ => false
  | .band a b | .bor a b => hasTOperand a || hasTOperand b
  | .inv a => hasTOperand a

/-- an operator whose operands are all plain Python values (`~7`, `int | None`, `3 & 5`) is
    resolved by Python's own types, not by glom: outside the modelled domain -/
def opsOutside : OpExpr → Bool
  | .leaf _ => false
  | .band a b | .bor a b =>
    opsOutside a || opsOutside b ||
    (match build expectedBoolOps true a, build expectedBoolOps true b with
     | .ok sa, .ok sb => (specMro sa).isEmpty && (specMro sb).isEmpty
     | _, _ => false)
  | .inv a =>
    opsOutside a ||
    (match build expectedBoolOps true a with
     | .ok sa => (specMro sa).isEmpty
     | _ => false)

/-- `[[class, base]…]`: the user classes the case declares -/
def worldOfJson (j : Json) : Except String (List (String × String)) := do
  match j.getObjVal? "world" with
  | .ok (.arr a) => a.toList.mapM (fun e => match e with
      | .arr #[.str k, .str b] => pure (k, b)
      | _ => throw s!"bad class declaration {e.compress}")
  | _ => pure []

/-! ### the catalogue is closed: a name the model does not know is a decode error, not a rejection -/

partial def tyNames : Spec → List String
  | .ty n => [n]
  | .and cs _ | .or cs _ | .list cs | .set cs | .fset cs | .tuple cs => cs.flatMap tyNames
  | .not c | .matchS c _ => tyNames c
  | .switch cases _ => cases.flatMap (fun p => tyNames p.1 ++ tyNames p.2)
  | .check a =>
    (match a.type_ with | some v => v.toList | none => []) ++
    (match a.instanceOf with | some v => v.toList | none => [])
  | .dict es => es.flatMap (fun e => tyNames e.2.1 ++ tyNames e.2.2)
  | _ => []

/-- a list / tuple / set / frozenset / dict VALUE written where a pattern is expected is a container
    PATTERN for glom, not a literal matched by `==`: such a `lit` node is a harness error -/
partial def containerLits : Spec → List String
  | .lit (.list _) | .lit (.set _) | .lit (.fset _) | .lit (.dict _) | .lit (.tuple _) | .lit (.sub ..) =>
    ["container literal"]
  | .and cs _ | .or cs _ | .list cs | .set cs | .fset cs | .tuple cs => cs.flatMap containerLits
  | .not c | .matchS c _ => containerLits c
  | .switch cases _ => cases.flatMap (fun p => containerLits p.1 ++ containerLits p.2)
  | .dict es => es.flatMap (fun e =>
      -- the constant of an `Optional(k)` IS compared with `!=` (`Optional.glomit`)
      (match e.1 with | .opt _ => [] | _ => containerLits e.2.1) ++ containerLits e.2.2)
  | _ => []

partial def fnNames : Spec → List String
  | .pred _ fn => [fn]
  | .and cs _ | .or cs _ | .list cs | .set cs | .fset cs | .tuple cs => cs.flatMap fnNames
  | .not c | .matchS c _ => fnNames c
  | .switch cases _ => cases.flatMap (fun p => fnNames p.1 ++ fnNames p.2)
  | .check a => (match a.validate with | some v => v.toList.map (·.2) | none => [])
  | .dict es => es.flatMap (fun e => fnNames e.2.1 ++ fnNames e.2.2)
  | _ => []

partial def objTags : V → List String
  | .obj tag => [tag]
  | .sub c b => (c ++ "#") :: objTags b
  | .list xs | .tuple xs | .set xs | .fset xs => xs.flatMap objTags
  | .dict es => es.flatMap (fun e => objTags e.1 ++ objTags e.2)
  | _ => []

/-- class names the model knows: every row head and every base of the class table of the case,
    the instance-dependent types, the IntEnum (a type atom only) and the user ABCs -/
def knownTypes (ct : ClassTable) : List String :=
  ct.map (·.1) ++ ct.flatMap (·.2) ++ Generated.abcNames ++ protoTable.map (·.1) ++
    ["Level", "A0", "A1", "A2", "A3"]

def checkNames (ct : ClassTable) (s : Spec) (vs : List V) : Except String Unit := do
  let known := knownTypes ct
  for n in tyNames s do
    if !known.contains n then throw s!"unknown class name {n} (catalogue desync)"
  if !(containerLits s).isEmpty then
    throw "a `lit` node holds a list / tuple / set / dict value: that is a container pattern, not a literal"
  for f in fnNames s do
    if (predTable.lookup f).isNone then throw s!"unknown callable {f} (catalogue desync)"
  for v in vs do
    for tag in objTags v do
      if tag.toList.contains '#' && !(ct.map (·.1)).contains (tagCls tag) then
        throw s!"object of unknown class {tagCls tag} (catalogue desync)"

/-- "returning the target": for a spec every rule of which hands back the object it was given
    (`selfP`), a pass must BE the target — the harness observed `result is target` -/
def sameOK (s : Spec) (obsJ : Json) : Bool :=
  !C09.selfP s ||
  (match obsJ.getObjVal? "ok", obsJ.getObjValAs? Bool "same" with
   | .ok _, .ok b => b
   | _, _ => true)

/-- the spec object that is used: the one built, or — `how` = `"copy"` / `"deepcopy"` / `"pickle"` —
    a copy of it, as the extracted marker table says it comes out -/
def usedSpec (how : String) (s : Spec) : Spec :=
  if how == "none" then s else copySpec Generated.identityMarkers how s

def modelObs (env : Env) (how : String) (s : Spec) (t : V) : Obs :=
  match ctorErr s with
  | some e => .ctor e.cls
  | none => observe env (eval env (usedSpec how s) t)

/-- what is judged: a constructor-built spec or an operator expression -/
inductive Subject where
  | spec (s : Spec)
  | ops (e : OpExpr)

def opLeaves : OpExpr → List Spec
  | .leaf s => [s]
  | .band a b | .bor a b => opLeaves a ++ opLeaves b
  | .inv a => opLeaves a

def subjectSpec : Subject → Option Spec
  | .spec s => some s
  | .ops e => match build expectedBoolOps false e with | .ok s => some s | .error _ => none

def subjectSame (sub : Subject) (obsJ : Json) : Bool :=
  match subjectSpec sub with
  | some s => sameOK s obsJ
  | none => true

structure Judgement where
  agree : Bool
  holds : Bool
  modelHolds : Bool
  model : Obs
  tag : String

/-- model and checker for one (subject, target, observation[, bare observation]) -/
def judge (env : Env) (how : String) (sub : Subject) (target : V) (implObs : Obs) (bare : Option Obs) :
    Judgement :=
  let ct := env.cls
  let tagHow := if how == "none" then "" else s!"{how}-"
  match sub with
  | .ops e =>
    let built := build env.boolOps true e
    let mObs := match built with
      | .error x => Obs.ctor x.cls
      | .ok s => modelObs env how s target
    { agree := obsAgree mObs implObs && (match bare with | some b => obsAgree mObs b | none => true)
      holds := checkOps ct e target implObs &&
        (match bare with | some b => checkOps ct e target b | none => true)
      modelHolds := checkOps ct e target mObs
      model := mObs
      tag := match build expectedBoolOps false e with
        | .error x => s!"ops:ctor-{x.cls}"
        | .ok s => s!"{tagHow}ops-{specHead s}:{verdictTag (denote ct s target).1}" }
  | .spec s =>
    let mObs := modelObs env how s target
    { agree := obsAgree mObs implObs && (match bare with | some b => obsAgree mObs b | none => true)
      holds := checkC10 ct s target implObs &&
        (match bare with | some b => checkC10 ct s target b | none => true)
      modelHolds := checkC10 ct s target mObs
      model := mObs
      tag := match ctorErr s with
        | some e => s!"{specHead s}:ctor-{e.cls}"
        | none => s!"{tagHow}{specHead s}:{verdictTag (denote ct s target).1}" }

def stepObsOfJson (j : Json) : Except String StepObs :=
  match j with
  | .null => .ok .bound
  | _ => do return .obs (← obsOfJson j)

def stepObsToJson : StepObs → Json
  | .bound => .null
  | .obs o => obsToJson o

def stepObsAgree : StepObs → StepObs → Bool
  | .bound, .bound => true
  | .obs a, .obs b => obsAgree a b
  | _, _ => false

/-- the inlined definition of every `bind` step, in order -/
def inlinedDefs : List Step → List OpExpr → List OpExpr
  | [], defs => defs
  | .bind e :: rest, defs => inlinedDefs rest (defs ++ [e.subst (defAt defs)])
  | .eval .. :: rest, defs => inlinedDefs rest defs

/-- a program over spec objects: sub-trees bound to names, evaluated, used as operands of
    & | ~, the results evaluated, extended again … -/
def runProgCase (j : Json) (pj : Json) : Except String Json := do
  let steps ← (← arrOf pj).mapM stepOfJson
  if !progWF steps 0 then throw "prog: a step names an object that is not bound yet"
  let defs := inlinedDefs steps []
  if defs.any hasTOperand then
    return Json.mkObj [("skip", true), ("why", "T expression as an operand of & | ~ (recorded by TType: C02)")]
  if defs.any opsOutside then
    return Json.mkObj [("skip", true), ("why", "operator applied to plain Python values only")]
  let implJs ← arrOf (← j.getObjVal? "impl_steps")
  let impl ← implJs.mapM stepObsOfJson
  for st in steps do
    match st with
    | .bind e => for s in e.leaves do checkNames genEnv.cls s []
    | .eval _ t => checkNames genEnv.cls .mtype [t]
  let ct := genEnv.cls
  let model := runProg genEnv steps []
  let agree := model.length == impl.length && (model.zip impl).all (fun p => stepObsAgree p.1 p.2)
  -- "returning the target": every evaluation of an object whose definition is a `selfP` tree
  let sameAll := ((steps.zip implJs).all (fun p => match p.1 with
    | .eval i _ => subjectSame (.ops (defAt defs i)) p.2
    | _ => true))
  let holds := checkProg ct steps [] impl && sameAll
  -- the first statement at which the property fails: the shortest prefix that does not check
  let firstBad := (List.range (steps.length + 1)).find? (fun n =>
    n ≤ impl.length && !checkProg ct (steps.take n) [] (impl.take n))
  let tag := match (steps.zip model).getLast? with
    | some (.eval i t, .obs _) =>
      (match build expectedBoolOps false (defAt defs i) with
       | .error x => s!"ctor-{x.cls}"
       | .ok s => s!"{specHead s}:{verdictTag (denote ct s t).1}")
    | some (_, .obs (.ctor c)) => s!"ctor-{c}"
    | _ => "bound"
  return Json.mkObj [("agree", agree), ("holds", holds),
    ("model", Json.arr (model.map stepObsToJson).toArray),
    ("branch", Json.str ("prog-" ++ tag)),
    ("first_failing_step", match (if holds then none else firstBad) with
      | some n => toJson (n - 1) | none => Json.null),
    ("wf", WF genEnv), ("model_holds", checkProg ct steps [] model)]

def run (j : Json) : Except String Json := do
  if let .ok pj := j.getObjVal? "prog" then
    if pj != Json.null then return ← runProgCase j pj
  let sub ← (do
    if let .ok oj := j.getObjVal? "ops" then
      if oj != Json.null then return Subject.ops (← opsOfJson oj)
    return Subject.spec (← specOfJson (← j.getObjVal? "spec")) : Except String Subject)
  -- the spec object that is used is a copy of the one that was built: the MODEL runs the copy as
  -- the marker table says it comes out, the PROPERTY is judged against the spec as written
  let how : String := match j.getObjValAs? String "copy_used" with | .ok h => h | .error _ => "none"
  -- the class table of this case: the declared user classes on top of the generated rows
  let env := genEnv.withCls (worldRows genEnv.cls (← worldOfJson j))
  if let .ops e := sub then
    if hasTOperand e then
      return Json.mkObj [("skip", true), ("why", "T expression as an operand of & | ~ (recorded by TType: C02)")]
    if opsOutside e then
      return Json.mkObj [("skip", true), ("why", "operator applied to plain Python values only")]
  let subSpecs : List Spec := match sub with
    | .spec s => [s]
    | .ops e => opLeaves e
  -- the same spec OBJECT evaluated on several targets, one call after the other: every call
  -- must decide its own target as if it were the only one (per-target reference)
  if let .ok (.arr ts) := j.getObjVal? "targets" then
    let targets ← ts.toList.mapM vOfJson
    if targets.isEmpty then throw "empty list of targets"
    for s in subSpecs do checkNames env.cls s targets
    let obsJs ← arrOf (← j.getObjVal? "impl_seq")
    let obss ← obsJs.mapM obsOfJson
    if obss.length != targets.length then
      -- only a constructor error may stand for the whole sequence
      match obss, targets with
      | [.ctor c], t :: _ =>
        let r := judge env how sub t (.ctor c) none
        return Json.mkObj [("agree", r.agree), ("holds", r.holds), ("model", obsToJson r.model),
          ("branch", Json.str ("seq-" ++ r.tag)), ("wf", WF genEnv), ("model_holds", r.modelHolds)]
      | _, _ => throw "impl_seq does not match targets (one observation per call)"
    let rs := ((targets.zip obss).zip obsJs).map (fun p =>
      let r := judge env how sub p.1.1 p.1.2 none
      { r with holds := r.holds && subjectSame sub p.2 })
    let firstBad := (rs.zipIdx.find? (fun p => !p.1.holds)).map (·.2)
    return Json.mkObj [("agree", rs.all (·.agree)), ("holds", rs.all (·.holds)),
      ("model", Json.arr (rs.map (fun r => obsToJson r.model)).toArray),
      ("branch", Json.str ("seq-" ++ (match rs.getLast? with | some r => r.tag | none => "empty"))),
      ("first_failing_call", match firstBad with | some i => toJson i | none => Json.null),
      ("wf", WF genEnv), ("model_holds", rs.all (·.modelHolds))]
  let target ← vOfJson (← j.getObjVal? "target")
  for s in subSpecs do checkNames env.cls s [target]
  let implJ ← j.getObjVal? "impl"
  let implObs ← obsOfJson implJ
  let bare ← optField j "impl_bare" obsOfJson
  let r := judge env how sub target implObs bare
  let same := subjectSame sub implJ &&
    (match j.getObjVal? "impl_bare" with | .ok bj => bj == Json.null || subjectSame sub bj | .error _ => true)
  return Json.mkObj [("agree", r.agree), ("holds", r.holds && same), ("model", obsToJson r.model),
    ("branch", r.tag), ("wf", WF genEnv), ("model_holds", r.modelHolds), ("same_ok", same)]

end Glom.C10.Driver
