import Lean.Data.Json
import Glom.Model.Frames
import Glom.Generated.ExcFacts
/-
  JSON codec for the interpreter model's values and specs, and the executable
  instantiation of `Prims` (Python's part: equality, truthiness, isinstance,
  iteration, segment access, simple T-expressions, the catalogue of callables).
  The catalogue is mirrored by harness/interp_common.py; both sides are run on
  every generated argument by the correspondence.
-/
namespace Glom.Interp.Codec
open Lean Glom.Interp

partial def vOfJson (j : Json) : Except String V :=
  match j with
  | .null => .ok .none
  | .obj _ =>
    if let .ok b := j.getObjValAs? Bool "b" then .ok (.bool b)
    else if let .ok i := j.getObjValAs? Int "i" then .ok (.int i)
    else if let .ok s := j.getObjValAs? String "s" then .ok (.str s)
    else if let .ok s := j.getObjValAs? String "sent" then
      (if s == "SKIP" then .ok .skip else if s == "STOP" then .ok .stop else .error s!"bad sentinel {s}")
    else if let .ok (.arr a) := j.getObjVal? "l" then do return .list (← a.toList.mapM vOfJson)
    else if let .ok (.arr a) := j.getObjVal? "t" then do return .tuple (← a.toList.mapM vOfJson)
    else if let .ok (.arr a) := j.getObjVal? "set" then do return .set false (← a.toList.mapM vOfJson)
    else if let .ok (.arr a) := j.getObjVal? "fs" then do return .set true (← a.toList.mapM vOfJson)
    else if let .ok (.arr a) := j.getObjVal? "d" then do return .dict false (← a.toList.mapM pair)
    else if let .ok (.arr a) := j.getObjVal? "od" then do return .dict true (← a.toList.mapM pair)
    else if let .ok (.arr #[.str n, .str k]) := j.getObjVal? "fn" then .ok (.fn n k)
    else if let .ok s := j.getObjValAs? String "ty" then .ok (.ty s)
    else if let .ok n := j.getObjValAs? Nat "vars" then .ok (.vars n)
    else if let .ok (_ : Nat) := j.getObjValAs? Nat "gen" then .ok (.stream [])
    else if let .ok k := j.getObjValAs? String "specobj" then .ok (.specobj k)
    else .error s!"bad V {j.compress}"
  | _ => .error s!"bad V {j.compress}"
where
  pair (e : Json) : Except String (V × V) :=
    match e with
    | .arr #[k, v] => do return (← vOfJson k, ← vOfJson v)
    | _ => .error s!"bad pair {e.compress}"

partial def vToJson : V → Json
  | .none => .null
  | .bool b => Json.mkObj [("b", b)]
  | .int i => Json.mkObj [("i", toJson i)]
  | .str s => Json.mkObj [("s", s)]
  | .skip => Json.mkObj [("sent", "SKIP")]
  | .stop => Json.mkObj [("sent", "STOP")]
  | .list xs => Json.mkObj [("l", Json.arr (xs.map vToJson).toArray)]
  | .tuple xs => Json.mkObj [("t", Json.arr (xs.map vToJson).toArray)]
  | .set false xs => Json.mkObj [("set", Json.arr (xs.map vToJson).toArray)]
  | .set true xs => Json.mkObj [("fs", Json.arr (xs.map vToJson).toArray)]
  | .dict false es => Json.mkObj [("d", Json.arr (es.map (fun e => Json.arr #[vToJson e.1, vToJson e.2])).toArray)]
  | .dict true es => Json.mkObj [("od", Json.arr (es.map (fun e => Json.arr #[vToJson e.1, vToJson e.2])).toArray)]
  | .fn n k => Json.mkObj [("fn", Json.arr #[Json.str n, Json.str k])]
  | .ty s => Json.mkObj [("ty", s)]
  | .vars n => Json.mkObj [("vars", n)]
  | .stream _ => Json.mkObj [("gen", (0 : Nat))]   -- an unconsumed generator: opaque on both sides
  | .specobj k => Json.mkObj [("specobj", k)]

def arr (j : Json) (k : String) : Except String (List Json) :=
  match j.getObjVal? k with
  | .ok (.arr a) => .ok a.toList
  | _ => .error s!"expected array field {k} in {j.compress}"

def optField (j : Json) (k : String) : Option Json :=
  match j.getObjVal? k with
  | .ok .null => none
  | .ok v => some v
  | .error _ => none

partial def specOfJson (j : Json) : Except String Spec := do
  let k ← j.getObjValAs? String "k"
  let sub (f : String) : Except String Spec := do specOfJson (← j.getObjVal? f)
  let subs (f : String) : Except String (List Spec) := do (← arr j f).mapM specOfJson
  let optSub (f : String) : Except String (Option Spec) :=
    match optField j f with
    | some v => do return some (← specOfJson v)
    | none => pure none
  let kws (f : String) : Except String (List (String × Spec)) := do
    (← arr j f).mapM (fun e => match e with
      | .arr #[.str n, v] => do return (n, ← specOfJson v)
      | _ => throw s!"bad kw {e.compress}")
  let kvs (f : String) : Except String (List (String × V)) := do
    (← arr j f).mapM (fun e => match e with
      | .arr #[.str n, v] => do return (n, ← vOfJson v)
      | _ => throw s!"bad kv {e.compress}")
  let pairs (f : String) : Except String (List (Spec × Spec)) := do
    (← arr j f).mapM (fun e => match e with
      | .arr #[a, b] => do return (← specOfJson a, ← specOfJson b)
      | _ => throw s!"bad pair {e.compress}")
  let steps (f : String) : Except String (List (String × V)) := do
    (← arr j f).mapM (fun e => match e with
      | .arr #[.str op, v] => do return (op, ← vOfJson v)
      | _ => throw s!"bad step {e.compress}")
  let str (f : String) : Except String String := j.getObjValAs? String f
  -- an optional flag of the *input*: absent / null = false, anything but a Bool is an error
  let optBool (f : String) : Except String Bool := match optField j f with
    | none => pure false
    | some (.bool b) => pure b
    | some o => throw s!"bad flag {f}: {o.compress}"
  match k with
  | "str" => return .str (← str "s")
  | "lit" =>
    match ← vOfJson (← j.getObjVal? "v") with
    | .str s => return .str s          -- a Python str is a str, however it was spelled in the case
    | v => return .lit v
  | "tuple" => return .tuple (← subs "xs")
  | "list" => return .list (← subs "xs")
  | "dict" => return .dict false (← pairs "es")
  | "odict" => return .dict true (← pairs "es")
  | "set" => return .set false (← subs "xs")
  | "fset" => return .set true (← subs "xs")
  | "fn" => return .fn (← str "name") (← str "kind")
  | "ty" => return .ty (← str "name")
  | "t" => return .t (← steps "steps")
  | "sRead" => return .sRead (← str "name") (← steps "steps")
  | "sGlobRead" => return .sGlobRead (← str "name")
  | "sVarRead" => return .sVarRead (← str "var") (← str "name")
  | "sBind" => return .sBind (← kws "bs")
  | "aBind" => return .aBind (← str "name")
  | "aGlob" => return .aGlob (← str "name")
  | "aVar" => return .aVar (← str "var") (← str "name")
  | "pipe" => return .pipe (← subs "xs")
  | "val" => return .val (← vOfJson (← j.getObjVal? "v"))
  | "specW" => return .specW (← sub "s") (← kvs "scope")
  | "coalesce" =>
    let sk : Skip ← (match optField j "skip" with
      | none => pure Skip.never
      | some s => do
        let sk ← s.getObjValAs? String "k"
        match sk with
        | "pred" => return Skip.pred (← s.getObjValAs? String "name") (← s.getObjValAs? String "kind")
        | "anyOf" => do
          match s.getObjVal? "vs" with
          | .ok (.arr a) => return Skip.anyOf (← a.toList.mapM vOfJson)
          | _ => throw "bad anyOf"
        | "eq" => return Skip.eq (← vOfJson (← s.getObjVal? "v"))
        | _ => throw s!"bad skip {s.compress}")
    let fac : Option (String × String) := match optField j "dflt_factory" with
      | some (.arr #[.str n, .str kd]) => some (n, kd)
      | _ => none
    let se ← (do (← arr j "skip_exc").mapM (fun e => match e with
      | .str s => pure s | _ => throw "bad skip_exc") : Except String (List String))
    return .coalesce (← subs "subs") (← optSub "dflt") fac sk se
  | "call" => return .call (← sub "func") (← sub "args") (← sub "kwargs")
  | "invoke" =>
    let blocks ← (← arr j "blocks").mapM (fun b => do
      let op ← b.getObjValAs? String "op"
      let pos ← (← arr b "pos").mapM specOfJson
      let kw ← (← arr b "kw").mapM (fun e => match e with
        | .arr #[.str n, v] => do return (n, ← specOfJson v)
        | _ => throw s!"bad kw {e.compress}")
      return (op, pos, kw))
    return .invoke (← sub "func") (← j.getObjValAs? Bool "func_is_spec") blocks
  | "ref" => return .ref (← str "name") (← optSub "sub")
  | "vars" =>
    -- ScopeVars(base, defaults): dict(base) updated with the keyword defaults
    let base ← (match optField j "base" with
      | some _ => kvs "base"
      | none => pure [])
    let dfl ← kvs "defaults"
    return .vars (base.filter (fun b => !(dfl.any (·.1 == b.1))) ++ dfl)
  | "let" => return .letB (← kws "bs")
  | "auto" => return .auto (← sub "s")
  | "fill" => return .fill (← sub "s")
  | "match" => return .mtch (← sub "s") (← optSub "dflt")
  | "group" => return .group (← sub "s")
  | "and" => return .and (← subs "cs") (← optSub "dflt")
  | "or" => return .or (← subs "cs") (← optSub "dflt")
  | "not" => return .not (← sub "c")
  | "switch" => return .switch (← pairs "cases") (← optSub "dflt")
  | "probe" => return .probe (← j.getObjValAs? Nat "id")
  | "iter" => return .iter (← sub "s") (← optBool "map")
  | "optKey" => return .optKey (← vOfJson (← j.getObjVal? "v"))
  | "reqKey" => return .reqKey (← sub "s")
  | "reenter" => return .reenter (← optBool "via_spec") (← sub "s")
  | "rprobe" => return .rprobe (← j.getObjValAs? Nat "id") (← sub "s")
  | "inspect" =>
    -- Inspect(s, echo=…, recursive=…, breakpoint=bp, post_mortem=pm): what is echoed is not observed;
    -- `recursive` only matters together with a callback (every nested evaluation would call it)
    let cb (f : String) : Except String (Option (String × String)) := match optField j f with
      | some (.arr #[.str n, .str kd]) => pure (some (n, kd))
      | some o => throw s!"bad callback {o.compress}"
      | none => pure none
    let bp ← cb "bp"
    let pm ← cb "pm"
    if (← optBool "recursive") && (bp.isSome || pm.isSome) then
      throw "Inspect(recursive=True) with callbacks is not modelled"
    return .inspect (← sub "s") bp pm
  | _ => throw s!"unknown spec kind {k}"

/-! ### Python's part, executable -/

partial def veq : V → V → Bool
  | .none, .none => true
  | .bool a, .bool b => a == b
  | .bool a, .int b => (if a then 1 else 0) == b
  | .int a, .bool b => a == (if b then 1 else 0)
  | .int a, .int b => a == b
  | .str a, .str b => a == b
  | .skip, .skip => true
  | .stop, .stop => true
  | .list a, .list b => a.length == b.length && (a.zip b).all (fun p => veq p.1 p.2)
  | .tuple a, .tuple b => a.length == b.length && (a.zip b).all (fun p => veq p.1 p.2)
  | .dict oa a, .dict ob b =>
    if oa && ob then a.length == b.length && (a.zip b).all (fun p => veq p.1.1 p.2.1 && veq p.1.2 p.2.2)
    else a.length == b.length && a.all (fun e => b.any (fun f => veq e.1 f.1 && veq e.2 f.2))
  | .set _ a, .set _ b => a.length == b.length && a.all (fun x => b.any (veq x))
  | .fn a _, .fn b _ => a == b
  | .ty a, .ty b => a == b
  | .vars a, .vars b => a == b
  | _, _ => false

def truthy : V → Bool
  | .none => false
  | .skip | .stop => false          -- boltons sentinels are falsy
  | .bool b => b
  | .int i => i != 0
  | .str s => !s.isEmpty
  | .list xs | .tuple xs | .set _ xs => !xs.isEmpty
  | .dict _ es => !es.isEmpty
  | _ => true

partial def hashable : V → Bool
  | .list _ | .dict .. | .set false _ => false
  | .tuple xs | .set true xs => xs.all hashable
  | _ => true

def typeName : V → String
  | .none => "NoneType" | .bool _ => "bool" | .int _ => "int" | .str _ => "str"
  | .skip | .stop => "Sentinel" | .list _ => "list" | .tuple _ => "tuple"
  | .dict false _ => "dict" | .dict true _ => "OrderedDict"
  | .set false _ => "set" | .set true _ => "frozenset"
  | .fn .. => "function" | .ty _ => "type" | .vars _ => "ScopeVars" | .stream _ => "generator"
  | .specobj k => k

def isinstance (v : V) (n : String) : Bool :=
  n == "object" || typeName v == n ||
  (match v, n with
   | .bool _, "int" => true
   | .dict true _, "dict" => true
   | _, _ => false)

def e (c : String) : Err := ⟨c⟩

/-- an object of the spec handed on as it is: what it holds is not part of the model -/
def isOpaque : V → Bool
  | .specobj _ => true
  | _ => false

def iterate : V → Except Err (List V)
  | .specobj _ => .error (e "Unsupported")
  | .list xs | .tuple xs | .stream xs => .ok xs
  -- the iteration order of a set with several elements is CPython's business: outside the modelled domain
  | .set _ xs => if xs.length ≤ 1 then .ok xs else .error (e "Unsupported")
  | .dict _ es => .ok (es.map (·.1))
  | _ => .error (e "UnregisteredTarget")

def intOfStr (s : String) : Option Int :=
  let cs := s.toList
  let (neg, ds) := match cs with
    | '-' :: r => (true, r) | '+' :: r => (false, r) | r => (false, r)
  if ds.isEmpty || !ds.all Char.isDigit then none
  else
    let n : Nat := ds.foldl (fun acc c => acc * 10 + (c.toNat - '0'.toNat)) 0
    some (if neg then - (n : Int) else n)

def seqIndex (xs : List V) (i : Int) : Option V :=
  let n : Int := xs.length
  let j := if i < 0 then i + n else i
  if j < 0 then none else xs[j.toNat]?

def getSeg (cur : V) (seg : String) : Except Err V :=
  match cur with
  | .specobj _ => .error (e "Unsupported")
  | .dict _ es => match es.find? (fun p => veq p.1 (.str seg)) with
    | some (_, v) => .ok v
    | none => .error (e "KeyError")
  | .list xs | .tuple xs => match intOfStr seg with
    | some i => match seqIndex xs i with
      | some v => .ok v
      | none => .error (e "IndexError")
    | none => .error (e "ValueError")
  | _ => .error (e "AttributeError")

def asInt : V → Option Int
  | .int i => some i
  | .bool b => some (if b then 1 else 0)
  | _ => none

/-- one T step with a literal argument; any failure is a PathAccessError -/
def tStep (cur : V) (op : String) (arg : V) : Option V :=
  match op with
  | "[" =>
    match cur with
    | .dict _ es => if hashable arg then (es.find? (fun p => veq p.1 arg)).map (·.2) else none
    | .list xs | .tuple xs => (asInt arg).bind (seqIndex xs)
    | .str s => (asInt arg).bind (seqIndex (s.toList.map (fun c => V.str (String.singleton c))))
    | _ => none
  | "+" => match cur, arg with
    | .list a, .list b => some (.list (a ++ b))
    | .tuple a, .tuple b => some (.tuple (a ++ b))
    | .str a, .str b => some (.str (a ++ b))
    | a, b => match asInt a, asInt b with
      | some x, some y => some (.int (x + y))
      | _, _ => none
  | "-" => match asInt cur, asInt arg with
    | some x, some y => some (.int (x - y))
    | _, _ => none
  | "*" => match cur, asInt arg with
    | .list xs, some n => some (.list ((List.replicate n.toNat xs).flatten))
    | .tuple xs, some n => some (.tuple ((List.replicate n.toNat xs).flatten))
    | .str s, some n => some (.str (String.join (List.replicate n.toNat s)))
    | c, some y => (asInt c).map (fun x => .int (x * y))
    | _, _ => none
  | "%" => match asInt cur, asInt arg with
    | some x, some y => if y == 0 then none else some (.int (Int.fmod x y))
    | _, _ => none
  | _ => none

def tEval (steps : List (String × V)) (v : V) : Except Err V :=
  if isOpaque v && !steps.isEmpty then .error (e "Unsupported") else
  match steps.foldlM (fun cur s => tStep cur s.1 s.2) v with
  | some r => .ok r
  | none => .error (e "PathAccessError")

def applyFn (kind : String) (args : List V) (kwargs : List (String × V)) : Except Err V :=
  if args.any isOpaque && !(["pack", "id", "wrap", "const7", "raise_ve", "raise_glom", "raise_multiline"].contains kind) then
    .error (e "Unsupported") else
  match kind, args with
  | "pack", as =>
    let kws := (kwargs.toArray.qsort (fun a b => a.1 < b.1)).toList
    .ok (.tuple [.tuple as, .list (kws.map (fun kv => .tuple [.str kv.1, kv.2]))])
  | "mk_list", [] => .ok (.list [])
  | "mk_zero", [] => .ok (.int 0)
  | "raise_ve", _ => .error (e "ValueError")
  | "raise_multiline", _ => .error (e "ValueError")
  | "nested_glom_fail", _ => .error (e "PathAccessError")
  | "raise_glom", _ => .error (e "GlomError")
  | "id", [v] => .ok v
  | "const7", [_] => .ok (.int 7)
  | "inc", [v] => match asInt v with
    | some i => .ok (.int (i + 1))
    | none => .error (e "TypeError")
  | "neg", [v] => match asInt v with
    | some i => .ok (.int (-i))
    | none => .error (e "TypeError")
  | "len", [v] => match v with
    | .list xs | .tuple xs | .set _ xs => .ok (.int xs.length)
    | .dict _ es => .ok (.int es.length)
    | .str s => .ok (.int s.length)
    | _ => .error (e "TypeError")
  | "skip_if_odd", [v] => match asInt v with
    | some i => if i % 2 != 0 then .ok .skip else .ok v
    | none => .ok v
  | "stop_if_neg", [v] => match asInt v with
    | some i => if i < 0 then .ok .stop else .ok v
    | none => .ok v
  | "stop_if_truthy", [v] => .ok (if truthy v then .stop else v)
  | "stop_if_falsy", [v] => .ok (if truthy v then v else .stop)
  | "skip_if_truthy", [v] => .ok (if truthy v then .skip else v)
  | "skip_if_falsy", [v] => .ok (if truthy v then v else .skip)
  | "wrap", [v] => .ok (.list [v])
  | "truthy", [v] => .ok (.bool (truthy v))
  | "is_none", [v] => .ok (.bool (match v with | .none => true | _ => false))
  | "is_int", [v] => .ok (.bool (match v with | .int _ | .bool _ => true | _ => false))
  | "first", [v] => match v with
    | .list (x :: _) | .tuple (x :: _) => .ok x
    | .list [] | .tuple [] => .error (e "IndexError")
    | .str s => if s.isEmpty then .error (e "IndexError") else .ok (.str (String.singleton (s.toList.head!)))
    | .dict _ es => match es.find? (fun p => veq p.1 (.int 0)) with
      | some (_, x) => .ok x
      | none => .error (e "KeyError")
    | _ => .error (e "TypeError")
  | _, _ => .error (e "TypeError")

/-- Python's own iteration protocol (`list(x)`): strings iterate over characters -/
def pyIter : V → Except Err (List V)
  | .str s => .ok (s.toList.map (fun c => V.str (String.singleton c)))
  | v => (iterate v).mapError (fun er => if er.cls == "Unsupported" then er else e "TypeError")

def applyTy (n : String) (v : V) : Except Err V :=
  if isOpaque v then .error (e "Unsupported") else
  match n with
  | "list" => (pyIter v).map V.list
  | "tuple" => (pyIter v).map V.tuple
  | "bool" => .ok (.bool (truthy v))
  | "int" => match v with
    | .int i => .ok (.int i)
    | .bool b => .ok (.int (if b then 1 else 0))
    | .str s => match intOfStr s with
      | some i => .ok (.int i)
      | none => .error (e "ValueError")
    | _ => .error (e "TypeError")
  | _ => .error (e "TypeError")

def isSub (c base : String) : Bool :=
  c == base ||
  (match Generated.excTable.find? (·.1 == c) with
   | some (_, m) => m.contains base
   | none => false)

def prims : Prims :=
  { eq := veq, truthy := truthy, hashable := hashable, isinstance := isinstance,
    iterate := iterate, getSeg := getSeg, tEval := tEval, applyFn := applyFn,
    applyTy := applyTy, isSub := isSub, typeName := typeName }

def modeName : Mode → String
  | .auto => "AUTO" | .fill => "FILL" | .mtch => "_glom_match" | .group => "GROUP"

def evToJson : Ev → Json
  | .call n as => Json.mkObj [("call", n), ("args", Json.arr (as.map vToJson).toArray)]
  | .probe id m => Json.mkObj [("probe", id), ("mode", modeName m)]
  | .read id (.ok v) => Json.mkObj [("read", id), ("ok", vToJson v)]
  | .read id (.error e) => Json.mkObj [("read", id), ("err", e.cls)]

end Glom.Interp.Codec
