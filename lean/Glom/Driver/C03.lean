import Glom.Driver.InterpRun
import Glom.Spec.C03
namespace Glom.C03.Driver
open Lean Glom.Interp Glom.Interp.Codec Glom.Interp.Run

def evOfJson (j : Json) : Except String Ev := do
  match j.getObjValAs? String "call" with
  | .ok n => do
    let as ← (← arr j "args").mapM vOfJson
    return .call n as
  | .error _ => throw s!"bad event {j.compress}"

structure LeafRow where
  pos : List Nat
  target : V
  out : Outcome

def outcomeOfJson (res : Json) (log : List Json) : Except String Outcome := do
  let r : Except Err V ← (match res.getObjVal? "ok" with
    | .ok v => do return .ok (← vOfJson v)
    | .error _ => do return .error ⟨← res.getObjValAs? String "err"⟩)
  return (r, ← log.mapM evOfJson)

def leafRowOfJson (j : Json) : Except String LeafRow := do
  let pos ← (← arr j "pos").mapM (fun x => x.getNat?)
  let target ← vOfJson (← j.getObjVal? "target")
  let out ← outcomeOfJson (← j.getObjVal? "res") (← arr j "log")
  return { pos, target, out }

def vText (v : V) : String := (vToJson (canonV v)).compress

def outcomeEq (a b : Outcome) : Bool :=
  (match a.1, b.1 with
   | .ok x, .ok y => vText x == vText y
   | .error x, .error y => x.cls == y.cls
   | _, _ => false) &&
  logText (a.2.map evToJson) == logText (b.2.map evToJson)

def tableLeaf (rows : List LeafRow) : LeafFn := fun pos _ t =>
  (rows.find? (fun r => r.pos == pos && vText r.target == vText t)).map (·.out)

/-- C03: `holds` = the independent composition checker (`checkC03`: the observed outcome of the
    whole spec equals the one recomputed, by the rules of the property text, from the separately
    observed outcomes of its leaves) ∧ the outcome is the code-shaped model's (for the constructs
    whose documented behaviour the model is: Call, Invoke, … — the leaves of the composition) -/
def run (j : Json) : Except String Json := do
  let c ← decode j
  let (mres, mlog) := runModel c
  if outOfDomain mres then
    return Json.mkObj [("skip", true), ("why", "outside the modelled domain")]
  let mlogJ := mlog.map evToJson
  let logAgree := logText mlogJ == logText c.implLog
  let agree := resEq mres c.implRes && logAgree
  let fuel := fuelFor c.spec
  let inDomain := scopeFreeF fuel c.spec && c.spec.isAutoContainer && c.scope.isEmpty
  let whole : Outcome ← outcomeOfJson (← j.getObjVal? "impl") c.implLog
  let (composeOK, tag) ← (match j.getObjVal? "impl_leaves" with
    | .ok (.arr a) => do
      if !inDomain then throw "impl_leaves given for a spec that is not a composition of observable sub-specs"
      let rows ← a.toList.mapM leafRowOfJson
      pure (checkC03 prims outcomeEq (tableLeaf rows) fuel c.spec c.target whole, "composed")
    | .ok .null => do
      let why ← j.getObjValAs? String "impl_leaves_why"
      if inDomain && !(why.startsWith "unencodable") then
        throw s!"no leaf observations for a composable spec: {why}"
      pure (true, if inDomain then "unobservable" else "leaf")
    | _ => throw "missing or malformed impl_leaves" : Except String (Bool × String))
  return Json.mkObj [("agree", agree), ("holds", composeOK && agree),
    ("why", if !composeOK then "the spec's outcome (value / exception / call log) differs from the one composed from the separately observed outcomes of its sub-specs"
            else if !agree then "result or call order differs from the compositional model" else ""),
    ("model", Json.mkObj [("res", resToJson mres), ("log", Json.arr mlogJ.toArray)]),
    ("branch", Json.str (s!"{tag}-" ++ (match mres with | .ok _ => "ok" | .error e => s!"err-{e}")))]

end Glom.C03.Driver
