import Lean.Data.Json
/- stub: the C03 driver is not built yet -/
namespace Glom.C03.Driver
open Lean

def run (_j : Json) : Except String Json := .error "property C03: driver not implemented yet"

end Glom.C03.Driver
