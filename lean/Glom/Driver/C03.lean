import Glom.Driver.InterpRun
namespace Glom.C03.Driver
open Lean Glom.Interp Glom.Interp.Codec Glom.Interp.Run

def run (j : Json) : Except String Json := do
  let c ← decode j
  let (mres, mlog) := runModel c
  if outOfDomain mres then
    return Json.mkObj [("skip", true), ("why", "outside the modelled domain")]
  let mlogJ := mlog.map evToJson
  let logAgree := logText mlogJ == logText c.implLog
  let agree := resEq mres c.implRes && logAgree
  -- the composition law re-evaluated on the implementation itself (harness: compose())
  let composeOK := (j.getObjValAs? Bool "impl_compose_ok").toOption.getD true
  return Json.mkObj [("agree", agree), ("holds", agree && composeOK),
    ("why", if !composeOK then "the spec's output differs from composing the outputs of its sub-specs"
            else if !agree then "result or call order differs from the compositional model" else ""),
    ("model", Json.mkObj [("res", resToJson mres), ("log", Json.arr mlogJ.toArray)]),
    ("branch", match mres with | .ok _ => "ok" | .error e => s!"err-{e}")]

end Glom.C03.Driver
