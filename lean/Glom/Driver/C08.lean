import Glom.Driver.InterpRun
import Glom.Spec.C08
namespace Glom.C08.Driver
open Lean Glom.Interp Glom.Interp.Codec Glom.Interp.Run

def modeOfName : String → Option Mode
  | "AUTO" => some .auto | "FILL" => some .fill | "_glom_match" => some .mtch | "GROUP" => some .group
  | _ => none

def implProbes (log : List Json) : Except String (List (Nat × Mode)) :=
  log.filterMapM (fun e => match e.getObjValAs? Nat "probe" with
    | .ok id => do
      let mn ← e.getObjValAs? String "mode"
      match modeOfName mn with
      | some m => return some (id, m)
      | none => throw s!"unknown mode {mn}"
    | .error _ => pure none)

/-! ### self-referential containers in argument position (cases with `"kind":"cyclic"`) -/

def gItemOfJson (j : Json) : Except String GItem :=
  match j.getObjValAs? Nat "ref" with
  | .ok i => pure (.ref i)
  | .error _ => do return .leaf (← specOfJson (← j.getObjVal? "leaf"))

def gNodeOfJson (j : Json) : Except String GNode := do
  let t ← j.getObjValAs? String "t"
  match t with
  | "list" => return ⟨.list, ← (← arr j "xs").mapM gItemOfJson⟩
  | "tuple" => return ⟨.tuple, ← (← arr j "xs").mapM gItemOfJson⟩
  | "dict" =>
    let es ← (← arr j "es").mapM (fun e => match e with
      | .arr #[k, v] => do return [← gItemOfJson k, ← gItemOfJson v]
      | _ => throw s!"bad graph entry {e.compress}")
    return ⟨.dict, es.flatten⟩
  | _ => throw s!"bad graph node {t}"

/-- canonical JSON of a rebuilt graph (the harness renders the implementation's result the same
    way): tuples structurally, whether rebuilt or part of a leaf value -/
partial def leafToJson : V → Json
  | .tuple xs => Json.mkObj [("tuple", Json.arr (xs.map leafToJson).toArray)]
  | v => Json.mkObj [("leaf", vToJson v)]

def pairUpJ : List Json → List Json
  | k :: v :: rest => Json.arr #[k, v] :: pairUpJ rest
  | _ => []

partial def gOutToJson : GOut → Json
  | .leaf v => leafToJson v
  | .ref n => Json.mkObj [("ref", n)]
  | .node false n xs => Json.mkObj [("list", n), ("xs", Json.arr (xs.map gOutToJson).toArray)]
  | .node true n xs => Json.mkObj [("dict", n), ("es", Json.arr (pairUpJ (xs.map gOutToJson)).toArray)]
  | .tuple xs => Json.mkObj [("tuple", Json.arr (xs.map gOutToJson).toArray)]

/-- a leaf in argument position: `arg_val(target, leaf, scope)` under the interpreter model -/
def evalLeaf (m : Mode) (target : V) (s : Spec) : Except Err V :=
  let (root, st0) := rootScope {} []
  (argVal (interp prims 64) target s (ScopeAlg.setMode root m) st0).2

def runCyclic (j : Json) : Except String Json := do
  let nodes ← (← arr j "nodes").mapM gNodeOfJson
  let root ← gItemOfJson (← j.getObjVal? "root")
  let targets ← (← arr j "targets").mapM vOfJson
  let impls ← arr j "impl_graphs"
  if impls.length != targets.length then throw "impl_graphs / targets length"
  -- the mode in force at the argument position: Match's default is evaluated in match mode, else
  -- the mode of the enclosing wrapper (a leaf such as Spec('id') is interpreted in that mode)
  let pos ← j.getObjValAs? String "pos"
  let wrap ← (match optField j "wrap" with
    | none => pure ""
    | some (.str w) => pure w
    | some o => throw s!"bad wrap {o.compress}")
  let m : Mode := if pos == "match_dflt" then .mtch else if wrap == "fill" then .fill else .auto
  let expected : List Json := targets.map (fun t =>
    match rebuild (evalLeaf m t) nodes root with
    | .ok g => Json.mkObj [("ok", gOutToJson g)]
    | .error e => Json.mkObj [("err", e.cls)])
  if expected.any (fun e => (e.getObjValAs? String "err").toOption.any (fun c => c == "Unsupported" || c == "OutOfFuel" || c == "BadGraph")) then
    return Json.mkObj [("skip", true), ("why", "outside the modelled domain")]
  -- the heap is in the domain of c08_rebuild_terminates (tuple-only reference paths acyclic)
  if !(tuplesForward nodes) then
    return Json.mkObj [("skip", true), ("why", "a tuple inside a tuple with a smaller index: not a constructible heap")]
  let same := (expected.zip impls).all (fun p => p.1.compress == p.2.compress)
  let fresh : FreshObs :=
    { noSpecObject := ← j.getObjValAs? Bool "impl_fresh",
      rerunSame := ← j.getObjValAs? Bool "impl_rerun_same" }
  return Json.mkObj [("agree", same), ("holds", same && checkFresh fresh),
    ("why", if !same then "a self-referential container in argument position was not reproduced with the same (cyclic) shape from the values of its leaves"
            else if !fresh.noSpecObject then "a node of the rebuilt graph is the spec's own object"
            else if !fresh.rerunSame then "the same spec evaluated again after the first result was mutated gave a different graph" else ""),
    ("model", Json.arr expected.toArray),
    ("branch", Json.str (s!"cyclic-nodes={nodes.length}" ++ (if expected.any (fun e => (e.getObjVal? "err").toOption.isSome) then "-err" else "-ok")))]

def run (j : Json) : Except String Json := do
  if (j.getObjValAs? String "kind").toOption == some "cyclic" then
    return ← runCyclic j
  let c ← decode j
  let fuel := fuelFor c.spec
  let (mres, mlog) := runModel c
  if outOfDomain mres then
    return Json.mkObj [("skip", true), ("why", "outside the modelled domain")]
  if !(noRefF fuel c.spec) then
    return Json.mkObj [("skip", true), ("why", "Ref(name) use: mode of the use site")]
  let mlogJ := mlog.map evToJson
  let logAgree := logText mlogJ == logText c.implLog
  let agree := resEq mres c.implRes && logAgree
  let probes ← implProbes c.implLog
  let modesOK := checkModes fuel c.spec probes
  -- … and the probes that recorded are the ones the reference evaluation reaches, in that order
  -- (`checkModes` alone is a membership test: recording nothing would pass it)
  let probesReached := (probesOf mlog).map (·.1) == probes.map (·.1)
  -- "embedded T/Spec-like objects are replaced by their values": a result the codec cannot
  -- encode (it still contains a T, Spec or other glom object) where the model yields a plain value
  let leaked := match c.implRes, mres with
    | .error e, .ok _ => e.startsWith "Unencodable"
    | _, _ => false
  let shapeOK := !leaked && (match c.implRes with
    | .ok v => fillShapeOK c.spec v
    | .error _ => true) &&
    -- plain objects at a position whose static mode is not AUTO, or in argument position (however deep
    -- below the wrapper: through Pipes, Specs, Coalesce branches, Switch cases, dict values …): the value
    -- is the one the static-mode reference computes from the current target
    (if modeSensitiveF (fuelFor c.spec) .auto false c.spec then resEq mres c.implRes else true)
  -- a lazily evaluated stream (Iter) is evaluated, whenever it is consumed, in the mode and scope of
  -- the site where it was written: the result is the one of the lexical model (c08_mode_lexical
  -- covers the model's probes; mode-sensitive literals inside the stream show in the result)
  let lazyOK := if hasIterF fuel c.spec then resEq mres c.implRes else true
  let mprobes := probesOf mlog
  -- identity of rebuilt containers (observed by the harness; absent fields = not observed)
  let fresh : FreshObs :=
    { noSpecObject := ← j.getObjValAs? Bool "impl_fresh",
      rerunSame := ← j.getObjValAs? Bool "impl_rerun_same" }
  return Json.mkObj [("agree", agree), ("holds", modesOK && probesReached && shapeOK && lazyOK && checkFresh fresh),
    ("why", if !modesOK then "a probe recorded a mode that is not the static mode of its position"
            else if !probesReached then "the probes that recorded are not the ones the evaluation reaches (a position was not evaluated, or evaluated twice)"
            else if !fresh.noSpecObject then "a container of the result (or an argument handed to a callable) is the spec's own object, not a rebuilt one"
            else if !fresh.rerunSame then "the same spec evaluated again after the first result was mutated gave a different result: evaluations share mutable state"
            else if !lazyOK then "a lazily evaluated stream (Iter) built under a mode wrapper was not evaluated in the mode of the place where it is written"
            else if !shapeOK then "a plain object under a Fill / Match / Group wrapper or in argument position was not interpreted in the static mode of its position (a container not rebuilt with the same shape from the values of its T/Spec leaves for the current target)" else ""),
    ("model", Json.mkObj [("res", resToJson mres), ("log", Json.arr mlogJ.toArray)]),
    ("static", Json.arr ((annotF fuel .auto c.spec).map (fun x => Json.arr #[toJson x.1, Json.str (modeName x.2)])).toArray),
    ("branch", Json.str (s!"probes={mprobes.length}" ++ (match mres with | .ok _ => "-ok" | .error e => s!"-err-{e}")))]

end Glom.C08.Driver
