import Lean.Data.Json
/- stub: the C08 driver is not built yet -/
namespace Glom.C08.Driver
open Lean

def run (_j : Json) : Except String Json := .error "property C08: driver not implemented yet"

end Glom.C08.Driver
