import Glom.Driver.InterpRun
import Glom.Spec.C08
namespace Glom.C08.Driver
open Lean Glom.Interp Glom.Interp.Codec Glom.Interp.Run

def modeOfName : String → Option Mode
  | "AUTO" => some .auto | "FILL" => some .fill | "_glom_match" => some .mtch | "GROUP" => some .group
  | _ => none

def implProbes (log : List Json) : Except String (List (Nat × Mode)) :=
  log.filterMapM (fun e => match e.getObjValAs? Nat "probe" with
    | .ok id => do
      let mn ← e.getObjValAs? String "mode"
      match modeOfName mn with
      | some m => return some (id, m)
      | none => throw s!"unknown mode {mn}"
    | .error _ => pure none)

def run (j : Json) : Except String Json := do
  let c ← decode j
  let fuel := fuelFor c.spec
  let (mres, mlog) := runModel c
  if outOfDomain mres then
    return Json.mkObj [("skip", true), ("why", "outside the modelled domain")]
  if !(noRefF fuel c.spec) then
    return Json.mkObj [("skip", true), ("why", "Ref(name) use: mode of the use site")]
  let mlogJ := mlog.map evToJson
  let logAgree := logText mlogJ == logText c.implLog
  let agree := resEq mres c.implRes && logAgree
  let probes ← implProbes c.implLog
  let modesOK := checkModes fuel c.spec probes
  -- "embedded T/Spec-like objects are replaced by their values": a result the codec cannot
  -- encode (it still contains a T, Spec or other glom object) where the model yields a plain value
  let leaked := match c.implRes, mres with
    | .error e, .ok _ => e.startsWith "Unencodable"
    | _, _ => false
  let shapeOK := !leaked && (match c.implRes with
    | .ok v => fillShapeOK c.spec v
    | .error _ => true) &&
    -- argument-position / Fill containers: the rebuilt value is the one computed from the current target
    (if hasArgContainer (fuelFor c.spec) c.spec then resEq mres c.implRes else true)
  let mprobes := probesOf mlog
  -- identity of rebuilt containers (observed by the harness; absent fields = not observed)
  let fresh : FreshObs :=
    { noSpecObject := (j.getObjValAs? Bool "impl_fresh").toOption.getD true,
      rerunSame := (j.getObjValAs? Bool "impl_rerun_same").toOption.getD true }
  return Json.mkObj [("agree", agree), ("holds", modesOK && shapeOK && checkFresh fresh),
    ("why", if !modesOK then "a probe recorded a mode that is not the static mode of its position"
            else if !fresh.noSpecObject then "a container of the result (or an argument handed to a callable) is the spec's own object, not a rebuilt one"
            else if !fresh.rerunSame then "the same spec evaluated again after the first result was mutated gave a different result: evaluations share mutable state"
            else if !shapeOK then "a Fill / argument-position container was not rebuilt with the same shape from the values of its T/Spec leaves for the current target" else ""),
    ("model", Json.mkObj [("res", resToJson mres), ("log", Json.arr mlogJ.toArray)]),
    ("static", Json.arr ((annotF fuel .auto c.spec).map (fun x => Json.arr #[toJson x.1, Json.str (modeName x.2)])).toArray),
    ("branch", Json.str (s!"probes={mprobes.length}" ++ (match mres with | .ok _ => "-ok" | .error e => s!"-err-{e}")))]

end Glom.C08.Driver
