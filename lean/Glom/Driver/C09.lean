import Lean.Data.Json
import Glom.Driver.C10
import Glom.Spec.C09
import Glom.Model.C09Env
/-
  C09 driver: one JSON case in, one JSON verdict out (codecs: Glom/Driver/C10.lean).

  case:  {"spec":Spec, "default":Arg|null, "target":V,
          "spec_built":Spec|null, "target_built":V|null,     -- set / frozenset members in the
                                                              -- iteration order CPython gave them
          "impl":Obs, "impl_verify":Obs, "impl_matches":bool|null, "impl_after":V}
         | {"spec":…, "default":…, "targets":[V…], "spec_built":…, "targets_built":[V…],
            "impl_seq":[Obs9…]}       -- one Match object, consecutive calls; Obs9 = {"main":Obs,"verify":Obs,
                                      --   "matches":bool|null,"after":V}  (or [{"ctor":cls}])
         | {"spec":…, "default":…, "hist":[HStep…], "spec_built":…, "hist_built":[HStep…],
            "impl_hist":[Obs9|null…]} -- one Match object; HStep: {"call":V} | {"register":[abc,class]}
         a case without a target, an empty "targets" / "hist", an observation list of another length
         than the calls: decode ERROR (never half-judged)
         every kind: optional "world":[[class,base]…] (user classes declared by the case),
                     optional "copy":"copy"|"deepcopy"|"pickle" (the Match object used is that copy;
                     "copy_used": the way of copying the harness actually applied)
-/
namespace Glom.C09.Driver
open Lean Glom Glom.MV Glom.C10 Glom.C10.Driver Glom.C09

def facts9 : Facts9 := genFacts9

def obs9Agree (a b : Obs9) : Bool :=
  obsAgree a.main b.main && obsAgree a.verify b.verify && a.matched == b.matched &&
  V.beq a.targetAfter b.targetAfter

def obs9ToJson (o : Obs9) : Json :=
  Json.mkObj [("main", obsToJson o.main), ("verify", obsToJson o.verify),
    ("matches", match o.matched with | some b => Json.bool b | none => Json.null),
    ("after", vToJson o.targetAfter)]

/-- `{"main":Obs,"verify":Obs,"matches":bool|null,"after":V}` -/
def obs9OfJson (j : Json) : Except String Obs9 := do
  let mt : Option Bool := match j.getObjVal? "matches" with
    | .ok (.bool b) => some b
    | _ => none
  return { main := ← obsOfJson (← j.getObjVal? "main"), verify := ← obsOfJson (← j.getObjVal? "verify"),
           matched := mt, targetAfter := ← vOfJson (← j.getObjVal? "after") }

def optObs9OfJson (j : Json) : Except String (Option Obs9) :=
  match j with
  | .null => .ok none
  | _ => do return some (← obs9OfJson j)

def optObs9ToJson : Option Obs9 → Json
  | none => .null
  | some o => obs9ToJson o

def optObs9Agree : Option Obs9 → Option Obs9 → Bool
  | none, none => true
  | some a, some b => obs9Agree a b
  | _, _ => false

def hstepOfJson (j : Json) : Except String HStep := do
  if let .ok t := j.getObjVal? "call" then return .call (← vOfJson t)
  else if let .ok (.arr #[.str a, .str k]) := j.getObjVal? "register" then return .register a k
  else throw s!"bad history step {j.compress}"

def optObsOfJson (j : Json) : Except String (Option Obs) :=
  match j with
  | .null => .ok none
  | _ => do return some (← obsOfJson j)

def optObsToJson : Option Obs → Json
  | none => .null
  | some o => obsToJson o

def optObsAgree : Option Obs → Option Obs → Bool
  | none, none => true
  | some a, some b => obsAgree a b
  | _, _ => false

def run (j : Json) : Except String Json := do
  let specJ ← (match j.getObjVal? "spec_built" with
    | .ok .null => j.getObjVal? "spec"
    | .ok s => pure s
    | .error _ => j.getObjVal? "spec")
  let p ← specOfJson specJ
  let d ← optField j "default" argOfJson
  -- the class table of this case: the declared user classes on top of the generated rows
  let ct := worldRows genEnv.cls (← worldOfJson j)
  let env := genEnv.withCls ct
  -- "returning the target": `Match(p)` without default over a `selfP` pattern returns the target OBJECT
  let sameOf := fun (oj : Json) => d.isSome ||
    ((match oj.getObjVal? "main" with | .ok m => sameOK p m | .error _ => true) &&
     (match oj.getObjVal? "verify" with | .ok m => sameOK p m | .error _ => true))
  -- the Match object that is used is a copy (copy.copy / copy.deepcopy / pickle round trip) of
  -- the one that was built: the MODEL runs the copy as the extracted marker table says it comes
  -- out, the PROPERTY is judged against the pattern as written (a copy decides like the original)
  let how : String := match j.getObjValAs? String "copy_used" with | .ok h => h | .error _ => "none"
  let ids := facts9.identity
  -- "pickle-inner": the pattern alone went through the pickle round trip, then `Match(…)` was built
  let pc := if how == "none" then p else if how == "pickle-inner" then copySpec ids "pickle" p
    else copySpec ids how p
  let dc := if how == "none" || how == "copy" || how == "pickle-inner" then d
    else copyDflt (markerKept ids "_MISSING" how) "_MISSING" d
  let wf := WF genEnv && WF9 genEnv facts9
  let tagHow := if how == "none" then "" else s!"{how}-"
  -- a history: the same Match OBJECT on several targets, `abc.register()` calls in between;
  -- every call is judged against the class table of its moment
  if let .ok (.arr hs) := j.getObjVal? "hist_built" then
    let steps ← hs.toList.mapM hstepOfJson
    if steps.isEmpty then throw "empty history"
    let implJ ← arrOf (← j.getObjVal? "impl_hist")
    match ctorErr p with
    | some e =>
      let ok := implJ.map Json.compress == [(Json.mkObj [("ctor", e.cls)]).compress]
      return Json.mkObj [("agree", ok), ("holds", ok), ("model", obsToJson (Obs.ctor e.cls)),
        ("branch", Json.str s!"hist-{tagHow}{specHead p}:ctor-{e.cls}"), ("wf", wf)]
    | none =>
      let obss ← implJ.mapM optObs9OfJson
      if obss.length != steps.length then throw "impl_hist does not match hist (one entry per step)"
      checkNames ct p (steps.filterMap (fun s => match s with | .call t => some t | _ => none))
      let model := obsHist env pc dc steps ct
      let agree := model.length == obss.length && (model.zip obss).all (fun q => optObs9Agree q.1 q.2)
      let holds := checkHist p d steps ct obss && implJ.all (fun oj => oj == Json.null || sameOf oj)
      let firstBad := (List.range (steps.length + 1)).find? (fun n =>
        n ≤ obss.length && !checkHist p d (steps.take n) ct (obss.take n))
      let nreg := (steps.filter (fun s => match s with | .register .. => true | _ => false)).length
      return Json.mkObj [("agree", agree), ("holds", holds),
        ("model", Json.arr (model.map optObs9ToJson).toArray),
        ("branch", Json.str s!"hist-{tagHow}{specHead p}:{if nreg > 0 then "register" else "calls"}"),
        ("first_failing_step", match (if holds then none else firstBad) with
          | some n => toJson (n - 1) | none => Json.null),
        ("model_holds", checkHist p d steps ct model), ("wf", wf)]
  -- the same Match OBJECT evaluated on several targets, one call after the other: every call
  -- must decide its own target as if it were the only one (per-target reference); each call is
  -- observed in full (glom, verify, matches, snapshot of the target afterwards)
  if let .ok (.arr ts) := j.getObjVal? "targets_built" then
    let targets ← ts.toList.mapM vOfJson
    if targets.isEmpty then throw "empty list of targets"
    let implJ ← arrOf (← j.getObjVal? "impl_seq")
    match ctorErr p with
    | some e =>
      let ok := implJ.map Json.compress == [(Json.mkObj [("ctor", e.cls)]).compress]
      return Json.mkObj [("agree", ok), ("holds", ok), ("model", obsToJson (Obs.ctor e.cls)),
        ("branch", Json.str s!"seq-{tagHow}{specHead p}:ctor-{e.cls}"), ("wf", wf)]
    | none =>
      let obss ← implJ.mapM obs9OfJson
      if obss.length != targets.length then throw "impl_seq does not match targets (one entry per call)"
      checkNames ct p targets
      let rs := ((targets.zip obss).zip implJ).map (fun q3 =>
        let q := q3.1
        let den := denote ct (.matchS p d) q.1
        let m := observe9 env pc dc q.1
        (checkC09 ct p d q.1 q.2 && sameOf q3.2, obs9Agree m q.2, m, verdictTag den.1))
      let firstBad := (rs.zipIdx.find? (fun r => !r.1.1)).map (·.2)
      return Json.mkObj [("agree", rs.all (·.2.1)), ("holds", rs.all (·.1)),
        ("model", Json.arr (rs.map (fun r => obs9ToJson r.2.2.1)).toArray),
        ("branch", Json.str s!"seq-{tagHow}{specHead p}:{match rs.getLast? with | some r => r.2.2.2 | none => "empty"}"),
        ("first_failing_call", match firstBad with | some i => toJson i | none => Json.null),
        ("wf", wf)]
  let targetJ ← (match j.getObjVal? "target_built" with
    | .ok .null => j.getObjVal? "target"
    | .ok s => pure s
    | .error _ => j.getObjVal? "target")
  let t ← vOfJson targetJ
  checkNames ct p [t]
  let mainJ ← j.getObjVal? "impl"
  let main ← obsOfJson mainJ
  match ctorErr p with
  | some e =>
    let m := Obs.ctor e.cls
    return Json.mkObj [("agree", m == main), ("holds", main == m), ("model", obsToJson m),
      ("branch", s!"{tagHow}{specHead p}:ctor-{e.cls}"), ("wf", wf)]
  | none =>
    let ver ← obsOfJson (← j.getObjVal? "impl_verify")
    let mt : Option Bool := match j.getObjVal? "impl_matches" with
      | .ok (.bool b) => some b
      | _ => none
    let after ← vOfJson (← j.getObjVal? "impl_after")
    let implObs : Obs9 := { main := main, verify := ver, matched := mt, targetAfter := after }
    let modelObs := observe9 env pc dc t
    let den := denote ct (.matchS p d) t
    let two := conforms ct p t || dfltOK d t
    let same := d.isSome || (sameOK p mainJ &&
      (match j.getObjVal? "impl_verify" with | .ok vj => sameOK p vj | .error _ => true))
    let holds := checkC09 ct p d t implObs && same
    let agree := obs9Agree modelObs implObs
    return Json.mkObj [("agree", agree), ("holds", holds),
      ("model", obs9ToJson modelObs), ("model_holds", checkC09 ct p d t modelObs),
      ("branch", s!"{tagHow}{specHead p}:{verdictTag den.1}"), ("conforms", two),
      ("wf", wf)]

end Glom.C09.Driver
