import Lean.Data.Json
import Glom.Driver.C10
import Glom.Spec.C09
import Glom.Model.C09Env
/-
  C09 driver: one JSON case in, one JSON verdict out (codecs: Glom/Driver/C10.lean).

  case:  {"spec":Spec, "default":Arg|null, "target":V,
          "spec_built":Spec|null, "target_built":V|null,     -- set / frozenset members in the
                                                              -- iteration order CPython gave them
          "impl":Obs, "impl_verify":Obs, "impl_matches":bool|null, "impl_after":V}
         | {"spec":…, "default":…, "targets":[V…], "spec_built":…, "targets_built":[V…],
            "impl_seq":[Obs…]}        -- one Match object, consecutive glom calls
-/
namespace Glom.C09.Driver
open Lean Glom Glom.MV Glom.C10 Glom.C10.Driver Glom.C09

def facts9 : Facts9 := genFacts9

def obs9Agree (a b : Obs9) : Bool :=
  obsAgree a.main b.main && obsAgree a.verify b.verify && a.matched == b.matched &&
  V.beq a.targetAfter b.targetAfter

def obs9ToJson (o : Obs9) : Json :=
  Json.mkObj [("main", obsToJson o.main), ("verify", obsToJson o.verify),
    ("matches", match o.matched with | some b => Json.bool b | none => Json.null),
    ("after", vToJson o.targetAfter)]

def run (j : Json) : Except String Json := do
  let specJ ← (match j.getObjVal? "spec_built" with
    | .ok .null => j.getObjVal? "spec"
    | .ok s => pure s
    | .error _ => j.getObjVal? "spec")
  let targetJ ← (match j.getObjVal? "target_built" with
    | .ok .null => (match j.getObjVal? "target" with | .ok v => pure v | .error _ => pure Json.null)
    | .ok s => pure s
    | .error _ => (match j.getObjVal? "target" with | .ok v => pure v | .error _ => pure Json.null))
  let p ← specOfJson specJ
  let d ← optField j "default" argOfJson
  -- the same Match OBJECT evaluated on several targets, one call after the other: every call
  -- must decide its own target as if it were the only one (per-target reference)
  if let .ok (.arr ts) := j.getObjVal? "targets_built" then
    let targets ← ts.toList.mapM vOfJson
    let obss ← (← arrOf (← j.getObjVal? "impl_seq")).mapM obsOfJson
    let ct := genEnv.cls
    match ctorErr p with
    | some e =>
      let ok := obss == [Obs.ctor e.cls]
      return Json.mkObj [("agree", ok), ("holds", ok), ("model", obsToJson (Obs.ctor e.cls)),
        ("branch", Json.str s!"seq-{specHead p}:ctor-{e.cls}"), ("wf", WF genEnv && WF9 genEnv facts9)]
    | none =>
      if obss.length != targets.length then throw "impl_seq does not match targets"
      let rs := (targets.zip obss).map (fun q =>
        let den := denote ct (.matchS p d) q.1
        let m := observe genEnv (matchGlom genEnv p d q.1)
        (obsSat den.1 den.2 q.2 &&
          (!(pureP p && d.isNone && wfV q.1) || (match q.2 with | .ok v _ => valEq v q.1 | _ => true)),
         obsAgree m q.2, m, verdictTag den.1))
      let firstBad := (rs.zipIdx.find? (fun r => !r.1.1)).map (·.2)
      return Json.mkObj [("agree", rs.all (·.2.1)), ("holds", rs.all (·.1)),
        ("model", Json.arr (rs.map (fun r => obsToJson r.2.2.1)).toArray),
        ("branch", Json.str s!"seq-{specHead p}:{match rs.getLast? with | some r => r.2.2.2 | none => "empty"}"),
        ("first_failing_call", match firstBad with | some i => toJson i | none => Json.null),
        ("wf", WF genEnv && WF9 genEnv facts9)]
  let t ← vOfJson targetJ
  let main ← obsOfJson (← j.getObjVal? "impl")
  let ct := genEnv.cls
  match ctorErr p with
  | some e =>
    let m := Obs.ctor e.cls
    return Json.mkObj [("agree", m == main), ("holds", main == m), ("model", obsToJson m),
      ("branch", s!"{specHead p}:ctor-{e.cls}"), ("wf", WF genEnv && WF9 genEnv facts9)]
  | none =>
    let ver ← obsOfJson (← j.getObjVal? "impl_verify")
    let mt : Option Bool := match j.getObjVal? "impl_matches" with
      | .ok (.bool b) => some b
      | _ => none
    let after ← vOfJson (← j.getObjVal? "impl_after")
    let implObs : Obs9 := { main := main, verify := ver, matched := mt, targetAfter := after }
    let modelObs := observe9 genEnv p d t
    let den := denote ct (.matchS p d) t
    let two := conforms ct p t || dfltOK d t
    let holds := checkC09 ct p d t implObs
    let agree := obs9Agree modelObs implObs
    return Json.mkObj [("agree", agree), ("holds", holds),
      ("model", obs9ToJson modelObs), ("model_holds", checkC09 ct p d t modelObs),
      ("branch", s!"{specHead p}:{verdictTag den.1}"), ("conforms", two),
      ("wf", WF genEnv && WF9 genEnv facts9)]

end Glom.C09.Driver
