import Lean.Data.Json
import Glom.Driver.C10
import Glom.Spec.C09
import Glom.Model.C09Env
/-
  C09 driver: one JSON case in, one JSON verdict out (codecs: Glom/Driver/C10.lean).

  case:  {"spec":Spec, "default":Arg|null, "target":V,
          "spec_built":Spec|null, "target_built":V|null,     -- set / frozenset members in the
                                                              -- iteration order CPython gave them
          "impl":Obs, "impl_verify":Obs, "impl_matches":bool|null, "impl_after":V}
-/
namespace Glom.C09.Driver
open Lean Glom Glom.MV Glom.C10 Glom.C10.Driver Glom.C09

def facts9 : Facts9 := genFacts9

def obs9Agree (a b : Obs9) : Bool :=
  obsAgree a.main b.main && obsAgree a.verify b.verify && a.matched == b.matched &&
  V.beq a.targetAfter b.targetAfter

def obs9ToJson (o : Obs9) : Json :=
  Json.mkObj [("main", obsToJson o.main), ("verify", obsToJson o.verify),
    ("matches", match o.matched with | some b => Json.bool b | none => Json.null),
    ("after", vToJson o.targetAfter)]

def run (j : Json) : Except String Json := do
  let specJ ← (match j.getObjVal? "spec_built" with
    | .ok .null => j.getObjVal? "spec"
    | .ok s => pure s
    | .error _ => j.getObjVal? "spec")
  let targetJ ← (match j.getObjVal? "target_built" with
    | .ok .null => j.getObjVal? "target"
    | .ok s => pure s
    | .error _ => j.getObjVal? "target")
  let p ← specOfJson specJ
  let t ← vOfJson targetJ
  let d ← optField j "default" argOfJson
  let main ← obsOfJson (← j.getObjVal? "impl")
  let ct := genEnv.cls
  match ctorErr p with
  | some e =>
    let m := Obs.ctor e.cls
    return Json.mkObj [("agree", m == main), ("holds", main == m), ("model", obsToJson m),
      ("branch", s!"{specHead p}:ctor-{e.cls}"), ("wf", WF genEnv && WF9 genEnv facts9)]
  | none =>
    let ver ← obsOfJson (← j.getObjVal? "impl_verify")
    let mt : Option Bool := match j.getObjVal? "impl_matches" with
      | .ok (.bool b) => some b
      | _ => none
    let after ← vOfJson (← j.getObjVal? "impl_after")
    let implObs : Obs9 := { main := main, verify := ver, matched := mt, targetAfter := after }
    let modelObs := observe9 genEnv p d t
    let den := denote ct (.matchS p d) t
    let two := conforms ct p t || dfltOK d t
    let holds := checkC09 ct p d t implObs
    let agree := obs9Agree modelObs implObs
    return Json.mkObj [("agree", agree), ("holds", holds),
      ("model", obs9ToJson modelObs), ("model_holds", checkC09 ct p d t modelObs),
      ("branch", s!"{specHead p}:{verdictTag den.1}"), ("conforms", two),
      ("wf", WF genEnv && WF9 genEnv facts9)]

end Glom.C09.Driver
