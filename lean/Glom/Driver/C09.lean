import Lean.Data.Json
/- stub: the C09 driver is not built yet -/
namespace Glom.C09.Driver
open Lean

def run (_j : Json) : Except String Json := .error "property C09: driver not implemented yet"

end Glom.C09.Driver
