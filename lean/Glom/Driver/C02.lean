import Glom.Py.PV
import Glom.Spec.C02
import Glom.Model.C02Env
import Glom.Model.C02Heap
/-
  C02 driver: one JSON case in, one JSON verdict out.

  case:  {"target": PV,
          "expr": E,      E ::= {"lit": PV} | {"T": [[dunder, E]…]} | {"Spec": E} | {"list": [E…]}
                               | {"tuple": [E…]} | {"dict": [[E, E]…]}
                               | {"call": {"args": [E…], "kwargs": [[name, E]…]}}
          "impl":   {"ok": PV} | {"pae": {"idx": n, "exc": cls, "glom": b}} | {"other": cls},
          "impl_alias": PATH | null,              -- where in the target the very result object sits
          "impl_after": PV,                       -- the target object after glom.glom(target, expr)
          "direct": {"ok": PV} | {"fail": {"k": n, "kind": name, "exc": cls}} | {"raised": cls},
          "direct_alias": PATH | null,
          "direct_after": PV }                    -- the target object after the chain applied directly
  PATH = {"l": [step…]}: the first access path (dict keys / indices / attribute names, depth-first
  in container order) from the target to the object that IS (identity) the result, when the
  result is a list / dict / attribute object; null when there is none.

  The target tree is allocated in a heap (every list / tuple / dict / object gets
  an address: no two paths of a decoded tree reach the same object, which is
  what the harness' `dec` builds); literals of the expression are spelled
  structurally (a literal list is what `arg_val` rebuilds member by member; a
  literal slice is one object allocated up front).  Observations are the
  *trees* values denote in the heap left behind, paired with the alias path of
  the value (`viewOf`): `glom(t, T['f'](T['l'])) is t['l']` is observable.

  `impl` is what glom.glom(target, expr) did; `direct` is what the same chain of
  operations did when the harness applied it to a fresh copy of the target with
  Python's own operators.  Three-way comparison:
    * `holds`  = checkC02's two conjuncts (outcome, target afterwards) on the implementation's
                 observation, against the reference outcome computed here in Lean with `hPrim`;
    * the Lean reference must equal Python's `direct` outcome and final target (this
      validates the kernel's primitives; if they differ Python's outcome is the reference
      and the case is reported as a disagreement);
    * `agree`  = the code-shaped model (`record` + `tEval` on the regenerated
                 tables) produces the implementation's observation and final target.
  Floats whose value the kernel does not reproduce (`float // x`, `x ** y` through libm) are the
  opaque float `{"f": "?"}` on the Lean side: the comparisons above are then modulo opaque floats
  (the class of every outcome and the position of every failure are still compared exactly), and
  `holds` is evaluated against CPython's own outcome.
-/
namespace Glom.C02.Driver
open Lean Glom Glom.C02

partial def exprOfJson (j : Json) : Except String (E PV) := do
  if let .ok v := j.getObjVal? "lit" then return .lit (← pvOfJson v)
  else if let .ok (.arr a) := j.getObjVal? "T" then
    return .texpr (← a.toList.mapM (fun s => match s with
      | .arr #[.str d, x] => do return (d, ← exprOfJson x)
      | _ => throw s!"bad step {s.compress}"))
  else if let .ok x := j.getObjVal? "Spec" then return .spec (← exprOfJson x)
  else if let .ok (.arr a) := j.getObjVal? "list" then return .list (← a.toList.mapM exprOfJson)
  else if let .ok (.arr a) := j.getObjVal? "tuple" then return .tuple (← a.toList.mapM exprOfJson)
  else if let .ok (.arr a) := j.getObjVal? "dict" then
    return .dict (← a.toList.mapM (fun s => match s with
      | .arr #[k, v] => do return (← exprOfJson k, ← exprOfJson v)
      | _ => throw s!"bad entry {s.compress}"))
  else if let .ok c := j.getObjVal? "call" then
    let args ← match c.getObjVal? "args" with
      | .ok (.arr a) => a.toList.mapM exprOfJson
      | _ => throw "bad call args"
    let kwargs ← match c.getObjVal? "kwargs" with
      | .ok (.arr a) => a.toList.mapM (fun s => match s with
        | .arr #[.str k, v] => do return (k, ← exprOfJson v)
        | _ => throw s!"bad kwarg {s.compress}")
      | _ => throw "bad call kwargs"
    return .cargs args kwargs
  else throw s!"bad expr {j.compress}"

/-- allocate a tree in the heap; `none`: a kind of value the heap instance does not model -/
partial def allocPV (p : PV) (s : HS) : Option (Val × HS) :=
  match ofScalarPV p with
  | some v => some (v, s)
  | none =>
    match p with
    | .list xs => do
      let (vs, s1) ← allocAll xs s
      return s1.alloc (.list "list" vs)
    | .tuple xs => do
      let (vs, s1) ← allocAll xs s
      return s1.alloc (.tuple "tuple" vs)
    | .dict es => do
      let (ks, s1) ← allocAll (es.map (·.1)) s
      let (vs, s2) ← allocAll (es.map (·.2)) s1
      return s2.alloc (.dict "dict" (ks.zip vs))
    | .obj c attrs => do
      let (vs, s1) ← allocAll (attrs.map (·.2)) s
      return s1.alloc (.inst c ((attrs.map (·.1)).zip vs))
    | _ => none
where
  allocAll (xs : List PV) (s : HS) : Option (List Val × HS) :=
    match xs with
    | [] => some ([], s)
    | x :: r => do
      let (v, s1) ← allocPV x s
      let (vs, s2) ← allocAll r s1
      return (v :: vs, s2)

/-- the expression over heap values: a literal list / tuple / dict is spelled structurally
    (`arg_val` rebuilds it on every evaluation), a literal slice is allocated once -/
partial def exprToHeap (e : E PV) (s : HS) : Option (E Val × HS) :=
  match e with
  | .lit p =>
    match ofScalarPV p with
    | some v => some (.lit v, s)
    | none =>
      match p with
      | .list xs => exprToHeap (.list (xs.map .lit)) s
      | .tuple xs => exprToHeap (.tuple (xs.map .lit)) s
      | .dict es => exprToHeap (.dict (es.map (fun kv => (.lit kv.1, .lit kv.2)))) s
      | .obj "slice" _ => (allocPV p s).map (fun r => (.lit r.1, r.2))
      | _ => none
  | .texpr steps => do
    let (as, s1) ← many (steps.map (·.2)) s
    return (.texpr ((steps.map (·.1)).zip as), s1)
  | .spec x => do
    let (x', s1) ← exprToHeap x s
    return (.spec x', s1)
  | .list xs => do
    let (ys, s1) ← many xs s
    return (.list ys, s1)
  | .tuple xs => do
    let (ys, s1) ← many xs s
    return (.tuple ys, s1)
  | .dict es => do
    let (ks, s1) ← many (es.map (·.1)) s
    let (vs, s2) ← many (es.map (·.2)) s1
    return (.dict (ks.zip vs), s2)
  | .cargs args kwargs => do
    let (as, s1) ← many args s
    let (ks, s2) ← many (kwargs.map (·.2)) s1
    return (.cargs as ((kwargs.map (·.1)).zip ks), s2)
where
  many (xs : List (E PV)) (s : HS) : Option (List (E Val) × HS) :=
    match xs with
    | [] => some ([], s)
    | x :: r => do
      let (y, s1) ← exprToHeap x s
      let (ys, s2) ← many r s1
      return (y :: ys, s2)

/-- what an observer sees of a value: the tree it denotes, and — for a list / dict /
    attribute object — the first path by which the target reaches that very object -/
abbrev W := Option PV × Option PV

def isMutCell : HObj → Bool
  | .list .. | .dict .. => true
  | .inst c _ => c != "<bound>" && c != "slice"
  | _ => false

def firstSome {α β} (f : α → Option β) : List α → Option β
  | [] => none
  | x :: r => match f x with
    | some y => some y
    | none => firstSome f r

/-- depth-first, container order, the first path from `v` to the cell `goal` -/
def findPath (h : Heap) (goal : Nat) : Nat → Val → Option (List PV)
  | 0, _ => none
  | fuel + 1, .ref a =>
    if a == goal then some []
    else match h[a]? with
      | some (.list _ xs) | some (.tuple _ xs) =>
        firstSome (fun (ix : Nat × Val) => (findPath h goal fuel ix.2).map (PV.int ix.1 :: ·))
          ((List.range xs.length).zip xs)
      | some (.dict _ es) =>
        firstSome (fun (e : Val × Val) =>
          (findPath h goal fuel e.2).map (((toPV h 8 e.1).getD .none) :: ·)) es
      | some (.inst c attrs) =>
        if c == "<bound>" || c == "slice" then none
        else firstSome (fun (e : String × Val) => (findPath h goal fuel e.2).map (PV.str e.1 :: ·)) attrs
      | _ => none
  | _, _ => none

def aliasOf (s : HS) (target v : Val) : Option PV :=
  match v with
  | .ref a => match s.get a with
    | some o => if isMutCell o then (findPath s.heap a viewFuel target).map PV.list else none
    | none => none
  | _ => none

def viewOf (target : Val) : View Val HS W := fun s v => (toPV s.heap viewFuel v, aliasOf s target v)

def aliasOfJson (j : Json) (key : String) : Except String (Option PV) :=
  match j.getObjVal? key with
  | .ok .null => .ok none
  | .ok p => (pvOfJson p).map some
  | .error _ => .ok none

def obsOfJson (j : Json) (al : Option PV) : Except String (Obs W) := do
  if let .ok v := j.getObjVal? "ok" then return .ok (some (← pvOfJson v), al)
  else if let .ok p := j.getObjVal? "pae" then
    return .pae (← p.getObjValAs? Nat "idx") (← p.getObjValAs? String "exc")
      (← p.getObjValAs? Bool "glom")
  else if let .ok c := j.getObjValAs? String "other" then return .other c
  else throw s!"bad obs {j.compress}"

def wToJson : W → Json
  | (some v, al) => Json.mkObj [("tree", pvToJson v),
      ("alias", match al with | some p => pvToJson p | none => Json.null)]
  | (none, _) => Json.mkObj [("cyclic", true)]

def obsToJson : Obs W → Json
  | .ok v => Json.mkObj [("ok", wToJson v)]
  | .pae k c g => Json.mkObj [("pae", Json.mkObj [("idx", k), ("exc", c), ("glom", g)])]
  | .other c => Json.mkObj [("other", c)]

def kindName (k : Kind) : String :=
  match kindNames.find? (·.2 == k) with
  | some (n, _) => n
  | none => "other"

def refOfJson (j : Json) (al : Option PV) : Except String (Except RefErr W) := do
  if let .ok v := j.getObjVal? "ok" then return .ok (some (← pvOfJson v), al)
  else if let .ok p := j.getObjVal? "fail" then
    return .error (.opFail (← p.getObjValAs? Nat "k") (Kind.ofString (← p.getObjValAs? String "kind"))
      ⟨← p.getObjValAs? String "exc"⟩)
  else if let .ok c := j.getObjValAs? String "raised" then return .error (.raised ⟨c⟩)
  else throw s!"bad direct {j.compress}"

def refToJson : Except RefErr W → Json
  | .ok v => Json.mkObj [("ok", wToJson v)]
  | .error (.opFail k kind e) =>
    Json.mkObj [("fail", Json.mkObj [("k", k), ("kind", kindName kind), ("exc", e.cls)])]
  | .error (.raised e) => Json.mkObj [("raised", e.cls)]
  | .error .unsupported => Json.mkObj [("unsupported", true)]

def refEq : Except RefErr W → Except RefErr W → Bool
  | .ok a, .ok b => a == b
  | .error a, .error b => a == b
  | _, _ => false

/-! ### comparison modulo opaque floats

  The kernel returns the opaque float `PV.float "?"` where it decides that the result of an
  operation IS a float but cannot reproduce CPython's value bit for bit (`float // x`,
  `float % x`, `x ** y` through libm `pow`).  The first argument of these functions is the
  kernel's side: an opaque float matches every float, everything else must be equal. -/

partial def pvMatch : PV → PV → Bool
  | .float h, .float h' => h == opaqueHex || h == h'
  | .list xs, .list ys => all2 xs ys
  | .tuple xs, .tuple ys => all2 xs ys
  | .dict es, .dict fs =>
    es.length == fs.length && (es.zip fs).all (fun p => pvMatch p.1.1 p.2.1 && pvMatch p.1.2 p.2.2)
  | .obj c as, .obj c' bs =>
    c == c' && as.length == bs.length && (as.zip bs).all (fun p => p.1.1 == p.2.1 && pvMatch p.1.2 p.2.2)
  | a, b => a == b
where
  all2 (xs ys : List PV) : Bool := xs.length == ys.length && (xs.zip ys).all (fun p => pvMatch p.1 p.2)

partial def pvHasOpaque : PV → Bool
  | .float h => h == opaqueHex
  | .list xs | .tuple xs => xs.any pvHasOpaque
  | .dict es => es.any (fun e => pvHasOpaque e.1 || pvHasOpaque e.2)
  | .obj _ as => as.any (fun e => pvHasOpaque e.2)
  | _ => false

def wMatch (a b : W) : Bool :=
  (match a.1, b.1 with
   | some x, some y => pvMatch x y
   | none, none => true
   | _, _ => false) && a.2 == b.2

def wHasOpaque (a : W) : Bool := match a.1 with
  | some x => pvHasOpaque x
  | none => false

def refMatch : Except RefErr W → Except RefErr W → Bool
  | .ok a, .ok b => wMatch a b
  | .error a, .error b => a == b
  | _, _ => false

def obsMatch : Obs W → Obs W → Bool
  | .ok a, .ok b => wMatch a b
  | a, b => a == b

def lastDunder : E PV → String
  | .texpr steps => match steps.getLast? with
    | some (d, _) => d
    | none => "T"
  | _ => "?"

def primUnsupported : Except RefErr W → Bool
  | .error (.opFail _ _ e) => e.cls == "<unsupported>"
  | .error (.raised e) => e.cls == "<unsupported>"
  | _ => false

def isMutator (n : String) : Bool := n == "pop" || n == "append" || n == "setdefault"

/-- does the expression name a method that changes its object? (for the histogram only) -/
partial def mentionsMutator : E PV → Bool
  | .lit (.str n) => isMutator n
  | .lit _ => false
  | .texpr steps => steps.any (fun st => mentionsMutator st.2)
  | .spec x => mentionsMutator x
  | .list xs | .tuple xs => xs.any mentionsMutator
  | .dict es => es.any (fun kv => mentionsMutator kv.1 || mentionsMutator kv.2)
  | .cargs args kwargs => args.any mentionsMutator || kwargs.any (fun kv => mentionsMutator kv.2)

def isCyclic : Except RefErr W → Bool
  | .ok (none, _) => true
  | _ => false

def run (j : Json) : Except String Json := do
  let targetPV ← pvOfJson (← j.getObjVal? "target")
  let ePV ← exprOfJson (← j.getObjVal? "expr")
  let implObs ← obsOfJson (← j.getObjVal? "impl") (← aliasOfJson j "impl_alias")
  let implAfterPV ← pvOfJson (← j.getObjVal? "impl_after")
  let direct ← refOfJson (← j.getObjVal? "direct") (← aliasOfJson j "direct_alias")
  let directAfterPV ← pvOfJson (← j.getObjVal? "direct_after")
  let F := genFacts
  let some (target, s00) := allocPV targetPV { heap := [] }
    | return Json.mkObj [("skip", true), ("why", "target outside the heap instance")]
  let some (e, s0) := exprToHeap ePV s00
    | return Json.mkObj [("skip", true), ("why", "literal outside the heap instance")]
  let view := viewOf target
  -- the alias path of the target object itself ([] for a container, none for a scalar)
  let rootAlias := aliasOf s0 target target
  let implAfter : W := (some implAfterPV, rootAlias)
  let directAfter : W := (some directAfterPV, rootAlias)
  let rr := refEval hPrim e target s0
  let leanRef : Except RefErr W := viewRes view rr
  let leanAfter : W := view rr.2 target
  if refEq leanRef (.error .unsupported) then
    return Json.mkObj [("skip", true), ("why", "expression outside the C02 fragment")]
  if let some why := rr.2.bad then
    return Json.mkObj [("skip", true), ("why", why)]
  let mr : Except Err Val × HS := match record F hPrim.none e with
    | some o => tEval F hPrim o target s0
    | none => (.error (.raised ⟨"<no overload>"⟩), s0)
  let modelPair := observeS F view target mr
  let modelObs := modelPair.1
  let modelAfter := modelPair.2
  let stateful := if mentionsMutator ePV then "mut:" else ""
  if primUnsupported leanRef then
    -- the kernel has no definition for a primitive used here: only the property is
    -- evaluated, against Python's own outcome
    let holds := checkObs direct implObs && directAfter == implAfter
    return Json.mkObj [("agree", true), ("holds", holds), ("model", obsToJson modelObs),
      ("lean_ref", refToJson leanRef), ("branch", "prim-outside-kernel"),
      ("why", if holds then "" else "implementation differs from the chain applied directly in Python")]
  if leanAfter.1.isNone || modelAfter.1.isNone || isCyclic leanRef then
    return Json.mkObj [("skip", true), ("why", "the result or the target is not a tree any more (cyclic)")]
  -- the kernel's outcome against CPython's, modulo opaque floats (equality when there is none)
  let primOk := refMatch leanRef direct && wMatch leanAfter directAfter
  let hasOpq := wHasOpaque leanAfter || (match leanRef with | .ok w => wHasOpaque w | _ => false)
  -- the reference the property is evaluated against: the kernel's, unless it holds an opaque
  -- float (then CPython's own outcome, which it matches, says more) or differs from CPython's
  let ref := if primOk && !hasOpq then leanRef else direct
  let refAfter := if primOk && !hasOpq then leanAfter else directAfter
  let holds := checkObs ref implObs && refAfter == implAfter
  let modelHolds := checkC02 view hPrim e target s0 modelPair
  let agree := primOk && modelHolds && obsMatch modelObs implObs && wMatch modelAfter implAfter
  let why :=
    (if checkObs ref implObs then "" else "property fails on the implementation's observation; ") ++
    (if refAfter == implAfter then "" else "the target is left in another state than by the chain applied directly; ") ++
    (if primOk then "" else "Lean primitives differ from Python's direct evaluation; ") ++
    (if modelHolds then "" else "model fails its own checker; ") ++
    (if obsMatch modelObs implObs then "" else "model differs from implementation; ") ++
    (if wMatch modelAfter implAfter then "" else "model leaves the target in another state than the implementation; ")
  let aliased := match leanRef with
    | .ok (_, some _) => "alias:"
    | _ => ""
  let branch := match leanRef with
    | .ok _ => s!"{stateful}{aliased}{if hasOpq then "opaque:" else ""}ok:{lastDunder ePV}"
    | .error (.opFail _ kind x) => s!"{stateful}fail:{kindName kind}:{x.cls}"
    | .error (.raised x) => s!"{stateful}argfail:{x.cls}"
    | .error .unsupported => "unsupported"
  return Json.mkObj [("agree", agree), ("holds", holds), ("model_holds", modelHolds),
    ("prim_ok", primOk), ("wf", WF F), ("model", obsToJson modelObs),
    ("model_after", wToJson modelAfter), ("changed", !(leanAfter.1 == some targetPV)),
    ("lean_ref", refToJson leanRef), ("lean_after", wToJson leanAfter),
    ("branch", branch), ("why", why)]

end Glom.C02.Driver
