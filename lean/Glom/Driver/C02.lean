import Glom.Py.PV
import Glom.Spec.C02
import Glom.Model.C02Env
import Glom.Model.C02Prim
/-
  C02 driver: one JSON case in, one JSON verdict out.

  case:  {"target": PV,
          "expr": E,      E ::= {"lit": PV} | {"T": [[dunder, E]…]} | {"Spec": E} | {"list": [E…]}
                               | {"tuple": [E…]} | {"dict": [[E, E]…]}
                               | {"call": {"args": [E…], "kwargs": [[name, E]…]}}
          "impl":   {"ok": PV} | {"pae": {"idx": n, "exc": cls, "glom": b}} | {"other": cls},
          "direct": {"ok": PV} | {"fail": {"k": n, "kind": name, "exc": cls}} | {"raised": cls} }

  `impl` is what glom.glom(target, expr) did; `direct` is what the same chain of
  operations did when the harness applied it to the target with Python's own
  operators.  Three-way comparison:
    * `holds`  = checkC02 (the theorem's checker) on the implementation's observation,
                 against the reference outcome computed here in Lean with `pvPrim`;
    * the Lean reference must equal Python's `direct` outcome (this validates the
      kernel's primitives; if they differ Python's outcome is the reference and
      the case is reported as a disagreement);
    * `agree`  = the code-shaped model (`record` + `tEval` on the regenerated
                 tables) produces the implementation's observation.
-/
namespace Glom.C02.Driver
open Lean Glom Glom.C02

partial def exprOfJson (j : Json) : Except String (E PV) := do
  if let .ok v := j.getObjVal? "lit" then return .lit (← pvOfJson v)
  else if let .ok (.arr a) := j.getObjVal? "T" then
    return .texpr (← a.toList.mapM (fun s => match s with
      | .arr #[.str d, x] => do return (d, ← exprOfJson x)
      | _ => throw s!"bad step {s.compress}"))
  else if let .ok x := j.getObjVal? "Spec" then return .spec (← exprOfJson x)
  else if let .ok (.arr a) := j.getObjVal? "list" then return .list (← a.toList.mapM exprOfJson)
  else if let .ok (.arr a) := j.getObjVal? "tuple" then return .tuple (← a.toList.mapM exprOfJson)
  else if let .ok (.arr a) := j.getObjVal? "dict" then
    return .dict (← a.toList.mapM (fun s => match s with
      | .arr #[k, v] => do return (← exprOfJson k, ← exprOfJson v)
      | _ => throw s!"bad entry {s.compress}"))
  else if let .ok c := j.getObjVal? "call" then
    let args ← match c.getObjVal? "args" with
      | .ok (.arr a) => a.toList.mapM exprOfJson
      | _ => throw "bad call args"
    let kwargs ← match c.getObjVal? "kwargs" with
      | .ok (.arr a) => a.toList.mapM (fun s => match s with
        | .arr #[.str k, v] => do return (k, ← exprOfJson v)
        | _ => throw s!"bad kwarg {s.compress}")
      | _ => throw "bad call kwargs"
    return .cargs args kwargs
  else throw s!"bad expr {j.compress}"

def obsOfJson (j : Json) : Except String (Obs PV) := do
  if let .ok v := j.getObjVal? "ok" then return .ok (← pvOfJson v)
  else if let .ok p := j.getObjVal? "pae" then
    return .pae (← p.getObjValAs? Nat "idx") (← p.getObjValAs? String "exc")
      (← p.getObjValAs? Bool "glom")
  else if let .ok c := j.getObjValAs? String "other" then return .other c
  else throw s!"bad obs {j.compress}"

def obsToJson : Obs PV → Json
  | .ok v => Json.mkObj [("ok", pvToJson v)]
  | .pae k c g => Json.mkObj [("pae", Json.mkObj [("idx", k), ("exc", c), ("glom", g)])]
  | .other c => Json.mkObj [("other", c)]

def kindName (k : Kind) : String :=
  match kindNames.find? (·.2 == k) with
  | some (n, _) => n
  | none => "other"

def refOfJson (j : Json) : Except String (Except RefErr PV) := do
  if let .ok v := j.getObjVal? "ok" then return .ok (← pvOfJson v)
  else if let .ok p := j.getObjVal? "fail" then
    return .error (.opFail (← p.getObjValAs? Nat "k") (Kind.ofString (← p.getObjValAs? String "kind"))
      ⟨← p.getObjValAs? String "exc"⟩)
  else if let .ok c := j.getObjValAs? String "raised" then return .error (.raised ⟨c⟩)
  else throw s!"bad direct {j.compress}"

def refToJson : Except RefErr PV → Json
  | .ok v => Json.mkObj [("ok", pvToJson v)]
  | .error (.opFail k kind e) =>
    Json.mkObj [("fail", Json.mkObj [("k", k), ("kind", kindName kind), ("exc", e.cls)])]
  | .error (.raised e) => Json.mkObj [("raised", e.cls)]
  | .error .unsupported => Json.mkObj [("unsupported", true)]

def refEq : Except RefErr PV → Except RefErr PV → Bool
  | .ok a, .ok b => a == b
  | .error a, .error b => a == b
  | _, _ => false

def lastDunder : E PV → String
  | .texpr steps => match steps.getLast? with
    | some (d, _) => d
    | none => "T"
  | _ => "?"

def primUnsupported : Except RefErr PV → Bool
  | .error (.opFail _ _ e) => e.cls == "<unsupported>"
  | .error (.raised e) => e.cls == "<unsupported>"
  | _ => false

def run (j : Json) : Except String Json := do
  let target ← pvOfJson (← j.getObjVal? "target")
  let e ← exprOfJson (← j.getObjVal? "expr")
  let implObs ← obsOfJson (← j.getObjVal? "impl")
  let direct ← refOfJson (← j.getObjVal? "direct")
  let F := genFacts
  let leanRef := refEval pvPrim e target
  if refEq leanRef (.error .unsupported) then
    return Json.mkObj [("skip", true), ("why", "expression outside the C02 fragment")]
  let modelObs : Obs PV := match record F pvPrim.none e with
    | some o => observe F (tEval F pvPrim o target)
    | none => .other "<no overload>"
  if primUnsupported leanRef then
    -- the kernel has no definition for a primitive used here: only the property is
    -- evaluated, against Python's own outcome
    let holds := checkObs direct implObs
    return Json.mkObj [("agree", true), ("holds", holds), ("model", obsToJson modelObs),
      ("lean_ref", refToJson leanRef), ("branch", "prim-outside-kernel"),
      ("why", if holds then "" else "implementation differs from the chain applied directly in Python")]
  let primOk := refEq leanRef direct
  let ref := if primOk then leanRef else direct
  let holds := checkObs ref implObs
  let modelHolds := checkObs leanRef modelObs
  let agree := primOk && modelHolds && modelObs == implObs
  let why :=
    (if holds then "" else "property fails on the implementation's observation; ") ++
    (if primOk then "" else "Lean primitives differ from Python's direct evaluation; ") ++
    (if modelHolds then "" else "model fails its own checker; ") ++
    (if modelObs == implObs then "" else "model differs from implementation; ")
  let branch := match leanRef with
    | .ok _ => s!"ok:{lastDunder e}"
    | .error (.opFail _ kind x) => s!"fail:{kindName kind}:{x.cls}"
    | .error (.raised x) => s!"argfail:{x.cls}"
    | .error .unsupported => "unsupported"
  return Json.mkObj [("agree", agree), ("holds", holds), ("model_holds", modelHolds),
    ("prim_ok", primOk), ("wf", WF F), ("model", obsToJson modelObs),
    ("lean_ref", refToJson leanRef), ("branch", branch), ("why", why)]

end Glom.C02.Driver
