import Glom.Py.PV
import Glom.Py.Json
import Glom.Spec.C02
import Glom.Model.C02Env
import Glom.Model.C02Heap
/-
  C02 driver: one JSON case in, one JSON verdict out.

  case (the fields the harness' `run_impl` adds; the generator's own fields are ignored here):
    "g_heap":   [cell…]     the object graph the target and the literal objects of the expression
                            live in, as it is BEFORE the evaluation (cell: Glom/Py/Json.lean `objOfJson`:
                            {"k": "list"|"tuple"|"set"|"dict"|"inst", "c": class name, "v": […]});
                            any graph: objects reachable by several paths, cycles
    "g_target": Val         null | {"b"…} | {"i"…} | {"s"…} | {"f"…} | {"fn"…} | {"sent"…} | {"r": address}
    "g_lits":   [Val…]      the literal heap objects of the expression (instances of container
                            subclasses, attribute objects, …): `{"hl": i}` in the expression
    "shared":   [E…]        (optional) argument objects used at several places: `{"sh": i}`
    "expr": E     E ::= {"lit": PV} | {"hl": i} | {"sh": i} | {"T": [[dunder, E]…]} | {"Spec": E} | {"list": [E…]}
                       | {"tuple": [E…]} | {"dict": [[E, E]…]} | {"set": [E…]} | {"fset": [E…]}
                       | {"call": {"args": [E…], "kwargs": [[name, E]…]}}
                  a {"lit": PV} list / tuple / dict / set is spelled structurally (`arg_val` rebuilds
                  it member by member on every evaluation), a literal slice is one object allocated
                  up front; {"hl": i} is the very object `g_lits[i]` — `.sub` when it is an instance
                  of a subclass of list / tuple / dict / set / frozenset, a plain literal otherwise
    "impl":   {"ok": GRAPH} | {"pae": {"idx": n, "exc": cls, "glom": b}} | {"other": cls}
    "impl_after": GRAPH
    "direct": {"ok": GRAPH} | {"fail": {"k": n, "kind": name, "exc": cls}} | {"raised": cls}
              | {"callee": <one of the two error forms>}
    "direct_after": GRAPH
  GRAPH = {"roots": [Val…], "cells": [cell…]}: the object graph reachable from the roots
  [value, target, literal objects…] (after-state: [target, target, literal objects…]), depth-first,
  children in their natural order, ADDRESSES RENUMBERED IN FIRST-VISIT ORDER.  Identity, sharing
  and cycles are all in it: `glom(t, T['f'](T['l'])) is t['l']`, a literal that reached the callee
  as the very object, a member appended to a shared list.

  `impl` is what glom.glom(target, expr) did; `direct` is what the same chain of
  operations did when the harness applied it to a fresh copy of the object graph with
  Python's own operators (the callee of a call passed through the reference `arg_val` first).
  Three-way comparison:
    * `holds`  = checkC02's two conjuncts (outcome, object graph afterwards) on the implementation's
                 observation, against the reference outcome computed here in Lean with `hPrim`;
    * the Lean reference must equal Python's `direct` outcome and final graph (this
      validates the kernel's primitives; if they differ Python's outcome is the reference
      and the case is reported as a disagreement);
    * `agree`  = the code-shaped model (`record` + `tEval` on the regenerated
                 tables) produces the implementation's observation and final graph.
  Floats whose value the kernel does not reproduce (`float // x`, `x ** y` through libm) are the
  opaque float `{"f": "?"}` on the Lean side: the comparisons above are then modulo opaque floats
  (the class of every outcome and the position of every failure are still compared exactly), and
  `holds` is evaluated against CPython's own outcome.
-/
namespace Glom.C02.Driver
open Lean Glom Glom.C02

/-- allocate a tree in the heap; `none`: a kind of value the heap instance does not model -/
partial def allocPV (p : PV) (s : HS) : Option (Val × HS) :=
  match ofScalarPV p with
  | some v => some (v, s)
  | none =>
    match p with
    | .list xs => do
      let (vs, s1) ← allocAll xs s
      return s1.alloc (.list "list" vs)
    | .tuple xs => do
      let (vs, s1) ← allocAll xs s
      return s1.alloc (.tuple "tuple" vs)
    | .dict es => do
      let (ks, s1) ← allocAll (es.map (·.1)) s
      let (vs, s2) ← allocAll (es.map (·.2)) s1
      return s2.alloc (.dict "dict" (ks.zip vs))
    | .obj c attrs => do
      let (vs, s1) ← allocAll (attrs.map (·.2)) s
      return s1.alloc (.inst c ((attrs.map (·.1)).zip vs))
    | _ => none
where
  allocAll (xs : List PV) (s : HS) : Option (List Val × HS) :=
    match xs with
    | [] => some ([], s)
    | x :: r => do
      let (v, s1) ← allocPV x s
      let (vs, s2) ← allocAll r s1
      return (v :: vs, s2)

/-- a literal tree of the expression: scalars are literals, list / tuple / dict / set are spelled
    structurally (rebuilt by `arg_val`), a slice is one object -/
partial def litOfPV (p : PV) (s : HS) : Option (E Val × HS) :=
  match ofScalarPV p with
  | some v => some (.lit v, s)
  | none =>
    match p with
    | .list xs => do let (ys, s1) ← many xs s; return (.list ys, s1)
    | .tuple xs => do let (ys, s1) ← many xs s; return (.tuple ys, s1)
    | .set xs => do let (ys, s1) ← many xs s; return (.set "set" ys, s1)
    | .fset xs => do let (ys, s1) ← many xs s; return (.set "frozenset" ys, s1)
    | .dict es => do
      let (ks, s1) ← many (es.map (·.1)) s
      let (vs, s2) ← many (es.map (·.2)) s1
      return (.dict (ks.zip vs), s2)
    | .obj "slice" _ => (allocPV p s).map (fun r => (.lit r.1, r.2))
    | _ => none
where
  many (xs : List PV) (s : HS) : Option (List (E Val) × HS) :=
    match xs with
    | [] => some ([], s)
    | x :: r => do
      let (y, s1) ← litOfPV x s
      let (ys, s2) ← many r s1
      return (y :: ys, s2)

/-- the literal heap object `v` as an expression: an instance of a container subclass is `.sub` -/
def litOfHeap (s : HS) (v : Val) : Option (E Val) :=
  match v with
  | .ref a =>
    match s.get a with
    | some (.list c xs) => if c == "list" then none else some (.sub "list" v (xs.map .lit))
    | some (.tuple c xs) => if c == "tuple" then none else some (.sub "tuple" v (xs.map .lit))
    | some (.dict c es) =>
      if c == "dict" then none else some (.sub "dict" v (es.flatMap (fun e => [.lit e.1, .lit e.2])))
    | some (.set c xs) =>
      if c == "set" || c == "frozenset" then none
      else some (.sub (if c == "FSet" then "frozenset" else "set") v (xs.map .lit))
    | some (.inst c _) => if specClasses.contains c then none else some (.lit v)
    | none => none
  | _ => some (.lit v)

partial def exprOfJson (lits : List Val) (shared : List Json) (j : Json) (s : HS) : Except String (E Val × HS) := do
  if let .ok v := j.getObjVal? "lit" then
    match litOfPV (← pvOfJson v) s with
    | some r => return r
    | none => throw "skip:literal outside the heap instance"
  else if let .ok i := j.getObjValAs? Nat "hl" then
    match lits[i]? with
    | some v => match litOfHeap s v with
      | some e => return (e, s)
      | none => throw "skip:literal heap object outside the heap instance"
    | none => throw s!"bad literal index {i}"
  else if let .ok i := j.getObjValAs? Nat "sh" then
    -- a shared argument object of the expression: the model (and the reference) evaluate it
    -- whenever an operation that uses it is reached — the same expression at every use
    match shared[i]? with
    | some x => exprOfJson lits shared x s
    | none => throw s!"bad shared index {i}"
  else if let .ok (.arr a) := j.getObjVal? "T" then
    let mut s1 := s
    let mut steps : List (String × E Val) := []
    for st in a.toList do
      match st with
      | .arr #[.str d, x] =>
        let (e, s2) ← exprOfJson lits shared x s1
        s1 := s2
        steps := steps ++ [(d, e)]
      | _ => throw s!"bad step {st.compress}"
    return (.texpr steps, s1)
  else if let .ok x := j.getObjVal? "Spec" then
    let (e, s1) ← exprOfJson lits shared x s
    return (.spec e, s1)
  else if let .ok (.arr a) := j.getObjVal? "list" then
    let (es, s1) ← many a.toList s
    return (.list es, s1)
  else if let .ok (.arr a) := j.getObjVal? "tuple" then
    let (es, s1) ← many a.toList s
    return (.tuple es, s1)
  else if let .ok (.arr a) := j.getObjVal? "set" then
    let (es, s1) ← many a.toList s
    return (.set "set" es, s1)
  else if let .ok (.arr a) := j.getObjVal? "fset" then
    let (es, s1) ← many a.toList s
    return (.set "frozenset" es, s1)
  else if let .ok (.arr a) := j.getObjVal? "dict" then
    let mut s1 := s
    let mut out : List (E Val × E Val) := []
    for en in a.toList do
      match en with
      | .arr #[k, v] =>
        let (ke, s2) ← exprOfJson lits shared k s1
        let (ve, s3) ← exprOfJson lits shared v s2
        s1 := s3
        out := out ++ [(ke, ve)]
      | _ => throw s!"bad entry {en.compress}"
    return (.dict out, s1)
  else if let .ok c := j.getObjVal? "call" then
    let args ← match c.getObjVal? "args" with
      | .ok (.arr a) => pure a.toList
      | _ => throw "bad call args"
    let (as, s1) ← many args s
    let kws ← match c.getObjVal? "kwargs" with
      | .ok (.arr a) => pure a.toList
      | _ => throw "bad call kwargs"
    let mut s2 := s1
    let mut ks : List (String × E Val) := []
    for kw in kws do
      match kw with
      | .arr #[.str k, v] =>
        let (e, s3) ← exprOfJson lits shared v s2
        s2 := s3
        ks := ks ++ [(k, e)]
      | _ => throw s!"bad kwarg {kw.compress}"
    return (.cargs as ks, s2)
  else throw s!"bad expr {j.compress}"
where
  many (xs : List Json) (s : HS) : Except String (List (E Val) × HS) := do
    let mut s1 := s
    let mut out : List (E Val) := []
    for x in xs do
      let (e, s2) ← exprOfJson lits shared x s1
      s1 := s2
      out := out ++ [e]
    return (out, s1)

/-! ### what an observer sees: the object graph, addresses renumbered in first-visit order -/

structure Canon where
  roots : List Val
  cells : List HObj
  deriving BEq, Repr

/-- objects whose identity Python programs cannot rely on (CPython returns the operand itself for
    `t[:]`, `t + ()`, `t * 1`, shares the empty tuple, creates a new bound method at every attribute
    access): exact tuples and frozensets, bound methods, dict views, slices.  In the canonical graph
    they are expanded at every occurrence; every other cell (list, dict, set, attribute objects,
    instances of subclasses of ANY container, stored spec objects) is one node however it is reached. -/
def identityFree : HObj → Bool
  | .tuple c _ => c == "tuple"
  | .set c _ => c == "frozenset"
  | .inst c _ => c == "<bound>" || c == "<view>" || c == "slice"
  | _ => false

structure CState where
  memo : List (Nat × Nat)
  cells : Array HObj

mutual
/-- depth-first, children in their natural order; a cell gets its number at its first visit -/
partial def canonVal (h : Heap) (v : Val) (st : CState) : Option (Val × CState) :=
  match v with
  | .ref a =>
    match st.memo.find? (·.1 == a) with
    | some (_, n) => some (.ref n, st)
    | none =>
      if st.cells.size > 5000 then none else
      match h[a]? with
      | none => none
      | some o =>
        let n := st.cells.size
        let st1 : CState :=
          { memo := if identityFree o then st.memo else (a, n) :: st.memo, cells := st.cells.push o }
        match o with
        | .list c xs => do
          let (ys, st2) ← canonVals h xs st1
          some (.ref n, { st2 with cells := st2.cells.set! n (.list c ys) })
        | .tuple c xs => do
          let (ys, st2) ← canonVals h xs st1
          some (.ref n, { st2 with cells := st2.cells.set! n (.tuple c ys) })
        | .set c xs => do
          let (ys, st2) ← canonVals h xs st1
          some (.ref n, { st2 with cells := st2.cells.set! n (.set c ys) })
        | .dict c es => do
          let (ys, st2) ← canonVals h (es.flatMap (fun e => [e.1, e.2])) st1
          some (.ref n, { st2 with cells := st2.cells.set! n (.dict c (pairUp ys)) })
        | .inst c as => do
          let (ys, st2) ← canonVals h (as.map (·.2)) st1
          some (.ref n, { st2 with cells := st2.cells.set! n (.inst c ((as.map (·.1)).zip ys)) })
  | v => some (v, st)

partial def canonVals (h : Heap) (vs : List Val) (st : CState) : Option (List Val × CState) :=
  match vs with
  | [] => some ([], st)
  | v :: r => do
    let (w, st1) ← canonVal h v st
    let (ws, st2) ← canonVals h r st1
    some (w :: ws, st2)
end

def canon (h : Heap) (roots : List Val) : Option Canon :=
  match canonVals h roots { memo := [], cells := #[] } with
  | some (rs, st) => some { roots := rs, cells := st.cells.toList }
  | none => none

/-- what an observer sees of a value in a state: the object graph reachable from the value, the
    target and the literal objects of the expression, renumbered in first-visit order -/
abbrev W := Option Canon

def viewOf (target : Val) (lits : List Val) : View Val HS W :=
  fun s v => canon s.heap ([v, target] ++ lits)

def canonOfJson (j : Json) : Except String Canon := do
  let roots ← listOfJson valOfJson (← j.getObjVal? "roots")
  let cells ← heapOfJson (← j.getObjVal? "cells")
  return { roots, cells }

def canonToJson (c : Canon) : Json :=
  Json.mkObj [("roots", Json.arr (c.roots.map valToJson).toArray), ("cells", heapToJson c.cells)]

def wToJson : W → Json
  | some c => canonToJson c
  | none => Json.mkObj [("dangling", true)]

def obsOfJson (j : Json) : Except String (Obs W) := do
  if let .ok v := j.getObjVal? "ok" then return .ok (some (← canonOfJson v))
  else if let .ok p := j.getObjVal? "pae" then
    return .pae (← p.getObjValAs? Nat "idx") (← p.getObjValAs? String "exc")
      (← p.getObjValAs? Bool "glom")
  else if let .ok c := j.getObjValAs? String "other" then return .other c
  else throw s!"bad obs {j.compress}"

def obsToJson : Obs W → Json
  | .ok v => Json.mkObj [("ok", wToJson v)]
  | .pae k c g => Json.mkObj [("pae", Json.mkObj [("idx", k), ("exc", c), ("glom", g)])]
  | .other c => Json.mkObj [("other", c)]

def kindName (k : Kind) : String :=
  match kindNames.find? (·.2 == k) with
  | some (n, _) => n
  | none => "other"

/-- how the PROPERTY says a failure inside the evaluation of a spec-object callee surfaces: a
    failing attribute / item / arithmetic step of a documented class as PathAccessError(position),
    anything else as it is.  (Independent of the extracted tables: the Python leg stays a reference
    also when the tables are not well formed.) -/
def errOfDoc : RefErr → Err
  | .opFail k kind e => if documented kind e then .pae k e else .raised e
  | .raised e => .raised e
  | .callee e => e
  | .unsupported => .unsupported

/-- the error forms of the direct leg -/
partial def refErrOfJson (F : Facts) (j : Json) : Except String RefErr := do
  if let .ok p := j.getObjVal? "fail" then
    return .opFail (← p.getObjValAs? Nat "k") (Kind.ofString (← p.getObjValAs? String "kind"))
      ⟨← p.getObjValAs? String "exc"⟩
  else if let .ok c := j.getObjValAs? String "raised" then return .raised ⟨c⟩
  else if let .ok c := j.getObjVal? "callee" then
    return .callee (errOfDoc (← refErrOfJson F c))
  else throw s!"bad direct {j.compress}"

def refOfJson (F : Facts) (j : Json) : Except String (Except RefErr W) := do
  if let .ok v := j.getObjVal? "ok" then return .ok (some (← canonOfJson v))
  else return .error (← refErrOfJson F j)

def errToJson : Err → Json
  | .pae k e => Json.mkObj [("pae", Json.mkObj [("idx", k), ("exc", e.cls)])]
  | .raised e => Json.mkObj [("raised", e.cls)]
  | .unsupported => Json.mkObj [("unsupported", true)]

def refToJson : Except RefErr W → Json
  | .ok v => Json.mkObj [("ok", wToJson v)]
  | .error (.opFail k kind e) =>
    Json.mkObj [("fail", Json.mkObj [("k", k), ("kind", kindName kind), ("exc", e.cls)])]
  | .error (.raised e) => Json.mkObj [("raised", e.cls)]
  | .error (.callee e) => Json.mkObj [("callee", errToJson e)]
  | .error .unsupported => Json.mkObj [("unsupported", true)]

/-! ### comparison modulo opaque floats

  The kernel returns the opaque float `Val.float "?"` where it decides that the result of an
  operation IS a float but cannot reproduce CPython's value bit for bit (`float // x`,
  `float % x`, `x ** y` through libm `pow`).  The first argument of these functions is the
  kernel's side: an opaque float matches every float, everything else must be equal. -/

def valMatch : Val → Val → Bool
  | .float h, .float h' => h == opaqueHex || h == h'
  | a, b => a == b

def all2 {α} (f : α → α → Bool) (xs ys : List α) : Bool :=
  xs.length == ys.length && (xs.zip ys).all (fun p => f p.1 p.2)

def objMatch : HObj → HObj → Bool
  | .list c xs, .list c' ys => c == c' && all2 valMatch xs ys
  | .tuple c xs, .tuple c' ys => c == c' && all2 valMatch xs ys
  | .set c xs, .set c' ys => c == c' && all2 valMatch xs ys
  | .dict c es, .dict c' fs =>
    c == c' && all2 (fun a b => valMatch a.1 b.1 && valMatch a.2 b.2) es fs
  | .inst c as, .inst c' bs => c == c' && all2 (fun a b => a.1 == b.1 && valMatch a.2 b.2) as bs
  | _, _ => false

def canonMatch (a b : Canon) : Bool := all2 valMatch a.roots b.roots && all2 objMatch a.cells b.cells

def isOpaqueV : Val → Bool
  | .float h => h == opaqueHex
  | _ => false

def canonHasOpaque (c : Canon) : Bool :=
  c.roots.any isOpaqueV || c.cells.any (fun o => (childrenKV o).any isOpaqueV)

def wMatch : W → W → Bool
  | some a, some b => canonMatch a b
  | none, none => true
  | _, _ => false

def wHasOpaque : W → Bool
  | some c => canonHasOpaque c
  | none => false

def refMatch : Except RefErr W → Except RefErr W → Bool
  | .ok a, .ok b => wMatch a b
  | .error a, .error b => a == b
  | _, _ => false

def obsMatch : Obs W → Obs W → Bool
  | .ok a, .ok b => wMatch a b
  | a, b => a == b

def lastDunder : E Val → String
  | .texpr steps => match steps.getLast? with
    | some (d, _) => d
    | none => "T"
  | _ => "?"

def primUnsupported : Except RefErr W → Bool
  | .error (.opFail _ _ e) => e.cls == "<unsupported>"
  | .error (.raised e) => e.cls == "<unsupported>"
  | .error (.callee (.pae _ e)) => e.cls == "<unsupported>"
  | .error (.callee (.raised e)) => e.cls == "<unsupported>"
  | _ => false

def isMutator (n : String) : Bool :=
  n == "pop" || n == "append" || n == "setdefault" || n == "add" || n == "discard"

/-- does the expression name a method that changes its object / use a literal heap object /
    a subclass literal? (for the histogram only) -/
partial def mentions (p : E Val → Bool) : E Val → Bool
  | e@(.lit _) => p e
  | .texpr steps => steps.any (fun st => mentions p st.2)
  | .spec x => mentions p x
  | .list xs | .tuple xs | .set _ xs => xs.any (mentions p)
  | .dict es => es.any (fun kv => mentions p kv.1 || mentions p kv.2)
  | .cargs args kwargs => args.any (mentions p) || kwargs.any (fun kv => mentions p kv.2)
  | e@(.sub ..) => p e

def isMutLit : E Val → Bool
  | .lit (.str n) => isMutator n
  | _ => false

def isSub : E Val → Bool
  | .sub .. => true
  | _ => false

/-- is some cell reachable by two different edges (sharing / a cycle)? -/
def hasSharing (c : Canon) : Bool :=
  let refs := (c.roots.drop 1 ++ c.cells.flatMap childrenKV).filterMap (fun v => match v with
    | .ref a => some a
    | _ => none)
  -- the first root (the value) is usually also reachable from the target: not counted
  (List.range c.cells.length).any (fun a => (refs.filter (· == a)).length > 1)

def run (j : Json) : Except String Json := do
  let F := genFacts
  let heap ← heapOfJson (← j.getObjVal? "g_heap")
  let target ← valOfJson (← j.getObjVal? "g_target")
  let lits ← listOfJson valOfJson (← j.getObjVal? "g_lits")
  let s00 : HS := { heap }
  let shared := match j.getObjVal? "shared" with
    | .ok (.arr a) => a.toList
    | _ => []
  let (e, s0) ← match exprOfJson lits shared (← j.getObjVal? "expr") s00 with
    | .ok r => pure r
    | .error msg =>
      if msg.startsWith "skip:" then
        return Json.mkObj [("skip", true), ("why", String.ofList (msg.toList.drop 5))]
      else throw msg
  let implObs ← obsOfJson (← j.getObjVal? "impl")
  let implAfter : W := some (← canonOfJson (← j.getObjVal? "impl_after"))
  let direct ← refOfJson F (← j.getObjVal? "direct")
  let directAfter : W := some (← canonOfJson (← j.getObjVal? "direct_after"))
  let prim := hPrim F primDepth
  let view := viewOf target lits
  let startW := view s0 target
  let rr := refEval prim prim.revalFunc e target s0
  let leanRef : Except RefErr W := viewRes view rr
  let leanAfter : W := view rr.2 target
  if (match rr.1 with | .error re => re.isUnsupported | _ => false) then
    return Json.mkObj [("skip", true), ("why", "expression outside the C02 fragment")]
  if let some why := rr.2.bad then
    return Json.mkObj [("skip", true), ("why", why)]
  let mr : Except Err Val × HS := match record F prim.none e with
    | some o => tEval F prim o target s0
    | none => (.error (.raised ⟨"<no overload>"⟩), s0)
  let modelPair := observeS F view target mr
  let modelObs := modelPair.1
  let modelAfter := modelPair.2
  let tags :=
    (if mentions isMutLit e then "mut:" else "") ++
    (if mentions isSub e then "sub:" else "") ++
    (match startW with | some c => if hasSharing c then "shared:" else "" | none => "")
  if primUnsupported leanRef then
    -- the kernel has no definition for a primitive used here: only the property is
    -- evaluated, against Python's own outcome
    let holds := checkObs direct implObs && directAfter == implAfter
    return Json.mkObj [("agree", true), ("holds", holds), ("model", obsToJson modelObs),
      ("lean_ref", refToJson leanRef), ("branch", tags ++ "prim-outside-kernel"),
      ("why", if holds then "" else "implementation differs from the chain applied directly in Python")]
  if leanAfter.isNone || modelAfter.isNone then
    return Json.mkObj [("skip", true), ("why", "the object graph has a dangling reference or is too big")]
  -- the kernel's outcome against CPython's, modulo opaque floats (equality when there is none)
  let primOk := refMatch leanRef direct && wMatch leanAfter directAfter
  let hasOpq := wHasOpaque leanAfter || (match leanRef with | .ok w => wHasOpaque w | _ => false)
  -- the reference the property is evaluated against: the kernel's, unless it holds an opaque
  -- float (then CPython's own outcome, which it matches, says more) or differs from CPython's
  let ref := if primOk && !hasOpq then leanRef else direct
  let refAfter := if primOk && !hasOpq then leanAfter else directAfter
  let holds := checkObs ref implObs && refAfter == implAfter
  let modelHolds := checkC02 view prim prim.revalFunc e target s0 modelPair
  let agree := primOk && modelHolds && obsMatch modelObs implObs && wMatch modelAfter implAfter
  let why :=
    (if checkObs ref implObs then "" else "property fails on the implementation's observation; ") ++
    (if refAfter == implAfter then "" else "the object graph is left in another state than by the chain applied directly; ") ++
    (if primOk then "" else "Lean primitives differ from Python's direct evaluation; ") ++
    (if modelHolds then "" else "model fails its own checker; ") ++
    (if obsMatch modelObs implObs then "" else "model differs from implementation; ") ++
    (if wMatch modelAfter implAfter then "" else "model leaves the object graph in another state than the implementation; ")
  let aliased := match leanRef with
    | .ok (some c) =>
      -- the result IS one of the objects the target / the literal objects reach
      (match c.roots.head? with
       | some (.ref a) =>
         if (c.roots.drop 1 ++ c.cells.flatMap childrenKV).any (· == Val.ref a) then "alias:" else ""
       | _ => "")
    | _ => ""
  let branch := match leanRef with
    | .ok _ => s!"{tags}{aliased}{if hasOpq then "opaque:" else ""}ok:{lastDunder e}"
    | .error (.opFail _ kind x) => s!"{tags}fail:{kindName kind}:{x.cls}"
    | .error (.raised x) => s!"{tags}argfail:{x.cls}"
    | .error (.callee (.pae _ x)) => s!"{tags}calleefail:pae:{x.cls}"
    | .error (.callee (.raised x)) => s!"{tags}calleefail:{x.cls}"
    | .error _ => "unsupported"
  return Json.mkObj [("agree", agree), ("holds", holds), ("model_holds", modelHolds),
    ("prim_ok", primOk), ("wf", WF F), ("model", obsToJson modelObs),
    ("model_after", wToJson modelAfter), ("changed", !(leanAfter == startW)),
    ("lean_ref", refToJson leanRef), ("lean_after", wToJson leanAfter),
    ("branch", branch), ("why", why)]

end Glom.C02.Driver
