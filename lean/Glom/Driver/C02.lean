import Lean.Data.Json
/- stub: the C02 driver is not built yet -/
namespace Glom.C02.Driver
open Lean

def run (_j : Json) : Except String Json := .error "property C02: driver not implemented yet"

end Glom.C02.Driver
