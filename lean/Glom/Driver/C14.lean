import Glom.Py.Json
import Glom.Spec.C14
import Glom.Model.C01
import Glom.Model.C14Env
/-
  C14 driver: one JSON case in, one JSON verdict out.

  case:  {"classes":[[cls,{"mro":[…],"dict":b,"iter":b}]…], "heap":[Obj…], "target":Val,
          "spelling": {"text":"a.*.b"} | {"parts":[{"seg":Val} | {"t":[[op,Val]…]}…]},
          "mut": null | {"kind":"assign","val":Val,"missing":null|"dict"|"list"} | {"kind":"delete","ignore":b}
                 (the final step of the spelling — seg / T[..] / T.attr — gives the op of the mutation),
          "sroot": null | {"var": name, "first": "[" | "." | "P"}
                 (the path is spelled from S: S[name]… / S.name… / Path(S, name, …) with the target as the
                  scope variable `name` — `glom(other, spec, scope={name: target})`; modelled as the
                  T-rooted evaluation on the same data: the first step names the variable
                  (`_s_first_magic`), the remainder after a wildcard is rooted at T (facts obligation)),
          "impl": {"ok":Res} | "pae" | {"other":cls} | {"mutated":[Obj…],"err":cls|null} | "timeout"}
  Res:   {"v":Val} | {"l":[Res…]}
-/
namespace Glom.C14.Driver
open Lean Glom Glom.C14

partial def resOfJson (j : Json) : Except String Res := do
  if let .ok v := j.getObjVal? "v" then return .val (← valOfJson v)
  else if let .ok (.arr a) := j.getObjVal? "l" then return .list (← a.toList.mapM resOfJson)
  else throw s!"bad Res {j.compress}"

partial def resToJson : Res → Json
  | .val v => Json.mkObj [("v", valToJson v)]
  | .list xs => Json.mkObj [("l", Json.arr (xs.map resToJson).toArray)]

def clsOfJson (j : Json) : Except String (String × ClsInfo) := do
  match ← arrOf j with
  | [n, i] =>
    return (← strOfJson n, { mro := ← listOfJson strOfJson (← i.getObjVal? "mro"),
                              hasDict := ← i.getObjValAs? Bool "dict",
                              iterable := ← i.getObjValAs? Bool "iter" })
  | _ => throw s!"bad class entry {j.compress}"

def obsOfJson (j : Json) : Except String (Option Obs) := do
  match j with
  | .str "pae" => return some .pae
  | .str "timeout" => return none
  | _ =>
    if let .ok r := j.getObjVal? "ok" then return some (.ok (← resOfJson r))
    else if let .ok c := j.getObjValAs? String "other" then return some (.other c)
    else if let .ok hp := j.getObjVal? "mutated" then
      let err ← (match j.getObjVal? "err" with
        | .ok (.str s) => pure (some s)
        | _ => pure none : Except String (Option String))
      return some (.mutated (← heapOfJson hp) err)
    else throw s!"bad obs {j.compress}"

def obsToJson : Obs → Json
  | .ok r => Json.mkObj [("ok", resToJson r)]
  | .pae => Json.str "pae"
  | .other c => Json.mkObj [("other", c)]
  | .mutated h e => Json.mkObj [("mutated", heapToJson h),
      ("err", match e with | some s => Json.str s | none => Json.null)]

def obsEq : Obs → Obs → Bool
  | .ok a, .ok b => Res.beq a b
  | .pae, .pae => true
  | .other a, .other b => a == b
  | .mutated h e, .mutated h' e' => h == h' && e == e'
  | _, _ => false

def stepOfJson (j : Json) : Except String (String × Val) := pairOfJson strOfJson valOfJson j

def partOfJson (j : Json) : Except String Glom.C01.Part := do
  if let .ok v := j.getObjVal? "seg" then return .seg (← valOfJson v)
  else if let .ok t := j.getObjVal? "t" then return .t (← listOfJson stepOfJson t)
  else throw s!"bad part {j.compress}"

def run (j : Json) : Except String Json := do
  let cs ← listOfJson clsOfJson (← j.getObjVal? "classes")
  let heap ← heapOfJson (← j.getObjVal? "heap")
  let target ← valOfJson (← j.getObjVal? "target")
  let sp ← j.getObjVal? "spelling"
  let parts ← (do
    if let .ok t := sp.getObjValAs? String "text" then return Glom.C01.partsOfText t.toList
    else listOfJson partOfJson (← sp.getObjVal? "parts") : Except String (List Glom.C01.Part))
  let allSteps := Glom.C01.stepsOfParts parts
  let mutJ := (j.getObjVal? "mut").toOption.getD Json.null
  let mutK : Option MutKind ← (match mutJ with
    | .null => pure none
    | m => do
      let k ← m.getObjValAs? String "kind"
      -- the final op is filled in below from the spelling of the last step
      if k == "assign" then
        let missing := match m.getObjVal? "missing" with | .ok (.str _) => true | _ => false
        return some (.assign "P" (← valOfJson (← m.getObjVal? "val")) missing)
      else
        let ignore := (m.getObjValAs? Bool "ignore").toOption.getD false
        return some (.delete "P" ignore) : Except String (Option MutKind))
  if (← j.getObjVal? "impl") == Json.str "skip" then
    return Json.mkObj [("skip", true), ("why", "two heap cells decoded to one interned object")]
  let implObs ← obsOfJson (← j.getObjVal? "impl")
  if !(heapWF cs heap && classesWF cs) then
    return Json.mkObj [("skip", true), ("why", "heap / class table not well-formed")]
  -- wildcard statistics for the histogram
  let ops := allSteps.map (·.1)
  let nx := (ops.filter (· == "x")).length
  let nX := (ops.filter (· == "X")).length
  let (modelObs, holds, kindStr) ← (match mutK with
    | none =>
      let m := modelRead cs heap allSteps target
      let hd := match implObs with
        | some o => checkC14 cs heap allSteps none target o
        | none => false
      pure (m, hd, "read")
    | some kind0 =>
      match allSteps.reverse with
      | (op, key) :: revInit =>
        if !(op == "P" || op == "[" || op == ".") then throw "mutation path must end in a plain / item / attribute step" else
        let kind : MutKind := match kind0 with
          | .assign _ v m => .assign op v m
          | .delete _ ig => .delete op ig
        let steps := revInit.reverse
        let m := modelMutate cs heap steps key kind target
        let hd := match implObs with
          | some o => checkC14 cs heap steps (some (key, kind)) target o
          | none => false
        pure (m, hd, match kind with
          | .assign o _ ms => s!"assign{o}" ++ (if ms then "+missing" else "")
          | .delete o ig => s!"delete{o}" ++ (if ig then "+ignore" else ""))
      | _ => throw "mutation path must end in a plain segment" : Except String (Obs × Bool × String))
  -- `missing=` is consulted only when the path fails before its first wildcard: C11's subject
  if (match mutK, modelObs with | some (.assign _ _ true), .pae => true | _, _ => false) then
    return Json.mkObj [("skip", true), ("why", "Assign(missing=) whose path fails before the first wildcard (C11)")]
  -- an S-rooted spelling: the model is the T-rooted evaluation of the same data only as far as the
  -- remainder after a wildcard is rooted at T in the source read on this run
  let sroot := match j.getObjVal? "sroot" with | .ok (.obj _) => true | _ => false
  let modelObs := if sroot && !(remainderAtT "S") then
      Obs.other "the remainder of an S-rooted wildcard path restarts from the scope" else modelObs
  let agree := match implObs with
    | some o => obsEq modelObs o
    | none => false
  -- was anything dropped / shared / cyclic?  (for the histogram)
  let outcome := match modelObs with
    | .ok (.list xs) => if xs.isEmpty then "empty" else "list"
    | .ok (.val _) => "value"
    | .pae => "pae"
    | .other c => c
    | .mutated _ (some e) => e
    | .mutated _ none => "done"
  return Json.mkObj [("agree", agree), ("holds", holds),
    ("model", obsToJson modelObs),
    ("timeout", implObs.isNone),
    ("branch", (if sroot then "S:" else "") ++ s!"{kindStr}-x{nx}-X{nX}-{outcome}")]

end Glom.C14.Driver
