import Glom.Py.Json
import Glom.Spec.C14Mode
import Glom.Model.C01
import Glom.Model.C14Env
/-
  C14 driver: one JSON case in, one JSON verdict out.

  case:  {"classes":[[cls,{"mro":[…],"dict":b,"iter":b,"reg":""|"rev"|"off"}]…], "heap":[Obj…], "target":Val,
          ("reg": the class is registered on the Glommer the case runs with, with an `iterate` handler of
           its own: reversed order / False),
          "spelling": {"text":"a.*.b"} | {"parts":[{"seg":Val} | {"t":[[op,Val]…]}…]},
          "mut": null | {"kind":"assign","val":Val,"missing":null|"dict"|"list"} | {"kind":"delete","ignore":b}
                 (the final step of the spelling — seg / T[..] / T.attr — gives the op of the mutation),
          "sroot": null | {"var": name, "first": "[" | "." | "P"}
          "path_star": bool (absent = true): the module switch PATH_STAR while the case runs (text spellings),
          "co": null | {"alts":[spelling…], "default": bool, "via": "coalesce" | "glom"}
                 (instead of "spelling": Coalesce(*alts[, default=D]) resp. glom(target, alt, default=D);
                  impl: {"co": {"ok":LRes} | "dflt" | {"other":cls}}),
          a part may be {"path":[part…]}: a Path object among the arguments of Path(...)
                 (the path is spelled from S: S[name]… / S.name… / Path(S, name, …) with the target as the
                  scope variable `name` — `glom(other, spec, scope={name: target})`; modelled as the
                  T-rooted evaluation on the same data: the first step names the variable
                  (`_s_first_magic`), the remainder after a wildcard is rooted at T (facts obligation)),
          "pre": [[op, addr]…]  (lookups made before the call; the model's handler choice does not depend on them),
          "impl": {"read": {"out": {"ok":LRes} | "pae" | {"other":cls}, "heap":[Obj…], "calls":[[addr,name]…]}}
                  | {"mutated":[Obj…],"err":cls|null,"same":bool} | {"pae":[Obj…]} | {"other":cls}
                  | {"co": …} | "timeout" | {"outside": reason}}
  every field is required (`sroot`, `co`, `mut` may be null); a case outside the model is answered with
  the branch "outside:<reason>" (agree and holds true, never non-trivial) so that the histogram counts it
  a `t` part may contain a method call: [".", {"s": name}] followed by ["(", [Val…]] (the arguments);
  modelled names: pop, append, __next__, fail (anything else: the case is skipped)
  LRes:  {"v":Val} | {"l":[LRes…], "id": n}      (n: the identity of that list object, renumbered)
-/
namespace Glom.C14.Driver
open Lean Glom Glom.C14

partial def resOfJson (j : Json) : Except String Res := do
  if let .ok v := j.getObjVal? "v" then return .val (← valOfJson v)
  else if let .ok (.arr a) := j.getObjVal? "l" then return .list (← a.toList.mapM resOfJson)
  else throw s!"bad Res {j.compress}"

partial def resToJson : Res → Json
  | .val v => Json.mkObj [("v", valToJson v)]
  | .list xs => Json.mkObj [("l", Json.arr (xs.map resToJson).toArray)]

partial def lresOfJson (j : Json) : Except String LRes := do
  if let .ok v := j.getObjVal? "v" then return .val (← valOfJson v)
  else if let .ok (.arr a) := j.getObjVal? "l" then
    return .list (← j.getObjValAs? Nat "id") (← a.toList.mapM lresOfJson)
  else throw s!"bad LRes {j.compress}"

partial def lresToJson : LRes → Json
  | .val v => Json.mkObj [("v", valToJson v)]
  | .list i xs => Json.mkObj [("l", Json.arr (xs.map lresToJson).toArray), ("id", toJson i)]

def callsOfJson (j : Json) : Except String (List (Nat × String)) :=
  listOfJson (pairOfJson natOfJson strOfJson) j

def obsSOfJson (j : Json) : Except String ObsS := do
  let o ← j.getObjVal? "out"
  let out : OutS ← (match o with
    | .str "pae" => pure OutS.pae
    | _ =>
      if let .ok r := o.getObjVal? "ok" then return OutS.ok (← lresOfJson r)
      else if let .ok c := o.getObjValAs? String "other" then pure (OutS.other c)
      else throw s!"bad out {o.compress}" : Except String OutS)
  return { out := out, heap := ← heapOfJson (← j.getObjVal? "heap"), calls := ← callsOfJson (← j.getObjVal? "calls") }

def obsSToJson (o : ObsS) : Json :=
  Json.mkObj [("out", match o.out with
      | .ok r => Json.mkObj [("ok", lresToJson r)]
      | .pae => Json.str "pae"
      | .other c => Json.mkObj [("other", c)]),
    ("heap", heapToJson o.heap),
    ("calls", Json.arr (o.calls.map (fun c => Json.arr #[toJson c.1, Json.str c.2])).toArray)]

def obsSEq (a b : ObsS) : Bool :=
  a.heap == b.heap && a.calls == b.calls &&
  (match a.out, b.out with
   | .ok r, .ok r' => Res.beq r.erase r'.erase && nodupB r.labels == nodupB r'.labels
   | .pae, .pae => true
   | .other c, .other c' => c == c'
   | _, _ => false)

/-- a part as spelled: a plain segment or the recorded ops of a T expression (the argument of a `(`
    op is the list of call arguments) -/
inductive RawPart where
  | seg (v : Val)
  | t (ops : List (String × Json))

/-- the parts of `Path(*args)`: a Path among the arguments contributes its own parts -/
partial def rawPartsOfJson (j : Json) : Except String (List RawPart) := do
  let mut out : List RawPart := []
  for p in ← arrOf j do
    if let .ok v := p.getObjVal? "seg" then out := out ++ [.seg (← valOfJson v)]
    else if let .ok t := p.getObjVal? "t" then
      out := out ++ [.t (← listOfJson (pairOfJson strOfJson (fun x => pure x)) t)]
    else if let .ok ps := p.getObjVal? "path" then out := out ++ (← rawPartsOfJson ps)
    else throw s!"bad part {p.compress}"
  return out

def rawPartsOfSpelling (pathStar : Bool) (sp : Json) : Except String (List RawPart) := do
  if let .ok t := sp.getObjValAs? String "text" then
    return (partsOfTextMode pathStar t.toList).map (fun p => match p with
      | .seg v => RawPart.seg v
      | .t st => RawPart.t (st.map (fun q => (q.1, valToJson q.2))))
  else rawPartsOfJson (← sp.getObjVal? "parts")

def obsCoOfJson (j : Json) : Except String ObsCo := do
  match j with
  | .str "dflt" => return .dflt
  | _ =>
    if let .ok r := j.getObjVal? "ok" then return .ok (← lresOfJson r)
    else if let .ok c := j.getObjValAs? String "other" then return .other c
    else throw s!"bad co obs {j.compress}"

def coOutToJson : CoOut → Json
  | .ok i r => Json.mkObj [("ok", resToJson r), ("alt", toJson i)]
  | .dflt => Json.str "dflt"
  | .coalesceError => Json.mkObj [("other", "CoalesceError")]
  | .other c => Json.mkObj [("other", c)]

def stepsOfRawOps : List (String × Json) → Except String (List Step)
  | [] => pure []
  | (".", n) :: ("(", args) :: rest => do
    let name ← strOfJson (← (do
      match ← valOfJson n with
      | .str s => pure (Json.str s)
      | _ => throw "method name must be a string" : Except String Json))
    return .call name (← listOfJson valOfJson args) :: (← stepsOfRawOps rest)
  | ("(", _) :: _ => throw "a call must follow an attribute step"
  | (op, a) :: rest => do
    return Step.ofPair (op, ← valOfJson a) :: (← stepsOfRawOps rest)

def stepsOfRawParts : List RawPart → Except String (List Step)
  | [] => pure []
  | .seg v :: r => do return .acc "P" v :: (← stepsOfRawParts r)
  | .t ops :: r => do return (← stepsOfRawOps ops) ++ (← stepsOfRawParts r)

/-- the `(op, arg)` pairs of a spelling without calls -/
def pairsOfRawParts : List RawPart → Except String (List (String × Val))
  | [] => pure []
  | .seg v :: r => do return ("P", v) :: (← pairsOfRawParts r)
  | .t ops :: r => do
    let ps ← ops.mapM (fun (p : String × Json) => do
      if p.1 == "(" then throw "a mutation path with a call is not modelled"
      return (p.1, ← valOfJson p.2) : String × Json → Except String (String × Val))
    return ps ++ (← pairsOfRawParts r)

def clsOfJson (j : Json) : Except String (String × ClsInfo) := do
  match ← arrOf j with
  | [n, i] =>
    return (← strOfJson n, { mro := ← listOfJson strOfJson (← i.getObjVal? "mro"),
                              hasDict := ← i.getObjValAs? Bool "dict",
                              iterable := ← i.getObjValAs? Bool "iter",
                              reg := ← i.getObjValAs? String "reg" })
  | _ => throw s!"bad class entry {j.compress}"

/-- the observation of an Assign / Delete: {"mutated":[Obj…],"err":cls|null,"same":bool}
    | {"pae":[Obj…]} (the heap after a PathAccessError) | {"other":cls} -/
def obsOfJson (j : Json) : Except String Obs := do
  if let .ok hp := j.getObjVal? "mutated" then
    let err ← (match ← j.getObjVal? "err" with
      | .str s => pure (some s)
      | .null => pure none
      | x => throw s!"err: a class name or null expected, got {x.compress}" : Except String (Option String))
    return .mutated (← heapOfJson hp) err (← j.getObjValAs? Bool "same")
  else if let .ok hp := j.getObjVal? "pae" then return .paeAt (← heapOfJson hp)
  else if let .ok c := j.getObjValAs? String "other" then return .other c
  else throw s!"bad obs {j.compress}"

def obsToJson : Obs → Json
  | .ok r => Json.mkObj [("ok", resToJson r)]
  | .pae => Json.str "pae"
  | .other c => Json.mkObj [("other", c)]
  | .mutated h e sm => Json.mkObj [("mutated", heapToJson h),
      ("err", match e with | some s => Json.str s | none => Json.null), ("same", sm)]
  | .paeAt h => Json.mkObj [("pae", heapToJson h)]
  | .backfill => Json.str "backfill"

def obsEq : Obs → Obs → Bool
  | .other a, .other b => a == b
  | .mutated h e sm, .mutated h' e' sm' => h == h' && e == e' && (e.isSome || sm == sm')
  | .paeAt h, .paeAt h' => h == h'
  | _, _ => false

def stepOfJson (j : Json) : Except String (String × Val) := pairOfJson strOfJson valOfJson j

def partOfJson (j : Json) : Except String Glom.C01.Part := do
  if let .ok v := j.getObjVal? "seg" then return .seg (← valOfJson v)
  else if let .ok t := j.getObjVal? "t" then return .t (← listOfJson stepOfJson t)
  else throw s!"bad part {j.compress}"

/-- a case outside the modelled domain: counted in the histogram under its reason (never a failure,
    never a non-trivial case) -/
def outside (reason : String) : Json :=
  Json.mkObj [("agree", true), ("holds", true), ("outside", true), ("model", Json.null),
    ("timeout", false), ("branch", Json.str s!"outside:{reason}")]

/-- the classes whose assignment / deletion behaviour is not the five layouts' (C11 / C12 / C13) -/
def catalogueCell (cs : Classes) (o : Obj) : Bool :=
  (clsInfo cs o.cls).reg != "" ||
  (match o with
   | .dict c _ => !(isA cs c "dict")
   | .inst c _ => !((clsInfo cs c).hasDict) || isA cs c "UserDict"
   | _ => false)

def heapInDomain (cs : Classes) (heap : Heap) : Bool :=
  heapWF cs heap && classesWF cs &&
  heap.all (fun o => match o with | .inst c as => userDictOK cs heap c as | _ => true)

/-- a field that must be present: `null` or an object -/
def nullOrObj (j : Json) (k : String) : Except String (Option Json) := do
  match ← j.getObjVal? k with
  | .null => return none
  | .obj o => return some (Json.obj o)
  | x => throw s!"field {k}: null or an object expected, got {x.compress}"

def run (j : Json) : Except String Json := do
  let cs ← listOfJson clsOfJson (← j.getObjVal? "classes")
  let heap ← heapOfJson (← j.getObjVal? "heap")
  let target ← valOfJson (← j.getObjVal? "target")
  let pathStar ← j.getObjValAs? Bool "path_star"
  let implJ ← j.getObjVal? "impl"
  let sroot := (← nullOrObj j "sroot").isSome
  let coJ ← nullOrObj j "co"
  let mutJ ← nullOrObj j "mut"
  -- the harness says the case is outside the reading (and why)
  if let .ok r := implJ.getObjValAs? String "outside" then
    return outside r
  if !(heapInDomain cs heap) then
    return outside "heap-not-wf"
  -- ---------------------------------------------------------------- Coalesce / default
  if let some coJ := coJ then
    let alts ← (← arrOf (← coJ.getObjVal? "alts")).mapM (fun a => do
      pairsOfRawParts (← rawPartsOfSpelling pathStar a))
    let hasD ← coJ.getObjValAs? Bool "default"
    let via ← coJ.getObjValAs? String "via"
    if !(via == "glom" || via == "coalesce") then throw s!"co.via: {via}"
    let m := if via == "glom" then glomDefault cs heap target hasD (alts.headD []) else coalesce cs heap target hasD alts 0
    let ref := refCoalesce cs heap target hasD alts
    if implJ == Json.str "timeout" then
      return Json.mkObj [("agree", false), ("holds", false), ("model", coOutToJson m), ("timeout", true), ("branch", "co-timeout")]
    let o ← obsCoOfJson (← implJ.getObjVal? "co")
    let kind := match m with
      | .ok i (.list xs) => s!"alt{i}-" ++ (if xs.isEmpty then "empty" else "list")
      | .ok i (.val _) => s!"alt{i}-value"
      | .dflt => "default"
      | .coalesceError => "CoalesceError"
      | .other c => c
    return Json.mkObj [("agree", checkCo m o), ("holds", checkCo ref o), ("model", coOutToJson m), ("timeout", false),
      ("branch", Json.str (s!"co-{via}-n{alts.length}-" ++ (if hasD then "d-" else "") ++ (if pathStar then "" else "staroff-") ++ kind))]
  let sp ← j.getObjVal? "spelling"
  let rawParts ← rawPartsOfSpelling pathStar sp
  let stepsS ← stepsOfRawParts rawParts
  -- the arithmetic steps the model knows add a number
  for st in stepsS do
    match st with
    | .acc "+" a => if (asIndex a).isNone then throw "an arithmetic step must add a number"
    | _ => pure ()
  let mutK : Option MutKind ← (match mutJ with
    | none => pure none
    | some m => do
      let k ← m.getObjValAs? String "kind"
      -- the final op is filled in below from the spelling of the last step
      if k == "assign" then
        let missing ← (match ← m.getObjVal? "missing" with
          | .null => pure false
          | .str _ => pure true
          | x => throw s!"mut.missing: {x.compress}" : Except String Bool)
        return some (.assign "P" (← valOfJson (← m.getObjVal? "val")) missing)
      else if k == "delete" then
        return some (.delete "P" (← m.getObjValAs? Bool "ignore"))
      else throw s!"mut.kind: {k}" : Except String (Option MutKind))
  -- wildcard statistics for the histogram
  let nx := (stepsS.filter (fun s => match s with | .star => true | _ => false)).length
  let nX := (stepsS.filter (fun s => match s with | .starstar => true | _ => false)).length
  let nc := (stepsS.filter (fun s => match s with | .call .. => true | _ => false)).length
  let na := (stepsS.filter (fun s => match s with | .acc "+" _ => true | _ => false)).length
  let pre := (if sroot then "S:" else "") ++ (if pathStar then "" else "staroff:")
  -- ---------------------------------------------------------------- a read
  if mutK.isNone then
    let m := modelReadS cs heap stepsS target
    if unmodelledObs m then
      return outside "unmodelled-call"
    let m := if sroot && !(remainderAtT "S") then
        { m with out := OutS.other "the remainder of an S-rooted wildcard path restarts from the scope" } else m
    if implJ == Json.str "timeout" then
      return Json.mkObj [("agree", false), ("holds", false), ("model", obsSToJson m), ("timeout", true),
        ("branch", pre ++ s!"read-x{nx}-X{nX}-timeout")]
    let o ← obsSOfJson (← implJ.getObjVal? "read")
    let holds := checkC14S cs heap stepsS target o
    let outcome := match m.out with
      | .ok (.list _ xs) => if xs.isEmpty then "empty" else "list"
      | .ok (.val _) => "value"
      | .pae => "pae"
      | .other c => c
    return Json.mkObj [("agree", obsSEq m o), ("holds", holds), ("model", obsSToJson m), ("timeout", false),
      ("branch", pre ++ s!"read-x{nx}-X{nX}" ++ (if nc > 0 then s!"-c{nc}" else "") ++ (if na > 0 then s!"-a{na}" else "")
        ++ (if m.heap == heap then "" else "-mutated") ++ s!"-{outcome}")]
  -- ---------------------------------------------------------------- Assign / Delete
  if heap.any (catalogueCell cs) then
    return outside "mutation-on-catalogue-type"
  let allSteps ← pairsOfRawParts rawParts
  let kind0 ← (match mutK with | some k => pure k | none => throw "unreachable" : Except String MutKind)
  let (steps, key, kind) ← (match allSteps.reverse with
    | (op, key) :: revInit =>
      if !(op == "P" || op == "[" || op == ".") then throw "mutation path must end in a plain / item / attribute step" else
      pure (revInit.reverse, key, (match kind0 with
        | .assign _ v m => MutKind.assign op v m
        | .delete _ ig => MutKind.delete op ig))
    | _ => throw "mutation path must end in a plain segment" : Except String (List (String × Val) × Val × MutKind))
  let modelObs := modelMutate cs heap steps key kind target
  -- `missing=` is consulted only when the path fails before its first wildcard: C11's subject
  if (match modelObs with | .backfill => true | _ => false) then
    return outside "C11-backfill"
  -- an S-rooted spelling: the model is the T-rooted evaluation of the same data only as far as the
  -- remainder after a wildcard is rooted at T in the source read on this run
  let modelObs := if sroot && !(remainderAtT "S") then
      Obs.other "the remainder of an S-rooted wildcard path restarts from the scope" else modelObs
  let kindStr := match kind with
    | .assign o _ ms => s!"assign{o}" ++ (if ms then "+missing" else "")
    | .delete o ig => s!"delete{o}" ++ (if ig then "+ignore" else "")
  let outcome := match modelObs with
    | .other c => c
    | .mutated _ (some e) _ => e
    | .mutated _ none _ => "done"
    | .paeAt _ => "pae"
    | _ => "?"
  let branch := pre ++ s!"{kindStr}-x{nx}-X{nX}-{outcome}"
  if implJ == Json.str "timeout" then
    return Json.mkObj [("agree", false), ("holds", false), ("model", obsToJson modelObs), ("timeout", true), ("branch", branch)]
  let o ← obsOfJson implJ
  return Json.mkObj [("agree", obsEq modelObs o), ("holds", checkC14 cs heap steps (some (key, kind)) target o),
    ("model", obsToJson modelObs), ("timeout", false), ("branch", branch)]

end Glom.C14.Driver
