import Lean.Data.Json
/- stub: the C14 driver is not built yet -/
namespace Glom.C14.Driver
open Lean

def run (_j : Json) : Except String Json := .error "property C14: driver not implemented yet"

end Glom.C14.Driver
