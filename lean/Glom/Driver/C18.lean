import Lean.Data.Json
/- stub: the C18 driver is not built yet -/
namespace Glom.C18.Driver
open Lean

def run (_j : Json) : Except String Json := .error "property C18: driver not implemented yet"

end Glom.C18.Driver
