import Glom.Py.Json
import Glom.Spec.C18
import Glom.Model.C18Env
import Glom.Spec.C01
import Glom.Model.C01Env
/-
  C18 driver: one JSON case in, one JSON verdict out.  Three kinds of cases:

  {"kind":"repr", "obj": OBJ,
   "impl": {"text": s, "eval": OBJ|null, "text2": s|null, "pickled": OBJ|null, "same_eval": b}}
      OBJ  ::= {"t"|"path": {"root": r, "steps": [STEP…]}}
      STEP ::= {"attr": name} | {"item": ITEM} | {"items": [ITEM…]}
             | {"call": {"args": [ARG…], "kwargs": [[k, ARG]…]}} | {"seg": ARG} | "star" | "starstar"
      ITEM ::= {"one": ARG} | {"slice": [ARG|null, ARG|null, ARG|null]}
      ARG  ::= {"lit": SCALAR} | {"t": {"root": r, "steps": [STEP…]}} | {"path": {"root": r, "steps": […]}}
             | {"seq": [KIND, [ARG…]]} | {"dict": [[ARG, ARG]…]} | {"sliceobj": [ARG, ARG, ARG]}
             (model output only: {"bad": text} | "fill" | {"deep": KIND} | {"dictmore": […]})
      KIND ::= "tuple" | "list" | "set" | "frozenset"      (sets and dicts in the order reprlib prints them)
      SCALAR ::= {"i": decimal text} | {"s": [code point…]} | {"b": [byte…]} | {"f": [repr text, hex]}
             | {"fbad": "inf"|"-inf"|"nan"} | "None" | "True" | "False" | "Ellipsis"
             | {"bi": [name, builtin repr]}

  {"kind":"seq", "root": r, "steps": [[op, argtext]…], "op": OP, "impl": RES}
      OP  ::= "len" | {"idx": i} | {"slice": [a|null, b|null, c|null]} | "values" | "items"
            | {"eq": {"root": r, "steps": […]}} | {"startswith": {…}} | {"concat": […]} | "from_t"
      RES ::= {"nat": n} | {"path": {"root": r, "steps": […]}} | {"vals": [argtext…]}
            | {"pairs": [[op, argtext]…]} | {"bool": b} | "IndexError" | "ValueError" | {"other": s}

  {"kind":"concat", "classes": …, "heap": …, "target": Val, "p": [[op, Val]…], "q": [[op, Val]…],
   "impl": {"joined": EV, "nested": {"first": EV} | {"second": EV}}}
      EV ::= {"ok": Val} | {"pae": {"idx": n, "exc": cls}} | {"other": cls}
-/
namespace Glom.C18.Driver
open Lean Glom Glom.C18

/-! ### JSON codec -/

/-- a decoded object has exactly the expected fields: an unknown or missing field is an error,
    never ignored -/
def expectKeys (what : String) (j : Json) (allowed : List String) : Except String Unit :=
  match j with
  | .obj m =>
    let ks := m.foldl (fun acc k _ => k :: acc) []
    match ks.filter (fun k => !allowed.contains k) with
    | [] => pure ()
    | bad => throw s!"{what}: unexpected field(s) {bad} in {j.compress}"
  | _ => throw s!"{what}: expected an object, got {j.compress}"

def nameOfJson (j : Json) : Except String Name := do
  match j with
  | .str s => return s.toList
  | _ => throw s!"expected name, got {j.compress}"

def natsOfJson (j : Json) : Except String (List Nat) := do
  match j with
  | .arr a => a.toList.mapM (fun x => match x.getNat? with
    | .ok n => pure n
    | .error e => throw e)
  | _ => throw s!"expected list of numbers, got {j.compress}"

def scalarOfJson (j : Json) : Except String Scalar := do
  match j with
  | .str "None" => return .none
  | .str "True" => return .bool true
  | .str "False" => return .bool false
  | .str "Ellipsis" => return .ellipsis
  | _ =>
    if let .ok (.str s) := j.getObjVal? "i" then
      match s.toInt? with
      | some i => return .int i
      | none => throw s!"bad int {s}"
    else if let .ok a := j.getObjVal? "s" then return .str (← natsOfJson a)
    else if let .ok a := j.getObjVal? "b" then return .bytes (← natsOfJson a)
    else if let .ok (.arr #[.str t, .str h]) := j.getObjVal? "f" then return .float t h
    else if let .ok (.str t) := j.getObjVal? "fbad" then return .floatBad t
    else if let .ok (.arr #[.str n, .str raw]) := j.getObjVal? "bi" then return .builtin n raw
    else throw s!"bad scalar {j.compress}"

def scalarToJson : Scalar → Json
  | .none => "None"
  | .bool true => "True"
  | .bool false => "False"
  | .ellipsis => "Ellipsis"
  | .int i => Json.mkObj [("i", toString i)]
  | .str cs => Json.mkObj [("s", Json.arr (cs.map (fun (n : Nat) => (n : Json))).toArray)]
  | .bytes bs => Json.mkObj [("b", Json.arr (bs.map (fun (n : Nat) => (n : Json))).toArray)]
  | .float t h => Json.mkObj [("f", Json.arr #[Json.str t, Json.str h])]
  | .floatBad t => Json.mkObj [("fbad", t)]
  | .builtin n raw => Json.mkObj [("bi", Json.arr #[Json.str n, Json.str raw])]

def kindOfJson (j : Json) : Except String Kind :=
  match j with
  | .str "tuple" => pure .tuple
  | .str "list" => pure .list
  | .str "set" => pure .set
  | .str "frozenset" => pure .frozenset
  | _ => throw s!"bad container kind {j.compress}"

def kindToJson : Kind → Json
  | .tuple => "tuple" | .list => "list" | .set => "set" | .frozenset => "frozenset" | .dict => "dict"

mutual
  partial def argOfJson (j : Json) : Except String (Arg Scalar) := do
    if let .ok s := j.getObjVal? "lit" then
      expectKeys "argument" j ["lit"]
      return .lit (← scalarOfJson s)
    else if let .ok t := j.getObjVal? "t" then
      expectKeys "argument" j ["t"]
      expectKeys "nested T" t ["root", "steps"]
      let r ← t.getObjValAs? String "root"
      let st ← stepsOfJson (← t.getObjVal? "steps")
      return .t r st
    else if let .ok t := j.getObjVal? "path" then
      expectKeys "argument" j ["path"]
      expectKeys "nested Path" t ["root", "steps"]
      let r ← t.getObjValAs? String "root"
      let st ← stepsOfJson (← t.getObjVal? "steps")
      return .path r st
    else if let .ok (.arr #[k, .arr xs]) := j.getObjVal? "seq" then
      expectKeys "argument" j ["seq"]
      return .seq (← kindOfJson k) (← xs.toList.mapM argOfJson)
    else if let .ok (.arr kvs) := j.getObjVal? "dict" then
      -- "order": the insertion order the harness builds the dict with (a permutation of the indexes;
      -- as a dict the argument is the same — the model prints entries in key order like reprlib)
      expectKeys "argument" j ["dict", "order"]
      if let .ok o := j.getObjVal? "order" then
        let idx ← natsOfJson o
        if !(idx.length == kvs.size && (List.range kvs.size).all (fun i => idx.contains i)) then
          throw s!"dict argument: \"order\" is not a permutation of the entries: {o.compress}"
      return .dict (← kvs.toList.mapM (fun e => match e with
        | .arr #[k, v] => do return (← argOfJson k, ← argOfJson v)
        | _ => throw s!"bad dict entry {e.compress}"))
    else if let .ok (.arr #[a, b, c]) := j.getObjVal? "sliceobj" then
      expectKeys "argument" j ["sliceobj"]
      return .sliceObj (← argOfJson a) (← argOfJson b) (← argOfJson c)
    else throw s!"bad arg {j.compress}"
  partial def optArgOfJson (j : Json) : Except String (Option (Arg Scalar)) :=
    match j with
    | .null => pure none
    | _ => do return some (← argOfJson j)
  partial def itemOfJson (j : Json) : Except String (Item Scalar) := do
    if let .ok a := j.getObjVal? "one" then
      expectKeys "item" j ["one"]
      return .one (← argOfJson a)
    else if let .ok (.arr #[a, b, c]) := j.getObjVal? "slice" then
      expectKeys "item" j ["slice"]
      return .slice (← optArgOfJson a) (← optArgOfJson b) (← optArgOfJson c)
    else throw s!"bad item {j.compress}"
  partial def stepOfJson (j : Json) : Except String (Step Scalar) := do
    match j with
    | .str "star" => return .star
    | .str "starstar" => return .starstar
    | _ =>
      expectKeys "step" j ["attr", "item", "items", "seg", "call"]
      if let .ok n := j.getObjVal? "attr" then return .attr (← nameOfJson n)
      else if let .ok i := j.getObjVal? "item" then return .item (← itemOfJson i)
      else if let .ok (.arr is) := j.getObjVal? "items" then return .items (← is.toList.mapM itemOfJson)
      else if let .ok s := j.getObjVal? "seg" then return .seg (← argOfJson s)
      else if let .ok c := j.getObjVal? "call" then
        expectKeys "call" c ["args", "kwargs"]
        let args ← match c.getObjVal? "args" with
          | .ok (.arr a) => a.toList.mapM argOfJson
          | _ => throw "bad call args"
        let kwargs ← match c.getObjVal? "kwargs" with
          | .ok (.arr a) => a.toList.mapM (fun s => match s with
            | .arr #[.str k, v] => do return (k, ← argOfJson v)
            | _ => throw s!"bad kwarg {s.compress}")
          | _ => throw "bad call kwargs"
        return .call args kwargs
      else throw s!"bad step {j.compress}"
  partial def stepsOfJson (j : Json) : Except String (List (Step Scalar)) := do
    match j with
    | .arr a => a.toList.mapM stepOfJson
    | _ => throw s!"expected steps, got {j.compress}"
end

def objOfJson (j : Json) : Except String (Obj Scalar) := do
  expectKeys "object" j ["t", "path"]
  if let .ok t := j.getObjVal? "t" then
    return .tobj (← t.getObjValAs? String "root") (← stepsOfJson (← t.getObjVal? "steps"))
  else if let .ok t := j.getObjVal? "path" then
    return .pobj (← t.getObjValAs? String "root") (← stepsOfJson (← t.getObjVal? "steps"))
  else throw s!"bad obj {j.compress}"

def optObjOfJson (j : Json) : Except String (Option (Obj Scalar)) :=
  match j with
  | .null => pure none
  | _ => do return some (← objOfJson j)

mutual
  partial def argToJson : Arg Scalar → Json
    | .lit v => Json.mkObj [("lit", scalarToJson v)]
    | .t r st => Json.mkObj [("t", Json.mkObj [("root", r), ("steps", Json.arr (st.map stepToJson).toArray)])]
    | .path r st => Json.mkObj [("path", Json.mkObj [("root", r), ("steps", Json.arr (st.map stepToJson).toArray)])]
    | .seq k xs => Json.mkObj [("seq", Json.arr #[kindToJson k, Json.arr (xs.map argToJson).toArray])]
    | .dict kvs => Json.mkObj [("dict", Json.arr (kvs.map (fun p => Json.arr #[argToJson p.1, argToJson p.2])).toArray)]
    | .sliceObj a b c => Json.mkObj [("sliceobj", Json.arr #[argToJson a, argToJson b, argToJson c])]
    | .bad s => Json.mkObj [("bad", s)]
    | .fill => "fill"
    | .deep k => Json.mkObj [("deep", kindToJson k)]
    | .dictMore kvs => Json.mkObj [("dictmore", Json.arr (kvs.map (fun p => Json.arr #[argToJson p.1, argToJson p.2])).toArray)]
  partial def optArgToJson : Option (Arg Scalar) → Json
    | none => .null
    | some a => argToJson a
  partial def itemToJson : Item Scalar → Json
    | .one a => Json.mkObj [("one", argToJson a)]
    | .slice a b c => Json.mkObj [("slice", Json.arr #[optArgToJson a, optArgToJson b, optArgToJson c])]
  partial def stepToJson : Step Scalar → Json
    | .attr n => Json.mkObj [("attr", String.ofList n)]
    | .item i => Json.mkObj [("item", itemToJson i)]
    | .items is => Json.mkObj [("items", Json.arr (is.map itemToJson).toArray)]
    | .call args kw => Json.mkObj [("call", Json.mkObj [
        ("args", Json.arr (args.map argToJson).toArray),
        ("kwargs", Json.arr (kw.map (fun p => Json.arr #[Json.str p.1, argToJson p.2])).toArray)])]
    | .seg a => Json.mkObj [("seg", argToJson a)]
    | .star => "star"
    | .starstar => "starstar"
end

def objToJson : Obj Scalar → Json
  | .tobj r s => Json.mkObj [("t", Json.mkObj [("root", r), ("steps", Json.arr (s.map stepToJson).toArray)])]
  | .pobj r s => Json.mkObj [("path", Json.mkObj [("root", r), ("steps", Json.arr (s.map stepToJson).toArray)])]

def optObjToJson : Option (Obj Scalar) → Json
  | none => .null
  | some o => objToJson o

/-- structural equality of expressions, through their JSON form (no derived instance
    exists for the nested mutual types) -/
instance : BEq (Step Scalar) := ⟨fun a b => (stepToJson a).compress == (stepToJson b).compress⟩

def obsOfJson (j : Json) : Except String (ReprObs Scalar) := do
  expectKeys "observation" j ["text", "eval", "text2", "pickled", "same_eval"]
  return { text := ← j.getObjValAs? String "text"
           evalOk := ← optObjOfJson (← j.getObjVal? "eval")
           text2 := ← (match j.getObjVal? "text2" with
             | .ok (.str s) => pure (some s)
             | .ok .null => pure none
             | .ok v => throw s!"text2: expected a string or null, got {v.compress}"
             | .error e => throw e)
           pickled := ← optObjOfJson (← j.getObjVal? "pickled")
           sameEval := ← j.getObjValAs? Bool "same_eval" }

def obsToJson (o : ReprObs Scalar) : Json :=
  Json.mkObj [("text", o.text), ("eval", optObjToJson o.evalOk),
    ("text2", match o.text2 with | some s => Json.str s | none => .null),
    ("pickled", optObjToJson o.pickled), ("same_eval", o.sameEval)]

def optObjEq (a b : Option (Obj Scalar)) : Bool :=
  match a, b with
  | none, none => true
  | some x, some y => sameObj x y
  | _, _ => false

def stepKind : Step Scalar → String
  | .attr _ => "attr" | .item _ => "item" | .items _ => "items" | .call .. => "call"
  | .seg _ => "seg" | .star => "star" | .starstar => "starstar"

def runRepr (j : Json) : Except String Json := do
  let x ← objOfJson (← j.getObjVal? "obj")
  let impl ← obsOfJson (← j.getObjVal? "impl")
  let F := genFacts
  let m := observeRepr pyScalar F x
  let agree := m.text == impl.text && optObjEq m.evalOk impl.evalOk && m.text2 == impl.text2 &&
    optObjEq m.pickled impl.pickled && m.sameEval == impl.sameEval
  -- the domain of the property: objects that can be built, whose scalars are Python expressions
  let valid := validObj x && fitsObj pyScalar F.fmt (unbounded false) x
  -- the hypothesis of the round-trip theorems: nothing exceeds a limit of the `_BBRepr` instance
  let fits := fitsObj pyScalar F.fmt F.lim x
  let holds := !valid || checkRepr x impl
  let modelHolds := checkRepr x m
  let why :=
    (if holds then "" else "property fails on the implementation's observation; ") ++
    (if agree then "" else "model differs from implementation; ") ++
    (if modelHolds || !(valid && fits) then "" else "model fails its own checker on a valid object; ") ++
    (if valid then "" else "outside the domain (not buildable / a scalar that is not an expression); ") ++
    (if fits then "" else "a limit of the _BBRepr instance is exceeded, or a part is printed by the builtin repr; ")
  let kind := match x with | .tobj r _ => s!"T-expr:{r}" | .pobj r _ => s!"Path:{r}"
  let last := match x.steps.getLast? with | some s => stepKind s | none => "empty"
  let dom := if !valid then "/out-of-domain" else if !fits then "/over-limit" else ""
  return Json.mkObj [("agree", agree && (modelHolds || !(valid && fits))), ("holds", holds),
    ("model_holds", modelHolds), ("valid", valid), ("fits", fits), ("wf", WF F), ("model", obsToJson m),
    ("branch", s!"repr/{kind}/{last}{dom}"), ("why", why)]

/-! ### sequence cases -/

def stepsPairsOfJson (j : Json) : Except String (List (String × String)) := do
  (← arrOf j).mapM (pairOfJson strOfJson strOfJson)

def optIntOfJson (j : Json) : Except String (Option Int) :=
  match j with
  | .null => pure none
  | _ => match j.getInt? with
    | .ok i => pure (some i)
    | .error e => throw e

/-- the other operand: root and steps, and how it is handed over (`"as"`: a Path, or its `path_t` —
    a T expression; `Path.__eq__` / `startswith` read both the same way) -/
def rootedOfJson (j : Json) : Except String (String × List (String × String)) := do
  match j.getObjVal? "as" with
  | .ok (.str "path") | .ok (.str "t") => pure ()
  | .ok v => throw s!"other operand: \"as\" must be \"path\" or \"t\", got {v.compress}"
  | .error _ => pure ()        -- the path itself (root + steps of the case) has no such field
  return (← j.getObjValAs? String "root", ← stepsPairsOfJson (← j.getObjVal? "steps"))

def seqOpOfJson (j : Json) : Except String (SeqOp String) := do
  match j with
  | .str "len" => return .len
  | .str "values" => return .values
  | .str "items" => return .items
  | .str "from_t" => return .fromT
  | .str "eq_other" => return .eqOther
  | .str "startswith_bad" => return .startswithBad
  | _ =>
    if let .ok i := j.getObjVal? "idx" then
      match i.getInt? with
      | .ok n => return .idx n
      | .error e => throw e
    else if let .ok (.arr #[a, b, c]) := j.getObjVal? "slice" then
      return .slice (← optIntOfJson a) (← optIntOfJson b) (← optIntOfJson c)
    else if let .ok o := j.getObjVal? "eq" then
      let (r, s) ← rootedOfJson o; return .eq r s
    else if let .ok o := j.getObjVal? "ne" then
      let (r, s) ← rootedOfJson o; return .ne r s
    else if let .ok o := j.getObjVal? "startswith" then
      let (r, s) ← rootedOfJson o; return .startswith r s
    else if let .ok (.str s) := j.getObjVal? "startswith_str" then return .startswithStr s
    else if let .ok o := j.getObjVal? "concat" then return .concat (← stepsPairsOfJson o)
    else throw s!"bad seq op {j.compress}"

def pairsToJson (st : List (String × String)) : Json :=
  Json.arr (st.map (fun s => Json.arr #[Json.str s.1, Json.str s.2])).toArray

def seqResOfJson (j : Json) : Except String (SeqRes String) := do
  match j with
  | .str "IndexError" => return .indexError
  | .str "ValueError" => return .valueError
  | .str "TypeError" => return .typeError
  | _ =>
    if let .ok n := j.getObjValAs? Nat "nat" then return .nat n
    else if let .ok p := j.getObjVal? "path" then
      let (r, s) ← rootedOfJson p; return .path r s
    else if let .ok v := j.getObjVal? "vals" then return .vals (← (← arrOf v).mapM strOfJson)
    else if let .ok v := j.getObjVal? "pairs" then return .pairs (← stepsPairsOfJson v)
    else if let .ok b := j.getObjValAs? Bool "bool" then return .bool b
    else if let .ok s := j.getObjValAs? String "other" then return .other s
    else throw s!"bad seq result {j.compress}"

def seqResToJson : SeqRes String → Json
  | .nat n => Json.mkObj [("nat", n)]
  | .path r s => Json.mkObj [("path", Json.mkObj [("root", r), ("steps", pairsToJson s)])]
  | .vals xs => Json.mkObj [("vals", Json.arr (xs.map Json.str).toArray)]
  | .pairs xs => Json.mkObj [("pairs", pairsToJson xs)]
  | .bool b => Json.mkObj [("bool", b)]
  | .indexError => "IndexError"
  | .valueError => "ValueError"
  | .typeError => "TypeError"
  | .other s => Json.mkObj [("other", s)]

def seqOpName : SeqOp String → String
  | .len => "len" | .idx _ => "idx" | .slice .. => "slice" | .values => "values" | .items => "items"
  | .eq .. => "eq" | .startswith .. => "startswith" | .concat _ => "concat" | .fromT => "from_t"
  | .ne .. => "ne" | .eqOther => "eq_other" | .startswithStr _ => "startswith_str"
  | .startswithBad => "startswith_bad"

def runSeq (j : Json) : Except String Json := do
  let root ← j.getObjValAs? String "root"
  let steps ← stepsPairsOfJson (← j.getObjVal? "steps")
  let op ← seqOpOfJson (← j.getObjVal? "op")
  let impl ← seqResOfJson (← j.getObjVal? "impl")
  expectKeys "seq case" j ["kind", "root", "steps", "op", "rt", "impl", "case"]   -- ("case": the framework's line number)
  -- "rt": the result went through pickle / copy.deepcopy (the model: `pickleRes`) or copy.copy (shallow:
  -- the same `path_t`) before it was observed; absent: observed as returned
  let rt ← (match j.getObjVal? "rt" with
    | .ok (.str "pickle") => pure "pickle"
    | .ok (.str "deepcopy") => pure "deepcopy"
    | .ok (.str "copy") => pure "copy"
    | .ok v => throw s!"rt: expected pickle / copy / deepcopy, got {v.compress}"
    | .error _ => pure "")
  let m0 := if genFacts.getitemViaSteps then seqModel root steps op else .other "unrecognised __getitem__"
  let m := if rt == "pickle" || rt == "deepcopy" then
      pickleRes genFacts.getstateRoots genFacts.setstateRoots m0 else m0
  let holds := checkSeq root steps op impl
  let agree := decide (m = impl)
  let resKind := match seqRef root steps op with
    | .indexError => "IndexError" | .valueError => "ValueError" | .path _ st => s!"path{st.length}"
    | _ => "value"
  return Json.mkObj [("agree", agree), ("holds", holds), ("model", seqResToJson m),
    ("ref", seqResToJson (seqRef root steps op)),
    ("branch", s!"seq/{seqOpName op}/{resKind}" ++ (if rt == "" then "" else "/" ++ rt)),
    ("why", (if holds then "" else "differs from the same operation on the tuple of steps; ") ++
            (if agree then "" else "model differs from implementation; "))]

/-! ### concatenation cases (C01's heap values) -/

def evOfJson (j : Json) : Except String (EvalObs Val) := do
  if let .ok v := j.getObjVal? "ok" then return .ok (← valOfJson v)
  else if let .ok p := j.getObjVal? "pae" then
    return .pae (← p.getObjValAs? Nat "idx") (← p.getObjValAs? String "exc")
  else if let .ok c := j.getObjValAs? String "other" then return .other c
  else throw s!"bad eval obs {j.compress}"

def evToJson : EvalObs Val → Json
  | .ok v => Json.mkObj [("ok", valToJson v)]
  | .pae k c => Json.mkObj [("pae", Json.mkObj [("idx", k), ("exc", c)])]
  | .other c => Json.mkObj [("other", c)]

def nestedOfJson (j : Json) : Except String (Nested Val) := do
  if let .ok o := j.getObjVal? "first" then return .first (← evOfJson o)
  else if let .ok o := j.getObjVal? "second" then return .second (← evOfJson o)
  else throw s!"bad nested obs {j.compress}"

def nestedToJson : Nested Val → Json
  | .first o => Json.mkObj [("first", evToJson o)]
  | .second o => Json.mkObj [("second", evToJson o)]

def evOfRes (r : Except C01.TErr Val) : EvalObs Val :=
  match r with
  | .ok v => .ok v
  | .error (.pae k e) => .pae k e.cls
  | .error (.raised e) => .other e.cls
  | .error .unregistered => .other "UnregisteredTarget"
  | .error .badSpec => .other "BadSpec"

def stepValOfJson (j : Json) : Except String (String × Val) := pairOfJson strOfJson valOfJson j

def runConcat (j : Json) : Except String Json := do
  let classes ← classTableOfJson (← j.getObjVal? "classes")
  let heap ← heapOfJson (← j.getObjVal? "heap")
  let target ← valOfJson (← j.getObjVal? "target")
  let p ← listOfJson stepValOfJson (← j.getObjVal? "p")
  let q ← listOfJson stepValOfJson (← j.getObjVal? "q")
  let impl ← j.getObjVal? "impl"
  let implJoined ← evOfJson (← impl.getObjVal? "joined")
  let implNested ← nestedOfJson (← impl.getObjVal? "nested")
  if !(C01.wfSteps p && C01.wfSteps q) then
    throw "concat case: a path with non-access steps (the generator only writes attribute / item / plain steps)"
  let env := C01.genEnv classes
  let ev (steps : List (String × Val)) (t : Val) : EvalObs Val :=
    evOfRes (C01.tEval env heap (.sent "T" :: C01.flatOfSteps steps) t).res
  let mJoined := ev (p ++ q) target
  let mNested : Nested Val := match ev p target with
    | .ok v => .second (ev q v)
    | o => .first o
  let holds := checkConcat p.length implJoined implNested
  let modelHolds := checkConcat p.length mJoined mNested
  let agree := decide (mJoined = implJoined) && decide (mNested = implNested) && modelHolds
  let br := match mNested with
    | .first _ => "fail-in-p" | .second (.ok _) => "ok" | .second _ => "fail-in-q"
  return Json.mkObj [("agree", agree), ("holds", holds), ("model_holds", modelHolds),
    ("model", Json.mkObj [("joined", evToJson mJoined), ("nested", nestedToJson mNested)]),
    ("branch", s!"concat/{br}"),
    ("why", (if holds then "" else "glom(t, Path(p, q)) differs from glom(glom(t, p), q); ") ++
            (if agree then "" else "model differs from implementation; "))]

def run (j : Json) : Except String Json := do
  match j.getObjValAs? String "kind" with
  | .ok "repr" => runRepr j
  | .ok "seq" => runSeq j
  | .ok "concat" => runConcat j
  | _ => throw "unknown case kind"

end Glom.C18.Driver
