import Lean.Data.Json
import Glom.Spec.C19
import Glom.Model.C19Env
/-
  C19 driver: one JSON case in, one JSON verdict out.

  case:
    "argv":  {"posargs":[…],"target_file":s|null,"target_format":s|null,"spec_file":s|null,
              "spec_format":s|null,"indent":n|null,"scalar":b}
    "files": [[path, content|null|{"bytes":hex}|{"dir":true}]…]   (null = missing; bytes: written as they
             are — not text when they are no UTF-8; dir: a directory of that name)
    "stdin": text|{"bytes":hex}, "tty": bool, "hostile": bool
    "ext":   the trusted externals as tables computed by the harness with the real functions
             (values are opaque ids):
       "parse":[[kind,text,{"ok":id}|{"err":cls}]…]  "load":[[kind,text,{"ok":id}|{"err":cls}]…]
       "repr":[[text,repr]…]  "strspec":[[text,id]…]  "empty_spec":id  "empty_target":id
       "glom":[[tid,sid,{"ok":rid}|{"glomerror":[cls,msg]}|{"other":cls}]…]
       "dumps":[[rid,indent|null,{"ok":text}|{"err":cls}]…]  "scalar":[[rid,isScalar,str]…]
       "read":[[path,{"ok":text}|{"err":cls}]…]   what `open(path).read()` gives (text mode) for every file of the case
       "stdin_text":text|null, "stdin_err":cls|null   what `sys.stdin.read()` gives
       "mro":[[cls,[names…]]…]   the MRO of every exception class named in the tables
    "impl":  {"outcome":{"exit":[code,stdout]}|{"usage":true}|{"exc":cls},"side_effect":b}
  A lookup that misses its table yields the class "<no-oracle>".
-/
namespace Glom.C19.Driver
open Lean Glom Glom.C19

def arr (j : Json) : Except String (List Json) :=
  match j with
  | .arr a => .ok a.toList
  | _ => .error s!"expected array, got {j.compress}"

def optStr (j : Json) (k : String) : Option String :=
  match j.getObjVal? k with
  | .ok (.str s) => some s
  | _ => none

def resOfJson (j : Json) : Except String Nat :=
  if let .ok n := j.getObjValAs? Nat "ok" then .ok n
  else if let .ok c := j.getObjValAs? String "err" then .error c
  else .error "<bad-oracle>"

structure Tables where
  parse : List (String × String × Except String Nat)
  load : List (String × String × Except String Nat)
  repr : List (String × String)
  strspec : List (String × Nat)
  emptySpec : Nat
  emptyTarget : Nat
  glom : List (Nat × Nat × LibRes Nat)
  dumps : List (Nat × Option Int × Except String String)
  scalar : List (Nat × Bool × String)
  files : List (String × Option String)
  readErr : List (String × String)
  mro : List (String × List String)

def triple (j : Json) : Except String (Json × Json × Json) := do
  match ← arr j with
  | [a, b, c] => return (a, b, c)
  | _ => throw s!"expected triple, got {j.compress}"

def tablesOfJson (e files : Json) : Except String Tables := do
  let kts := fun (k : String) => do
    (← arr (← e.getObjVal? k)).mapM (fun row => do
      let (a, b, c) ← triple row
      return (← a.getStr?, ← b.getStr?, resOfJson c))
  let parse ← kts "parse"
  let load ← kts "load"
  let repr ← (← arr (← e.getObjVal? "repr")).mapM (fun row => do
    match ← arr row with
    | [a, b] => return (← a.getStr?, ← b.getStr?)
    | _ => throw "bad repr row")
  let strspec ← (← arr (← e.getObjVal? "strspec")).mapM (fun row => do
    match ← arr row with
    | [a, b] => return (← a.getStr?, ← b.getNat?)
    | _ => throw "bad strspec row")
  let glom ← (← arr (← e.getObjVal? "glom")).mapM (fun row => do
    let (a, b, c) ← triple row
    let r : LibRes Nat ←
      (if let .ok n := c.getObjValAs? Nat "ok" then pure (.ok n)
       else if let .ok g := c.getObjVal? "glomerror" then do
         match ← arr g with
         | [cls, msg] => pure (.glomError (← cls.getStr?) (← msg.getStr?))
         | _ => throw "bad glomerror"
       else if let .ok o := c.getObjValAs? String "other" then pure (.other o)
       else throw "bad glom row")
    return (← a.getNat?, ← b.getNat?, r))
  let dumps ← (← arr (← e.getObjVal? "dumps")).mapM (fun row => do
    let (a, b, c) ← triple row
    let ind : Option Int ← (match b with | .null => pure none | x => do return some (← x.getInt?))
    let r : Except String String :=
      if let .ok s := c.getObjValAs? String "ok" then .ok s
      else if let .ok s := c.getObjValAs? String "err" then .error s else .error "<bad-oracle>"
    return (← a.getNat?, ind, r))
  let scalar ← (← arr (← e.getObjVal? "scalar")).mapM (fun row => do
    let (a, b, c) ← triple row
    return (← a.getNat?, ← b.getBool?, ← c.getStr?))
  -- what reading each file gives: the oracle's table when present (undecodable bytes, directories),
  -- else the content itself
  let rd : List (String × Except String String) := match e.getObjVal? "read" with
    | .ok (.arr rows) => rows.toList.filterMap (fun row => match row with
        | .arr #[.str p, r] =>
          if let .ok t := r.getObjValAs? String "ok" then some (p, .ok t)
          else if let .ok c := r.getObjValAs? String "err" then some (p, .error c) else none
        | _ => none)
    | _ => []
  let fl ← (← arr files).mapM (fun row => do
    match ← arr row with
    | [p, c] =>
      let p ← p.getStr?
      match rd.find? (·.1 == p), c with
      | some (_, .ok t), _ => return (p, some t)
      | some (_, .error _), _ => return (p, none)
      | none, .str t => return (p, some t)
      | none, _ => return (p, none)
    | _ => throw "bad files row")
  let readErr := rd.filterMap (fun r => match r.2 with | .error c => some (r.1, c) | .ok _ => none)
  let mro : List (String × List String) := match e.getObjVal? "mro" with
    | .ok (.arr rows) => rows.toList.filterMap (fun row => match row with
        | .arr #[.str c, .arr ns] => some (c, ns.toList.filterMap (fun n => n.getStr?.toOption))
        | _ => none)
    | _ => []
  return { parse := parse, load := load, repr := repr, strspec := strspec,
           emptySpec := ← e.getObjValAs? Nat "empty_spec", emptyTarget := ← e.getObjValAs? Nat "empty_target",
           glom := glom, dumps := dumps, scalar := scalar, files := fl, readErr := readErr, mro := mro }

def lookup3 (t : List (String × String × Except String Nat)) (k x : String) : Except String Nat :=
  match t.find? (fun r => r.1 == k && r.2.1 == x) with
  | some r => r.2.2
  | none => .error "<no-oracle>"

/-- the externals, as table lookups -/
def extOf (t : Tables) : Ext Nat Nat Nat :=
  { parse := lookup3 t.parse
    load := lookup3 t.load
    strSpec := fun s => match t.strspec.find? (·.1 == s) with | some r => r.2 | none => 999999
    repr := fun s => match t.repr.find? (·.1 == s) with | some r => r.2 | none => "<no-oracle>"
    emptySpec := t.emptySpec
    emptyTarget := t.emptyTarget
    glom := fun a b => match t.glom.find? (fun r => r.1 == a && r.2.1 == b) with
      | some r => r.2.2 | none => .other "<no-oracle>"
    dumps := fun r i => match t.dumps.find? (fun x => x.1 == r && x.2.1 == i) with
      | some x => x.2.2 | none => .error "<no-oracle>"
    isScalar := fun r => match t.scalar.find? (·.1 == r) with | some x => x.2.1 | none => false
    str := fun r => match t.scalar.find? (·.1 == r) with | some x => x.2.2 | none => "<no-oracle>"
    readFile := fun p => match t.files.find? (·.1 == p) with | some x => x.2 | none => none
    readErr := fun p => match t.readErr.find? (·.1 == p) with | some x => x.2 | none => "FileNotFoundError"
    mro := fun c => match t.mro.find? (·.1 == c) with
      | some x => x.2
      -- a file named nowhere in the case does not exist
      | none => if c == "FileNotFoundError" then ["FileNotFoundError", "OSError", "Exception", "BaseException"] else [c] }

/-- the trusted facts about the externals' failures (`LoadErrOk`, `ReadErrOk` of Lemmas/C19),
    evaluated on this case's tables: every class a loader raised is an `Exception` subclass, every
    failing read an OSError or a UnicodeError -/
def isTextReadErrB (X : Ext Nat Nat Nat) (c : String) : Bool :=
  (X.mro c).contains "Exception" && (X.mro c).contains "BaseException" &&
  ((X.mro c).contains "OSError" || ((X.mro c).contains "UnicodeError" && (X.mro c).contains "ValueError"))

def extFactsOk (t : Tables) (X : Ext Nat Nat Nat) (w : World) : Bool :=
  t.load.all (fun r => match r.2.2 with
    | .error c => c == "<no-oracle>" || (X.mro c).contains "Exception"
    | .ok _ => true) &&
  t.readErr.all (fun r => isTextReadErrB X r.2) &&
  (match w.stdinErr with | some c => isTextReadErrB X c | none => true)

def argvOfJson (j : Json) : Except String Argv := do
  let pos ← (← arr (← j.getObjVal? "posargs")).mapM (fun x => x.getStr?)
  let ind : Option Int := match j.getObjVal? "indent" with
    | .ok (.num n) => if n.exponent == 0 then some n.mantissa else none
    | _ => none
  return { posargs := pos, targetFile := optStr j "target_file", targetFormat := optStr j "target_format",
           specFile := optStr j "spec_file", specFormat := optStr j "spec_format", indent := ind,
           scalar := (j.getObjValAs? Bool "scalar").toOption.getD false }

def outcomeOfJson (j : Json) : Except String Outcome := do
  if let .ok e := j.getObjVal? "exit" then
    match ← arr e with
    | [c, s] => return .exit (← c.getNat?) (← s.getStr?)
    | _ => throw "bad exit"
  else if let .ok _ := j.getObjVal? "usage" then return .usage .specBoth
  else if let .ok c := j.getObjValAs? String "exc" then return .exc c
  else throw s!"bad outcome {j.compress}"

/-- what is compared: a GlomError exit by class name only, a usage error without its kind -/
def canon (o : Outcome) : Outcome :=
  match o with
  | .exit 1 out => .exit 1 (String.ofList (out.toList.takeWhile (· != ':')))
  | .usage _ => .usage .specBoth
  | o => o

def outcomeToJson : Outcome → Json
  | .exit c s => Json.mkObj [("exit", Json.arr #[c, s])]
  | .usage u => Json.mkObj [("usage", (reprStr u : String))]
  | .exc c => Json.mkObj [("exc", c)]

def expectTag : Expect → String
  | .result _ => "result" | .glomError c => s!"glomerror-{c}" | .targetUsage => "target-usage"
  | .noResult => "malformed-spec" | .silent => "silent"

def run (j : Json) : Except String Json := do
  let a ← argvOfJson (← j.getObjVal? "argv")
  let t ← tablesOfJson (← j.getObjVal? "ext") (← j.getObjVal? "files")
  let e ← j.getObjVal? "ext"
  let stdinText : String := match j.getObjVal? "stdin" with
    | .ok (.str s) => s
    | _ => (e.getObjValAs? String "stdin_text").toOption.getD ""
  let w : World := ⟨stdinText, ← j.getObjValAs? Bool "tty", (e.getObjValAs? String "stdin_err").toOption⟩
  let hostile := (j.getObjValAs? Bool "hostile").toOption.getD false
  let impl ← j.getObjVal? "impl"
  if let .ok true := impl.getObjValAs? Bool "clierror" then
    return Json.mkObj [("skip", true), ("why", "face rejected the command line (outside the model)")]
  let implOut ← outcomeOfJson (← impl.getObjVal? "outcome")
  let side ← impl.getObjValAs? Bool "side_effect"
  let X := extOf t
  let F := genFacts
  let m := cliMain F X a w
  let ex := expect X a w
  let holds := checkC19 X a w hostile ⟨implOut, side⟩
  let modelHolds := checkC19 X a w hostile (observe m)
  let factsOk := extFactsOk t X w
  let agree := canon m == canon implOut && !side && factsOk
  let src := (if a.specFile.isSome then "spec:file" else "spec:argv") ++ "," ++
    (match a.posargs, a.targetFile with
     | [_, "-"], _ => "target:dash"
     | [_, _], none => "target:argv"
     | _, some "-" => "target:dashfile"
     | _, some _ => "target:file"
     | _, none => if w.stdinTty then "target:none" else "target:piped")
  return Json.mkObj [("agree", agree), ("holds", holds), ("model_holds", modelHolds), ("wf", WF F),
    ("model", outcomeToJson m),
    ("branch", ((if hostile then "hostile/" else "") ++ expectTag ex ++ "/" ++
      (match canon m with | .exit c _ => s!"exit{c}" | .usage _ => "usage" | .exc c => s!"exc-{c}") ++
      (if ex == .silent then "" else "/" ++ src) : String)),
    ("why", (if agree then "" else if !factsOk then
        "a trusted fact about the externals does not hold on this case: a loader raised a class outside Exception, or a read failed with neither an OSError nor a UnicodeError"
      else "model outcome differs from the implementation's" : String))]

end Glom.C19.Driver
