import Lean.Data.Json
/- stub: the C19 driver is not built yet -/
namespace Glom.C19.Driver
open Lean

def run (_j : Json) : Except String Json := .error "property C19: driver not implemented yet"

end Glom.C19.Driver
