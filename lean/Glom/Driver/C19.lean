import Lean.Data.Json
import Glom.Spec.C19
import Glom.Spec.C19Face
import Glom.Model.C19Env
/-
  C19 driver: one JSON case in, one JSON verdict out.

  case:
    "argv":  {"posargs":[…],"target_file":s|null,"target_format":s|null,"spec_file":s|null,
              "spec_format":s|null,"indent":n|null,"scalar":b}
    "files": [[path, content|null|{"bytes":hex}|{"dir":true}]…]   (null = missing; bytes: written as they
             are — not text when they are no UTF-8; dir: a directory of that name)
    "stdin": text|{"bytes":hex}, "tty": bool, "hostile": bool
    "ext":   the trusted externals as tables computed by the harness with the real functions
             (values are opaque ids):
       "parse":[[kind,text,{"ok":id}|{"err":cls}]…]  "load":[[kind,text,{"ok":id}|{"err":cls}]…]
       "repr":[[text,repr]…]  "strspec":[[text,id]…]  "empty_spec":id  "empty_target":id
       "glom":[[tid,sid,{"ok":rid}|{"glomerror":[cls,msg]}|{"other":cls}]…]
       "dumps":[[rid,indent|null,{"ok":text}|{"err":cls}]…]  "scalar":[[rid,isScalar,str]…]
       "read":[[path,{"ok":text}|{"err":cls}]…]   what `open(path).read()` gives (text mode) for every file of the case
       "stdin_text":text|null, "stdin_err":cls|null   what `sys.stdin.read()` gives
       "mro":[[cls,[names…]]…]   the MRO of every exception class named in the tables
       "inspect":[[sid,echo,recursive,breakpoint,post_mortem,sid']…]   Inspect(spec, …) as a spec id
       "printed":[[tid,sid,text]…]   what glom.glom(t, s) wrote to stdout (rows only where it wrote something)
       "parseint":[[text,n|null]…]   int(text)        "help":text   the help handler's output
       "flagfile":[[path,{"err":cls}|{"exc":cls}|{"lines":[{"err":cls}|{"tok":[…]}…]}]…]   "abspath":[[path,abs]…]
    "raw":   the argument list as the process receives it (["glom", …]); when present the model PARSES it
             (Model/C19Face) and, when "argv" is present too, must arrive at these flags
    "stdin_state": "open" | "closed" | "absent"   (sys.stdin usable / .close()d / None)
    EVERY field named here must be present (null where "not given"): a missing key, a row that does not
    decode, a result without its `scalar` row, a reference lookup without its oracle row are ERRORS.
    "impl":  {"outcome":{"exit":[code,stdout]}|{"usage":true}|{"cli":true}|{"exc":cls},"side_effect":b}
    channel mode — the same request through several deliveries:
    "req":   {"spec":text,"target":text,"fmt":s|null,"indent":n|null,"scalar":b,"spec_format":s|null,
              "spec_path":path,"target_path":path,"junk":text,"tty":b}
    "vias":  [[sv,tv]…]  sv ∈ argv|file, tv ∈ argv|file|dash|dashfile|piped
    "impl_vias": [{"outcome":…,"side_effect":b}…]   aligned with "vias"
  A lookup that misses its table yields the marker "<no-oracle>": in the REFERENCE that is a driver error
  (the oracle is incomplete), in the MODEL only it is a disagreement (the model took another path).
-/
namespace Glom.C19.Driver
open Lean Glom Glom.C19

def arr (j : Json) : Except String (List Json) :=
  match j with
  | .arr a => .ok a.toList
  | _ => .error s!"expected array, got {j.compress}"

/-- a field that must be THERE: a string, or null for "not given" (a missing key, or any other
    type, is a decoding error — never a silent default) -/
def nullableStr (j : Json) (k : String) : Except String (Option String) :=
  match j.getObjVal? k with
  | .ok (.str s) => .ok (some s)
  | .ok .null => .ok none
  | .ok x => .error s!"field {k}: expected a string or null, got {x.compress}"
  | .error _ => .error s!"field {k} is missing"

def nullableInt (j : Json) (k : String) : Except String (Option Int) :=
  match j.getObjVal? k with
  | .ok .null => .ok none
  | .ok (.num n) => if n.exponent == 0 then .ok (some n.mantissa) else .error s!"field {k}: not an integer"
  | .ok x => .error s!"field {k}: expected an integer or null, got {x.compress}"
  | .error _ => .error s!"field {k} is missing"

def reqBool (j : Json) (k : String) : Except String Bool :=
  match j.getObjVal? k with
  | .ok (.bool b) => .ok b
  | .ok x => .error s!"field {k}: expected a boolean, got {x.compress}"
  | .error _ => .error s!"field {k} is missing"

def resOfJson (j : Json) : Except String Nat :=
  if let .ok n := j.getObjValAs? Nat "ok" then .ok n
  else if let .ok c := j.getObjValAs? String "err" then .error c
  else .error "<bad-oracle>"

structure Tables where
  parse : List (String × String × Except String Nat)
  load : List (String × String × Except String Nat)
  repr : List (String × String)
  strspec : List (String × Nat)
  emptySpec : Nat
  emptyTarget : Nat
  glom : List (Nat × Nat × LibRes Nat)
  dumps : List (Nat × Option Int × Except String String)
  scalar : List (Nat × Bool × String)
  files : List (String × Option String)
  readErr : List (String × String)
  mro : List (String × List String)
  inspect : List (Nat × Bool × Bool × Bool × Bool × Nat)
  printed : List (Nat × Nat × String)
  parseint : List (String × Option Int)
  help : String
  flagfile : List (String × Except (Bool × String) (List (Except String (List String))))
  abspath : List (String × String)

def triple (j : Json) : Except String (Json × Json × Json) := do
  match ← arr j with
  | [a, b, c] => return (a, b, c)
  | _ => throw s!"expected triple, got {j.compress}"

def tablesOfJson (e files : Json) : Except String Tables := do
  let kts := fun (k : String) => do
    (← arr (← e.getObjVal? k)).mapM (fun row => do
      let (a, b, c) ← triple row
      return (← a.getStr?, ← b.getStr?, resOfJson c))
  let parse ← kts "parse"
  let load ← kts "load"
  let repr ← (← arr (← e.getObjVal? "repr")).mapM (fun row => do
    match ← arr row with
    | [a, b] => return (← a.getStr?, ← b.getStr?)
    | _ => throw "bad repr row")
  let strspec ← (← arr (← e.getObjVal? "strspec")).mapM (fun row => do
    match ← arr row with
    | [a, b] => return (← a.getStr?, ← b.getNat?)
    | _ => throw "bad strspec row")
  let glom ← (← arr (← e.getObjVal? "glom")).mapM (fun row => do
    let (a, b, c) ← triple row
    let r : LibRes Nat ←
      (if let .ok n := c.getObjValAs? Nat "ok" then pure (.ok n)
       else if let .ok g := c.getObjVal? "glomerror" then do
         match ← arr g with
         | [cls, msg] => pure (.glomError (← cls.getStr?) (← msg.getStr?))
         | _ => throw "bad glomerror"
       else if let .ok o := c.getObjValAs? String "other" then pure (.other o)
       else throw "bad glom row")
    return (← a.getNat?, ← b.getNat?, r))
  let dumps ← (← arr (← e.getObjVal? "dumps")).mapM (fun row => do
    let (a, b, c) ← triple row
    let ind : Option Int ← (match b with | .null => pure none | x => do return some (← x.getInt?))
    let r : Except String String :=
      if let .ok s := c.getObjValAs? String "ok" then .ok s
      else if let .ok s := c.getObjValAs? String "err" then .error s else .error "<bad-oracle>"
    return (← a.getNat?, ind, r))
  let scalar ← (← arr (← e.getObjVal? "scalar")).mapM (fun row => do
    let (a, b, c) ← triple row
    return (← a.getNat?, ← b.getBool?, ← c.getStr?))
  -- what reading each file gives: the oracle's table when present (undecodable bytes, directories),
  -- else the content itself
  let rd : List (String × Except String String) ← (← arr (← e.getObjVal? "read")).mapM (fun row =>
    match row with
    | .arr #[.str p, r] =>
      if let .ok t := r.getObjValAs? String "ok" then pure (p, (.ok t : Except String String))
      else if let .ok c := r.getObjValAs? String "err" then pure (p, .error c)
      else throw s!"bad read row {row.compress}"
    | _ => throw s!"bad read row {row.compress}")
  let fl ← (← arr files).mapM (fun row => do
    match ← arr row with
    | [p, c] =>
      let p ← p.getStr?
      match rd.find? (·.1 == p), c with
      | some (_, .ok t), _ => return (p, some t)
      | some (_, .error _), _ => return (p, none)
      | none, .str t => return (p, some t)
      | none, _ => return (p, none)
    | _ => throw "bad files row")
  let readErr := rd.filterMap (fun r => match r.2 with | .error c => some (r.1, c) | .ok _ => none)
  let mro : List (String × List String) ← (← arr (← e.getObjVal? "mro")).mapM (fun row =>
    match row with
    | .arr #[.str c, .arr ns] => do
      let names ← ns.toList.mapM (fun n => n.getStr?)
      pure (c, names)
    | _ => throw s!"bad mro row {row.compress}")
  let reqArr := fun (k : String) => do arr (← e.getObjVal? k)
  let inspect ← (← reqArr "inspect").mapM (fun row => match row with
    | .arr #[a, .bool b1, .bool b2, .bool b3, .bool b4, c] => do pure ((← a.getNat?), b1, b2, b3, b4, (← c.getNat?))
    | _ => throw s!"bad inspect row {row.compress}")
  let printed ← (← reqArr "printed").mapM (fun row => match row with
    | .arr #[a, b, .str t] => do pure ((← a.getNat?), (← b.getNat?), t)
    | _ => throw s!"bad printed row {row.compress}")
  let parseint ← (← reqArr "parseint").mapM (fun row => match row with
    | .arr #[.str t, .null] => pure (t, (none : Option Int))
    | .arr #[.str t, n] => do pure (t, some (← n.getInt?))
    | _ => throw s!"bad parseint row {row.compress}")
  let strList := fun (x : Json) => do (← arr x).mapM (fun y => y.getStr?)
  let flagfile ← (← reqArr "flagfile").mapM (fun row => match row with
    | .arr #[.str p, r] =>
      if let .ok c := r.getObjValAs? String "err" then
        pure (p, (.error (true, c) : Except (Bool × String) (List (Except String (List String)))))
      else if let .ok c := r.getObjValAs? String "exc" then pure (p, .error (false, c))
      else do
        let ls ← arr (← r.getObjVal? "lines")
        let lines ← ls.mapM (fun l =>
          if let .ok c := l.getObjValAs? String "err" then pure (.error c : Except String (List String))
          else do pure (.ok (← strList (← l.getObjVal? "tok"))))
        pure (p, .ok lines)
    | _ => throw s!"bad flagfile row {row.compress}")
  let abspath ← (← reqArr "abspath").mapM (fun row => match row with
    | .arr #[.str a, .str b] => pure (a, b)
    | _ => throw s!"bad abspath row {row.compress}")
  -- every result the library table names has its `scalar` row (is_scalar / str)
  for g in glom do
    match g.2.2 with
    | .ok rid => if !(scalar.any (·.1 == rid)) then throw s!"oracle: result {rid} has no scalar row"
    | _ => pure ()
  return { inspect := inspect, printed := printed, parseint := parseint,
           help := (← nullableStr e "help").getD "<no-oracle>",
           flagfile := flagfile, abspath := abspath,
           parse := parse, load := load, repr := repr, strspec := strspec,
           emptySpec := ← e.getObjValAs? Nat "empty_spec", emptyTarget := ← e.getObjValAs? Nat "empty_target",
           glom := glom, dumps := dumps, scalar := scalar, files := fl, readErr := readErr, mro := mro }

def lookup3 (t : List (String × String × Except String Nat)) (k x : String) : Except String Nat :=
  match t.find? (fun r => r.1 == k && r.2.1 == x) with
  | some r => r.2.2
  | none => .error "<no-oracle>"

/-- the externals, as table lookups -/
def extOf (t : Tables) : Ext Nat Nat Nat :=
  { parse := lookup3 t.parse
    load := lookup3 t.load
    strSpec := fun s => match t.strspec.find? (·.1 == s) with | some r => r.2 | none => 999999
    repr := fun s => match t.repr.find? (·.1 == s) with | some r => r.2 | none => "<no-oracle>"
    emptySpec := t.emptySpec
    emptyTarget := t.emptyTarget
    glom := fun a b => match t.glom.find? (fun r => r.1 == a && r.2.1 == b) with
      | some r => r.2.2 | none => .other "<no-oracle>"
    dumps := fun r i => match t.dumps.find? (fun x => x.1 == r && x.2.1 == i) with
      | some x => x.2.2 | none => .error "<no-oracle>"
    isScalar := fun r => match t.scalar.find? (·.1 == r) with | some x => x.2.1 | none => false
    str := fun r => match t.scalar.find? (·.1 == r) with | some x => x.2.2 | none => "<no-oracle>"
    readFile := fun p => match t.files.find? (·.1 == p) with | some x => x.2 | none => none
    readErr := fun p => match t.readErr.find? (·.1 == p) with | some x => x.2 | none => "FileNotFoundError"
    mro := fun c => match t.mro.find? (·.1 == c) with
      | some x => x.2
      -- a file named nowhere in the case does not exist
      | none => if c == "FileNotFoundError" then ["FileNotFoundError", "OSError", "Exception", "BaseException"] else [c]
    inspect := fun s e r b p => match t.inspect.find? (fun x => x.1 == s && x.2.1 == e && x.2.2.1 == r && x.2.2.2.1 == b && x.2.2.2.2.1 == p) with
      | some x => x.2.2.2.2.2 | none => 999998
    printed := fun a b => match t.printed.find? (fun x => x.1 == a && x.2.1 == b) with | some x => x.2.2 | none => ""
    parseInt := fun s => match t.parseint.find? (·.1 == s) with | some x => x.2 | none => none
    helpText := t.help
    flagfile := fun p => match t.flagfile.find? (·.1 == p) with | some x => x.2 | none => .error (true, "FileNotFoundError")
    abspath := fun p => match t.abspath.find? (·.1 == p) with | some x => x.2 | none => p }

/-- the trusted facts about the externals' failures (`LoadErrOk`, `ReadErrOk` of Lemmas/C19),
    evaluated on this case's tables: every class a loader raised is an `Exception` subclass, every
    failing read an OSError or a UnicodeError -/
def isTextReadErrB (X : Ext Nat Nat Nat) (c : String) : Bool :=
  (X.mro c).contains "Exception" && (X.mro c).contains "BaseException" &&
  ((X.mro c).contains "OSError" || ((X.mro c).contains "UnicodeError" && (X.mro c).contains "ValueError"))

def extFactsOk (t : Tables) (X : Ext Nat Nat Nat) (w : World) : Bool :=
  t.load.all (fun r => match r.2.2 with
    | .error c => c == "<no-oracle>" || (X.mro c).contains "Exception"
    | .ok _ => true) &&
  t.readErr.all (fun r => isTextReadErrB X r.2) &&
  (match w.readErr with
   | some c => (X.mro c).contains "Exception" && (X.mro c).contains "BaseException" &&
       ((X.mro c).contains "OSError" || (X.mro c).contains "ValueError" || (X.mro c).contains "AttributeError")
   | none => true) &&
  -- the library call prints nothing unless the spec is an Inspect built by --debug / --inspect
  t.printed.all (fun r => r.2.2.isEmpty || t.inspect.any (fun i => i.2.2.2.2.2 == r.2.1))

def argvOfJson (j : Json) : Except String Argv := do
  let pos ← (← arr (← j.getObjVal? "posargs")).mapM (fun x => x.getStr?)
  return { posargs := pos, targetFile := ← nullableStr j "target_file", targetFormat := ← nullableStr j "target_format",
           specFile := ← nullableStr j "spec_file", specFormat := ← nullableStr j "spec_format",
           indent := ← nullableInt j "indent", scalar := ← reqBool j "scalar",
           debug := ← reqBool j "debug", inspect := ← reqBool j "inspect" }

def stdinStateOf (s : String) : Except String StdinState :=
  if s == "open" then .ok .open else if s == "closed" then .ok .closed
  else if s == "absent" then .ok .absent else .error s!"bad stdin_state {s}"

/-- the marker of a table lookup that found no row -/
def noOracle : String := "<no-oracle>"

def hasNoOracle (s : String) : Bool := (s.splitOn noOracle).length > 1

/-- did this outcome go through a lookup the oracle has no row for -/
def outcomeNoOracle : Outcome → Bool
  | .exit _ s => hasNoOracle s
  | .usage (.loadError c) => hasNoOracle c
  | .exc c => hasNoOracle c
  | _ => false

def expectNoOracle : Expect → Bool
  | .result s => hasNoOracle s
  | .glomError c => hasNoOracle c
  | .unserialisable c => hasNoOracle c
  | .libOther c => hasNoOracle c
  | _ => false

def outcomeOfJson (j : Json) : Except String Outcome := do
  if let .ok e := j.getObjVal? "exit" then
    match ← arr e with
    | [c, s] => return .exit (← c.getNat?) (← s.getStr?)
    | _ => throw "bad exit"
  else if let .ok _ := j.getObjVal? "usage" then return .usage .specBoth
  else if let .ok _ := j.getObjVal? "cli" then return .cli .emptyArgv
  else if let .ok c := j.getObjValAs? String "exc" then return .exc c
  else throw s!"bad outcome {j.compress}"

/-- what is compared: everything but the kind of a usage error / of a rejected command line
    (the `Class: message` line of a GlomError in full) -/
def canon (o : Outcome) : Outcome :=
  match o with
  | .usage _ => .usage .specBoth
  | .cli _ => .cli .emptyArgv
  | o => o

def outcomeToJson : Outcome → Json
  | .exit c s => Json.mkObj [("exit", Json.arr #[c, s])]
  | .usage u => Json.mkObj [("usage", (reprStr u : String))]
  | .cli e => Json.mkObj [("cli", (reprStr e : String))]
  | .exc c => Json.mkObj [("exc", c)]

def expectTag : Expect → String
  | .result _ => "result" | .glomError c => s!"glomerror-{c}" | .targetUsage => "target-usage"
  | .noResult => "malformed-spec" | .silent => "silent"
  | .unserialisable c => s!"unserialisable-{c}" | .libOther c => s!"lib-other-{c}"

def outTag (o : Outcome) : String :=
  match canon o with | .exit c _ => s!"exit{c}" | .usage _ => "usage" | .cli _ => "cli" | .exc c => s!"exc-{c}"

def specViaOf (s path : String) : Except String SpecVia :=
  if s == "argv" then .ok .argv else if s == "file" then .ok (.file path) else .error s!"bad spec via {s}"

def targetViaOf (s path : String) : Except String TargetVia :=
  if s == "argv" then .ok .argv else if s == "file" then .ok (.file path)
  else if s == "dash" then .ok .dashArg else if s == "dashfile" then .ok .dashFile
  else if s == "piped" then .ok .piped else .error s!"bad target via {s}"

def implObs (impl : Json) : Except String Obs := do
  return ⟨← outcomeOfJson (← impl.getObjVal? "outcome"), ← impl.getObjValAs? Bool "side_effect"⟩

/-- channel mode: one request, several deliveries -/
def runChannels (j : Json) (t : Tables) (hostile : Bool) : Except String Json := do
  let rq ← j.getObjVal? "req"
  let specPath ← rq.getObjValAs? String "spec_path"
  let targetPath ← rq.getObjValAs? String "target_path"
  let q : Request :=
    { specText := ← rq.getObjValAs? String "spec", targetText := ← rq.getObjValAs? String "target",
      sv := .argv, tv := .argv, targetFormat := ← nullableStr rq "fmt", indent := ← nullableInt rq "indent",
      scalar := ← reqBool rq "scalar", specFormat := ← nullableStr rq "spec_format" }
  let junk ← rq.getObjValAs? String "junk"
  let tty ← rq.getObjValAs? Bool "tty"
  let vias ← (← arr (← j.getObjVal? "vias")).mapM (fun v => do
    match ← arr v with
    | [a, b] => return (← specViaOf (← a.getStr?) specPath, ← targetViaOf (← b.getStr?) targetPath)
    | _ => throw "bad via")
  let obs ← (← arr (← j.getObjVal? "impl_vias")).mapM implObs
  let X := extOf t
  let F := genFacts
  let models := vias.map (fun v => cliMain F X (q.via v.1 v.2).argv ((q.via v.1 v.2).world junk tty))
  -- the reference must never run into a lookup the oracle has no row for
  for v in vias do
    if expectNoOracle (expect X (q.via v.1 v.2).argv ((q.via v.1 v.2).world junk tty)) then
      throw s!"oracle incomplete: the reference of delivery {reprStr v} consulted a missing row"
  let holds := checkChannels X q vias junk tty hostile obs
  let modelHolds := checkChannels X q vias junk tty hostile (models.map observe)
  let factsOk := extFactsOk t X ⟨junk, tty, none, .open⟩
  let agree := models.length == obs.length && !(models.any outcomeNoOracle) &&
    (models.zip obs).all (fun mo => canon mo.1 == canon mo.2.outcome && !mo.2.sideEffect) && factsOk
  let comparable := q.comparable X vias
  let ex := match vias with
    | v :: _ => expect X (q.via v.1 v.2).argv ((q.via v.1 v.2).world junk tty)
    | [] => .silent
  let same := channelsAgree (obs.map (·.outcome))
  return Json.mkObj [("agree", agree), ("holds", holds), ("model_holds", modelHolds), ("wf", WF F),
    ("model", Json.arr (models.map outcomeToJson).toArray),
    ("branch", ((if hostile then "hostile/" else "") ++ "channels/" ++ expectTag ex ++ "/" ++
      (match models with | m :: _ => outTag m | [] => "none") ++
      (if comparable then "" else "/incomparable") : String)),
    ("why", (if !holds && comparable && !same then
        "the same spec text and target text give different outcomes through different channels (see impl_vias)"
      else if !holds then "a delivery does not give what the property expects"
      else if agree then "" else if !factsOk then "a trusted fact about the externals does not hold on this case"
      else "model outcome differs from the implementation's on a delivery" : String))]

def run (j : Json) : Except String Json := do
  let t ← tablesOfJson (← j.getObjVal? "ext") (← j.getObjVal? "files")
  let hostile ← reqBool j "hostile"
  if let .ok _ := j.getObjVal? "vias" then
    return ← runChannels j t hostile
  let e ← j.getObjVal? "ext"
  -- standard input: a text, or bytes the oracle decoded (`stdin_text`) or could not (`stdin_err`)
  let stdinErr ← nullableStr e "stdin_err"
  let stdinText : String ← match j.getObjVal? "stdin" with
    | .ok (.str s) => pure s
    | .ok _ => do
      match ← nullableStr e "stdin_text", stdinErr with
      | some s, _ => pure s
      | none, some _ => pure ""
      | none, none => throw "stdin given as bytes but the oracle has neither stdin_text nor stdin_err"
    | .error _ => throw "field stdin is missing"
  let w : World := ⟨stdinText, ← reqBool j "tty", stdinErr, ← stdinStateOf (← j.getObjValAs? String "stdin_state")⟩
  let impl ← j.getObjVal? "impl"
  let implOut ← outcomeOfJson (← impl.getObjVal? "outcome")
  let side ← impl.getObjValAs? Bool "side_effect"
  let X := extOf t
  let F := genFacts
  let tbl := genTable
  -- the flags: parsed by the model from the raw argument list when there is one
  let given : Option Argv ← match j.getObjVal? "argv" with
    | .ok .null => pure none
    | .ok aj => do pure (some (← argvOfJson aj))
    | .error _ => pure none
  let raw : Option (List String) ← match j.getObjVal? "raw" with
    | .ok (.arr xs) => do pure (some (← xs.toList.mapM (fun x => x.getStr?)))
    | .ok x => throw s!"field raw: expected an array, got {x.compress}"
    | .error _ => pure none
  let parsed : Option ParseRes := raw.map (parseArgv tbl X.penv)
  let parseOk := match parsed, given with
    | some (.ok a), some g => a == g
    | some _, some _ => false          -- the harness meant these flags; the model's parser read something else
    | _, _ => true
  let (m, ex, a?) ← match raw, given with
    | some r, _ => pure (cliMainArgv tbl F X r w, expectArgv tbl X r w,
        (match parseArgv tbl X.penv r with | .ok a => some a | _ => none))
    | none, some g => pure (cliMain F X g w, expect X g w, some g)
    | none, none => throw "neither raw nor argv"
  if expectNoOracle ex then
    throw "oracle incomplete: the reference consulted a row the tables do not have"
  let holds := checkExpect ex hostile ⟨implOut, side⟩
  let modelHolds := checkExpect ex hostile (observe m)
  let factsOk := extFactsOk t X w
  let agree := canon m == canon implOut && !side && factsOk && parseOk && !outcomeNoOracle m
  let src := match a? with
    | none => "unparsed"
    | some a => (if a.specFile.isSome then "spec:file" else "spec:argv") ++ "," ++
      (match a.posargs, a.targetFile with
       | [_, "-"], _ => "target:dash"
       | [_, _], none => "target:argv"
       | _, some "-" => "target:dashfile"
       | _, some _ => "target:file"
       | _, none => if w.isatty then "target:none" else "target:piped")
  let ptag := match parsed with
    | some .help => "help/"
    | some (.fail (.cli e)) => "cli-" ++ reprStr e ++ "/"
    | some (.fail (.exc _)) => "parse-exc/"
    | _ => ""
  let dbg := match a? with
    | some a => (if a.debug then "debug/" else "") ++ (if a.inspect then "inspect/" else "")
    | none => ""
  return Json.mkObj [("agree", agree), ("holds", holds), ("model_holds", modelHolds),
    ("wf", WF F), ("model", outcomeToJson m),
    ("branch", ((if hostile then "hostile/" else "") ++ ptag ++ dbg ++ expectTag ex ++ "/" ++ outTag m ++
      (if ex == .silent then "" else "/" ++ src) : String)),
    ("why", (if agree then "" else if !factsOk then
        "a trusted fact about the externals does not hold on this case: a loader raised a class outside Exception, a read failed with neither an OSError nor a UnicodeError, or the library call printed something for a spec that is no Inspect"
      else if outcomeNoOracle m then "the MODEL consulted a row the oracle does not have (it took a path the reference and the implementation did not)"
      else if !parseOk then "the model's parser (Model/C19Face) does not read the raw argument list as the flags the case names"
      else "model outcome differs from the implementation's" : String))]

end Glom.C19.Driver
