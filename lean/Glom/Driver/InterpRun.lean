import Glom.Driver.InterpCodec
/-
  Shared by the C03 / C07 / C08 drivers: decode a case, run the code-shaped
  interpreter (ChainMap-of-frames scope) the way `glom()` is called, and render
  the observation.

  case: {"spec":Spec, "target":V, "scope":[[name,V]…], "repeat":n,
         "impl":{"ok":V} | {"err":cls}, "impl_log":[Ev…]}
-/
namespace Glom.Interp.Run
open Lean Glom.Interp Glom.Interp.Codec

structure Case where
  spec : Spec
  target : V
  scope : List (String × V)
  implRes : Except String V          -- error: canonical class name
  implLog : List Json

def fuelFor (_ : Spec) : Nat := 64

/-- `{"k":"shared","id":n}` stands for ONE spec object used at several places (the case lists the
    fragments under "shared"); the model's specs are immutable trees: the fragment is written out -/
partial def expandShared (tbl : Json) : Nat → Json → Except String Json
  | 0, _ => throw "shared fragments nested too deep"
  | fuel + 1, j =>
    match j with
    | .arr a => do return .arr (← a.mapM (expandShared tbl fuel))
    | .obj kvs =>
      if (j.getObjValAs? String "k").toOption == some "shared" then do
        let id ← j.getObjValAs? Nat "id"
        let frag ← tbl.getObjVal? (toString id)
        expandShared tbl fuel frag
      else do
        let kvs' ← kvs.toList.mapM (fun (k, v) => do return (k, ← expandShared tbl fuel v))
        return Json.mkObj kvs'
    | other => pure other

def decode (j : Json) : Except String Case := do
  let tbl := (j.getObjVal? "shared").toOption.getD (Json.mkObj [])
  let spec ← specOfJson (← expandShared tbl 64 (← j.getObjVal? "spec"))
  let target ← vOfJson (← j.getObjVal? "target")
  let scope ← (match j.getObjVal? "scope" with
    | .ok (.arr a) => a.toList.mapM (fun e => match e with
        | .arr #[.str n, v] => do return (n, ← vOfJson v)
        | _ => throw s!"bad scope entry {e.compress}")
    | .ok .null => pure []
    | .error _ => pure []
    | .ok o => throw s!"bad scope {o.compress}")
  -- a layered mapping (ChainMap) handed as scope=: the FIRST layer wins, so it is copied last
  let scope ← (match j.getObjVal? "scope_layers" with
    | .ok (.arr ls) => do
      let layers ← ls.toList.mapM (fun l => match l with
        | .arr a => a.toList.mapM (fun e => match e with
            | .arr #[.str n, v] => do return (n, ← vOfJson v)
            | _ => throw s!"bad scope entry {e.compress}")
        | _ => throw "bad scope layer")
      pure (layers.reverse.flatten)
    | .ok .null => pure scope
    | .error _ => pure scope
    | .ok o => throw s!"bad scope_layers {o.compress}")
  let impl ← j.getObjVal? "impl"
  let implRes : Except String V ← (match impl.getObjVal? "ok" with
    | .ok v => do return .ok (← vOfJson v)
    | .error _ => do return .error (← impl.getObjValAs? String "err"))
  let implLog ← (match j.getObjVal? "impl_log" with
    | .ok (.arr a) => pure a.toList
    | _ => throw "missing or malformed impl_log")
  return { spec, target, scope, implRes, implLog }

def resToJson : Except String V → Json
  | .ok v => Json.mkObj [("ok", vToJson v)]
  | .error c => Json.mkObj [("err", c)]

def runModel (c : Case) : Except String V × List Ev :=
  let (st, r) := glomTop prims (fuelFor c.spec) c.spec c.target c.scope {}
  (match r with
   | .ok v => .ok v
   | .error e => .error e.cls, st.log)

/-- canonical form: the elements of sets sorted by their JSON text (sets are unordered) -/
partial def canonV : V → V
  | .list xs => .list (xs.map canonV)
  | .tuple xs => .tuple (xs.map canonV)
  | .dict o es => .dict o (es.map (fun e => (canonV e.1, canonV e.2)))
  | .set f xs =>
    let ys := xs.map canonV
    .set f (ys.toArray.qsort (fun a b => (vToJson a).compress < (vToJson b).compress)).toList
  | v => v

def resEq : Except String V → Except String V → Bool
  | .ok a, .ok b => (vToJson (canonV a)).compress == (vToJson (canonV b)).compress
  | .error a, .error b => a == b
  | _, _ => false

/-- the same canonical form on encoded values (call logs): `{"set":[…]}` / `{"fs":[…]}` sorted -/
partial def canonJson : Json → Json
  | .arr a => .arr (a.map canonJson)
  | .obj kvs =>
    let kvs' := kvs.toList.map (fun (k, v) =>
      let v' := canonJson v
      (k, if k == "set" || k == "fs" then
            (match v' with
             | .arr a => Json.arr (a.qsort (fun x y => x.compress < y.compress))
             | o => o)
          else v'))
    Json.mkObj kvs'
  | j => j

def logText (js : List Json) : String := (Json.arr (js.map canonJson).toArray).compress

def outOfDomain : Except String V → Bool
  | .error c => c == "Unsupported" || c == "OutOfFuel"
  | _ => false

end Glom.Interp.Run
