import Lean.Data.Json
import Glom.Model.C06
import Glom.Model.C01
import Glom.Generated.C06Facts
/-
  C06 driver: replays one history of cache-relevant operations through the cache model
  (parse = the C01 model of `Path.from_text`, `_MAX_CACHE` from the regenerated facts) and compares
  every path returned and the size of both sub-caches after every operation with what the
  implementation reported; the Python-level observations (outcome equal to the fresh-interpreter
  outcome, inputs unchanged) are part of the property verdict.

  case: {"ops":[ {"op":"from_text","text":t,"impl_path":[[op,arg|null]…],"impl_sizes":[nTrue,nFalse]}
               | {"op":"fill","prefix":p,"n":k,"impl_sizes":[…]}
               | {"op":"set_star","v":b}
               | {"op":"glom","same_as_fresh":b|null,"same_as_first":b,"inputs_unchanged":b,"impl_sizes":[…]}
               | {"op":"register"} … ]}
-/
namespace Glom.C06.Driver
open Lean Glom.C06

abbrev PathRepr := List (String × Option String)

/-- `Path.from_text` as modelled for C01, rendered as (op, arg) items -/
def parseText (star : Bool) (text : String) : PathRepr :=
  if star then
    (Glom.C01.stepsOfParts (Glom.C01.partsOfText text.toList)).map (fun s =>
      (s.1, match s.2 with | .str x => some x | _ => none))
  else (text.splitOn ".").map (fun seg => ("P", some seg))

def pathOfJson (j : Json) : Except String PathRepr := do
  match j with
  | .arr a => a.toList.mapM (fun e => match e with
      | .arr #[.str op, .str arg] => pure (op, some arg)
      | .arr #[.str op, .null] => pure (op, none)
      | _ => throw s!"bad path item {e.compress}")
  | _ => throw "bad path"

def sizesOfJson (j : Json) : Except String (Nat × Nat) :=
  match j with
  | .arr #[a, b] => do return (← a.getNat?, ← b.getNat?)
  | _ => throw "bad sizes"

structure Acc where
  pc : PathCache PathRepr := {}
  star : Bool := true
  agree : Bool := true
  holds : Bool := true
  why : String := ""
  nOps : Nat := 0

def sizesOK (a : Acc) (j : Json) : Bool :=
  match j.getObjVal? "impl_sizes" with
  | .ok s => match sizesOfJson s with
    | .ok (t, f) => t == (a.pc.get true).length && f == (a.pc.get false).length
    | .error _ => false
  | .error _ => true

def stepOp (maxCache : Nat) (a : Acc) (j : Json) : Except String Acc := do
  let op ← j.getObjValAs? String "op"
  let a := { a with nOps := a.nOps + 1 }
  match op with
  | "set_star" => return { a with star := (← j.getObjValAs? Bool "v") }
  | "from_text" =>
    let text ← j.getObjValAs? String "text"
    let impl ← pathOfJson (← j.getObjVal? "impl_path")
    let (p, pc') := fromText parseText maxCache a.star a.pc text
    let a' := { a with pc := pc' }
    -- the property: the answer is the fresh parse under the current flag
    let ok := impl == parseText a.star text
    let ag := impl == p && sizesOK a' j
    let why := if !ok && a.why.isEmpty then s!"from_text({text}) differs from a fresh parse at op {a.nOps}" else a.why
    return { a' with holds := a.holds && ok, agree := a.agree && ag, why := why }
  | "fill" =>
    let pre ← j.getObjValAs? String "prefix"
    let n ← j.getObjValAs? Nat "n"
    let pc' := (List.range n).foldl (fun pc i => (fromText parseText maxCache a.star pc s!"{pre}{i}").2) a.pc
    let a' := { a with pc := pc' }
    return { a' with agree := a.agree && sizesOK a' j }
  | "glom" =>
    let fresh := match j.getObjVal? "same_as_fresh" with
      | .ok (.bool b) => b
      | _ => true
    let first := (j.getObjValAs? Bool "same_as_first").toOption.getD true
    let unch := (j.getObjValAs? Bool "inputs_unchanged").toOption.getD true
    let rebuilt := (j.getObjValAs? Bool "same_as_rebuilt").toOption.getD true
    let ok := fresh && first && unch && rebuilt
    -- keep the model's cache in step with the texts this call parsed (observed as new cache keys)
    let newKeys : List (Bool × String) := match j.getObjVal? "impl_new_keys" with
      | .ok (.arr ks) => ks.toList.filterMap (fun e => match e with
          | .arr #[.bool b, .str k] => some (b, k)
          | _ => none)
      | _ => []
    let pc' := newKeys.foldl (fun pc bk => (fromText parseText maxCache bk.1 pc bk.2).2) a.pc
    let a := { a with pc := pc' }
    let a := { a with agree := a.agree && sizesOK a j }
    let why := if !ok && a.why.isEmpty then
        (if !unch then s!"target/spec/scope changed at op {a.nOps}"
         else if !rebuilt then s!"outcome differs from the same call on freshly built spec/target objects (op {a.nOps})"
         else if !first then s!"outcome differs from the first time this call was made (op {a.nOps})"
         else s!"outcome differs from the same call in a fresh interpreter (op {a.nOps})") else a.why
    return { a with holds := a.holds && ok, why := why }
  | "register" => return a
  | _ => throw s!"unknown op {op}"

def run (j : Json) : Except String Json := do
  let ops ← (match j.getObjVal? "ops" with
    | .ok (.arr a) => pure a.toList
    | _ => throw "ops missing")
  let a ← ops.foldlM (stepOp Generated.maxCache) {}
  return Json.mkObj [("agree", a.agree), ("holds", a.holds), ("why", a.why),
    ("model", Json.mkObj [("sizes", Json.arr #[toJson (a.pc.get true).length, toJson (a.pc.get false).length]),
                          ("max_cache", toJson Generated.maxCache)]),
    ("branch", if (a.pc.get true).length > Generated.maxCache || (a.pc.get false).length > Generated.maxCache
               then "overflowed" else "within-capacity")]

end Glom.C06.Driver
