import Lean.Data.Json
import Glom.Model.C06
import Glom.Spec.C06
import Glom.Model.C01
import Glom.Model.C06Heap
import Glom.Spec.C06Heap
import Glom.Py.Json
import Glom.Generated.C06Facts
/-
  C06 driver: replays one history of cache-relevant operations through the cache model
  (parse = the C01 model of `Path.from_text`, `_MAX_CACHE` from the regenerated facts) and compares
  every path returned and the size of both sub-caches after every operation with what the
  implementation reported; the Python-level observations (outcome equal to the fresh-interpreter
  outcome, inputs unchanged) are part of the property verdict.

  case: {"classes":[{"name":n,"mro":[n…],"dict":b}…],
         "ops":[ {"op":"from_text","text":t,"impl_path":[[op,arg|null]…],"impl_sizes":[nTrue,nFalse]}
               | {"op":"fill","prefix":p,"n":k,"impl_sizes":[…]}
               | {"op":"set_star","v":b}
               | {"op":"glom","reg":r,"same_as_fresh":b|null,"same_as_first":b,"inputs_unchanged":b,
                  "same_as_rebuilt":b,"same_as_expected":b,"same_as_fresh_registry":b,"spec_graph_unchanged":b,"scope_unchanged":b,
                  "impl_lookups":[[type,op,tag,raise_exc]…],   (tag "<none>": UnregisteredTarget raised, "<false>": False returned)
                  "same_in_other_layouts":b|null,
                  "impl_star":[[type,"kg"|"it"|"none"|"log",[[op,tag]…]]…],     (a wildcard call: per visited item)
                  "vars":{"key":k,"base":[[n,v]…],"defaults":[[n,v]…],"ops":[["w",n,v]|["r",n]…],"impl_reads":[v|null…]},
                  "impl_sizes":[…]}
               | {"op":"register","reg":r,"cls":n,"kw":[[op,tag]…],"exact":b}      (no "cls": an unrelated fresh class) … ]}
         a glom op may carry "arith": {"heap":[cell…],"target":Val,"spec":Sp,
                                       "impl_out":{"ok":G}|{"err":cls},"impl_heap_after":[cell…],"impl_result_old":b,
                                       "impl_spec_literal_in_result":b}
           heap / Val / cell: the wire format of Glom/Py/Json.lean (a bytearray is a "list" cell of class "bytearray");
           Sp: {"lit":Val} | {"t":[[opchar,Sp]…]} | {"seq":"list"|"tuple"|"set"|"fset","xs":[Sp…]} | {"dict":[[Sp,Sp]…]}
               | {"coalesce":[Sp…],"default":Sp|null} | {"call":name,"args":[Sp…]}  (a callable of the catalogue;
                 as a plain spec it is {"lit":{"fn":name}});
           G (a result, as far as identity shows): a scalar Val | {"r":a} a mutable object that existed before the call
               | {"new":cls,"v":[G…]} | {"new":cls,"kv":[[G,G]…]} an object built by the call.
         "classes" may carry "virt":[abc…] (virtual bases of the class, as Python computed them); a tag "<none>" in
         "impl_lookups" = the lookup raised UnregisteredTarget.

  The handler lookups of a call on an instance of a generated class (`impl_lookups`: exact type of
  the object, op, and the tag of the handler that ran, "default" for getattr / iter) are replayed
  through the memo model of the registry the call used (`getHandler` over `TReg.compute`) and
  checked against the uncached lookup; the reads of a spec holding `Vars(...)` are replayed
  through the heap model (`evalVars`, one heap per spec object, kept across evaluations) and
  checked against the value-level reference (`refVars`).
-/
namespace Glom.C06.Driver
open Lean Glom.C06

abbrev PathRepr := List (String × Option String)

/-- `Path.from_text` as modelled for C01, rendered as (op, arg) items -/
def parseText (star : Bool) (text : String) : PathRepr :=
  if star then
    (Glom.C01.stepsOfParts (Glom.C01.partsOfText text.toList)).map (fun s =>
      (s.1, match s.2 with | .str x => some x | _ => none))
  else (text.splitOn ".").map (fun seg => ("P", some seg))

def pathOfJson (j : Json) : Except String PathRepr := do
  match j with
  | .arr a => a.toList.mapM (fun e => match e with
      | .arr #[.str op, .str arg] => pure (op, some arg)
      | .arr #[.str op, .null] => pure (op, none)
      | _ => throw s!"bad path item {e.compress}")
  | _ => throw "bad path"

def sizesOfJson (j : Json) : Except String (Nat × Nat) :=
  match j with
  | .arr #[a, b] => do return (← a.getNat?, ← b.getNat?)
  | _ => throw "bad sizes"

/-! strict decoding: a missing or malformed field is a decode error (the harness reports it as a
    harness error), never a default -/

def reqBool (j : Json) (k : String) : Except String Bool :=
  match j.getObjVal? k with
  | .ok (.bool b) => pure b
  | .ok x => throw s!"field {k}: expected a bool, got {x.compress}"
  | .error _ => throw s!"field {k} missing"

/-- a check that was evaluated (a bool) or not applicable to this call (null) -/
def reqBoolOrNull (j : Json) (k : String) : Except String (Option Bool) :=
  match j.getObjVal? k with
  | .ok (.bool b) => pure (some b)
  | .ok .null => pure none
  | .ok x => throw s!"field {k}: expected a bool or null, got {x.compress}"
  | .error _ => throw s!"field {k} missing"

def reqArr (j : Json) (k : String) : Except String (List Json) :=
  match j.getObjVal? k with
  | .ok (.arr a) => pure a.toList
  | .ok x => throw s!"field {k}: expected an array, got {x.compress}"
  | .error _ => throw s!"field {k} missing"

def reqArrOrNull (j : Json) (k : String) : Except String (Option (List Json)) :=
  match j.getObjVal? k with
  | .ok (.arr a) => pure (some a.toList)
  | .ok .null => pure none
  | .ok x => throw s!"field {k}: expected an array or null, got {x.compress}"
  | .error _ => throw s!"field {k} missing"

def reqNat (j : Json) (k : String) : Except String Nat :=
  match j.getObjVal? k with
  | .ok v => (match v.getNat? with | .ok n => pure n | .error _ => throw s!"field {k}: expected a natural number, got {v.compress}")
  | .error _ => throw s!"field {k} missing"

def reqStr (j : Json) (k : String) : Except String String :=
  match j.getObjVal? k with
  | .ok (.str x) => pure x
  | .ok x => throw s!"field {k}: expected a string, got {x.compress}"
  | .error _ => throw s!"field {k} missing"

def strsOfJson (what : String) (l : List Json) : Except String (List String) :=
  l.mapM (fun e => match e with
    | .str x => pure x
    | _ => throw s!"{what}: expected a string, got {e.compress}")

def pairsOfJson (what : String) (l : List Json) : Except String (List (String × String)) :=
  l.mapM (fun e => match e with
    | .arr #[.str k, .str v] => pure (k, v)
    | _ => throw s!"{what}: expected [string, string], got {e.compress}")

structure Acc where
  pc : PathCache PathRepr := {}
  regs : Nat → TReg := fun _ => {}
  hcs : Nat → HCache Tag := fun _ => []
  vheaps : List (String × VHeap String) := []     -- one heap per spec object holding a `Vars`
  star : Bool := true
  agree : Bool := true
  holds : Bool := true
  why : String := ""
  nOps : Nat := 0

def sizesOK (a : Acc) (j : Json) : Except String Bool := do
  let (t, f) ← sizesOfJson (← j.getObjVal? "impl_sizes")
  return t == (a.pc.get true).length && f == (a.pc.get false).length

/-- what a lookup shows: the tag of the handler, "<none>" = UnregisteredTarget was raised,
    "<false>" = `False` was returned (only a `raise_exc=False` lookup can) -/
def shownTag (rx : Bool) (h : Option Tag) : String :=
  match h with
  | some t => t
  | none => if rx then "<none>" else "<false>"

/-- replay the handler lookups of one call (type, op, what the implementation showed, raise_exc):
    (agree with the memo model, equal to the uncached lookup, memo) -/
def replayLookups (reg : TReg) : HCache Tag → List (String × String × String × Bool) → Bool × Bool × HCache Tag
  | hc, [] => (true, true, hc)
  | hc, (ty, op, tag, rx) :: rest =>
    let (h, hc') := getHandler reg.compute hc (ty, op) rx
    let (ag, ok, hc'') := replayLookups reg hc' rest
    (ag && shownTag rx h == tag, ok && shownTag rx (reg.compute (ty, op)) == tag, hc'')

/-- what the implementation showed of the expansion of one visited item: its exact type, how its
    children were reached as far as the result shows it ("kg" keys+get, "it" iterate, "none", or
    "log" when only the log of tagged handlers is available), and the tagged handlers that ran -/
structure StarObs where
  ty : String
  mode : String
  tags : List (String × String)

def starObsOfJson (l : List Json) : Except String (List StarObs) :=
  l.mapM (fun e => match e with
    | .arr #[.str ty, .str mode, .arr tags] => do
      return { ty := ty, mode := mode, tags := ← pairsOfJson "impl_star tags" tags.toList }
    | _ => throw s!"impl_star: expected [type, mode, tags], got {e.compress}")

def starMatches (o : StarObs) (u : StarUse Tag) : Bool :=
  (o.mode == "log" || o.mode == u.mode) && o.tags == u.tagged

def starAllMatch : List StarObs → List (StarUse Tag) → Bool
  | [], [] => true
  | o :: os, u :: us => starMatches o u && starAllMatch os us
  | _, _ => false

def vopsOfJson (l : List Json) : Except String (List (VOp String)) :=
  l.mapM (fun e => match e with
    | .arr #[.str "w", .str n, .str v] => pure (.write n v)
    | .arr #[.str "r", .str n] => pure (.read n)
    | _ => throw s!"vars ops: expected ['w', name, value] or ['r', name], got {e.compress}")

def readsOfJson (l : List Json) : Except String (List (Option String)) :=
  l.mapM (fun e => match e with
    | .str v => pure (some v)
    | .null => pure none
    | _ => throw s!"vars reads: expected a string or null, got {e.compress}")


/-! ### T arithmetic / container-building specs on the heap model -/

def binOfChar : String → Option TOp
  | "[" => some .item
  | "+" => some (.bin .add) | "-" => some (.bin .sub) | "*" => some (.bin .mul)
  | "#" => some (.bin .floordiv) | "/" => some (.bin .truediv) | "%" => some (.bin .mod)
  | ":" => some (.bin .pow) | "&" => some (.bin .band) | "|" => some (.bin .bor) | "^" => some (.bin .bxor)
  | "~" => some (.un .invert) | "_" => some (.un .neg)
  | _ => none

partial def spOfJson (j : Json) : Except String Sp := do
  let sps (a : Array Json) : Except String Sps := do
    let l ← a.toList.mapM spOfJson
    return l.foldr (fun x r => Sps.cons x r) Sps.nil
  if let .ok v := j.getObjVal? "lit" then return .lit (← valOfJson v)
  else if let .ok (.arr a) := j.getObjVal? "t" then
    let steps ← a.toList.mapM (fun e => match e with
      | .arr #[.str c, arg] => (match binOfChar c with
        | some op => do return (op, ← spOfJson arg)
        | none => throw s!"unknown op {c}")
      | _ => throw s!"bad step {e.compress}")
    return .t (steps.foldr (fun x r => Steps.cons x.1 x.2 r) Steps.nil)
  else if let .ok (.str k) := j.getObjVal? "seq" then
    let kind ← (match k with
      | "list" => pure SeqKind.list | "tuple" => pure SeqKind.tuple
      | "set" => pure SeqKind.set | "fset" => pure SeqKind.fset
      | _ => throw s!"bad seq kind {k}")
    match j.getObjVal? "xs" with
    | .ok (.arr a) => return .seq kind (← sps a)
    | _ => throw "seq without xs"
  else if let .ok (.arr a) := j.getObjVal? "dict" then
    let es ← a.toList.mapM (fun e => match e with
      | .arr #[k, v] => do return (← spOfJson k, ← spOfJson v)
      | _ => throw s!"bad pair {e.compress}")
    return .dict (es.foldr (fun x r => Pairs.cons x.1 x.2 r) Pairs.nil)
  else if let .ok (.str fn) := j.getObjVal? "call" then
    match j.getObjVal? "args" with
    | .ok (.arr a) => return .call fn (← sps a)
    | _ => throw "call without args"
  else if let .ok (.arr a) := j.getObjVal? "coalesce" then
    match j.getObjVal? "default" with
    | .ok .null | .error _ => return .coalesce (← sps a) false (.lit .none)
    | .ok d => return .coalesce (← sps a) true (← spOfJson d)
  else throw s!"bad Sp {j.compress}"

/-- a result as far as identity shows: old objects by address, objects built by the call by structure -/
def viewG (h : Heap) (n0 : Nat) : Nat → Val → Json
  | 0, _ => Json.str "<deep>"
  | fuel + 1, v =>
    match v with
    | .ref a =>
      -- an old *mutable* object by its address; immutable ones (tuple, frozenset) have no observable identity
      let immutable := match h[a]? with
        | some (.tuple ..) => true
        | some (.set c _) => c == "frozenset"
        | _ => false
      if a < n0 && !immutable then Json.mkObj [("r", a)]
      else match h[a]? with
        | some (.list c xs) => Json.mkObj [("new", c), ("v", Json.arr (xs.map (viewG h n0 fuel)).toArray)]
        | some (.tuple c xs) => Json.mkObj [("new", c), ("v", Json.arr (xs.map (viewG h n0 fuel)).toArray)]
        | some (.set c xs) => Json.mkObj [("new", c), ("v", Json.arr (xs.map (viewG h n0 fuel)).toArray)]
        | some (.dict c es) => Json.mkObj [("new", c),
            ("kv", Json.arr (es.map (fun e => Json.arr #[viewG h n0 fuel e.1, viewG h n0 fuel e.2])).toArray)]
        | _ => Json.str "<dangling>"
    | _ => valToJson v

/-- sets are compared as sets; `True` / `1` (equal as members) are identified -/
partial def normG (j : Json) : Json :=
  match j with
  | .arr a => .arr (a.map normG)
  | .obj _ =>
    match j.getObjVal? "new", j.getObjVal? "v", j.getObjVal? "kv" with
    | .ok (.str c), .ok (.arr v), _ =>
      let vs := v.map normG
      if c == "set" || c == "frozenset" then
        let key (x : Json) : String := match x.getObjVal? "b" with
          | .ok (.bool b) => (Json.mkObj [("i", toJson (if b then (1 : Int) else 0))]).compress
          | _ => x.compress
        Json.mkObj [("new", c), ("v", Json.arr ((vs.map key).qsort (· < ·) |>.map Json.str))]
      else Json.mkObj [("new", c), ("v", Json.arr vs)]
    | .ok (.str c), _, .ok (.arr kv) => Json.mkObj [("new", c), ("kv", Json.arr (kv.map normG))]
    | _, _, _ => j
  | _ => j

partial def hasOpaque (j : Json) : Bool :=
  match j with
  | .arr a => a.any hasOpaque
  | .obj kvs => kvs.toList.any (fun (k, v) => (k == "f" && v == Json.str "?") || hasOpaque v)
  | _ => false

/-- (agree, holds, why) for one call on an arith entry -/
def arithCase (a : Json) : Except String (Bool × Bool × String) := do
  let heap ← heapOfJson (← a.getObjVal? "heap")
  let tgt ← valOfJson (← a.getObjVal? "target")
  let sp ← spOfJson (← a.getObjVal? "spec")
  let after ← heapOfJson (← a.getObjVal? "impl_heap_after")
  let resOld ← a.getObjValAs? Bool "impl_result_old"
  let implOut ← a.getObjVal? "impl_out"
  -- exactly one of {"ok": G} / {"err": class name}
  match implOut.getObjVal? "ok", implOut.getObjVal? "err" with
  | .ok _, .error _ => pure ()
  | .error _, .ok (.str _) => pure ()
  | _, _ => throw s!"impl_out: expected an object with ok or err, got {implOut.compress}"
  -- the property, on the implementation's observation
  let specLit ← a.getObjValAs? Bool "impl_spec_literal_in_result"
  let obs : ArithObs := { heapAfter := after, resultOld := resOld, specLiteralInResult := specLit }
  if !sp.pureCalls then throw "an arith entry names a mutating callable: outside the property's domain"
  let holds := checkArith heap sp obs
  let why := if holds then "" else
    (if specLit then "a list / dict / set literal of the spec is reachable from the result (the caller can change the spec through it)"
     else if after != heap then "an object that existed before the call (target / spec) was changed by evaluating a non-mutating spec"
     else "the result of an operation that builds a new object is one of the objects that existed before the call")
  -- the model
  let out := evalAuto sp tgt heap
  let modelOk := observe6 heap.length out
  let agree : Bool := match out.1 with
    | .error .unsupported => true
    | .error (.glom c) => (implOut.getObjValAs? String "err").toOption == some c
    | .error (.raised c) => (implOut.getObjValAs? String "err").toOption == some c
    | .ok v =>
      let g := viewG out.2 heap.length 40 v
      if hasOpaque g then (implOut.getObjVal? "ok").isOk
      else match implOut.getObjVal? "ok" with
        | .ok gi => normG gi == normG g
        | .error _ => false
  let modelOld : Bool := match out.1 with
    | .ok (.ref a) => modelOk.resultOld && (match out.2[a]? with
      | some (.tuple ..) => false
      | some (.set c _) => c != "frozenset"
      | _ => true)
    | _ => false
  let agree := agree && (match out.1 with | .error .unsupported => true | _ => modelOld == resOld || !holds)
  return (agree, holds, why)

def stepOp (maxCache : Nat) (a : Acc) (j : Json) : Except String Acc := do
  let op ← j.getObjValAs? String "op"
  let a := { a with nOps := a.nOps + 1 }
  match op with
  | "set_star" => return { a with star := (← j.getObjValAs? Bool "v") }
  | "from_text" =>
    let text ← j.getObjValAs? String "text"
    let impl ← pathOfJson (← j.getObjVal? "impl_path")
    let (p, pc') := fromText parseText maxCache a.star a.pc text
    let a' := { a with pc := pc' }
    -- the property: the answer is the fresh parse under the current flag
    let ok := impl == parseText a.star text
    let ag := impl == p && (← sizesOK a' j)
    let why := if !ok && a.why.isEmpty then s!"from_text({text}) differs from a fresh parse at op {a.nOps}" else a.why
    return { a' with holds := a.holds && ok, agree := a.agree && ag, why := why }
  | "fill" =>
    let pre ← j.getObjValAs? String "prefix"
    let n ← j.getObjValAs? Nat "n"
    let pc' := (List.range n).foldl (fun pc i => (fromText parseText maxCache a.star pc s!"{pre}{i}").2) a.pc
    let a' := { a with pc := pc' }
    return { a' with agree := a.agree && (← sizesOK a' j) }
  | "glom" =>
    -- checks made on the Python side: a bool, or null when the check does not apply to this call
    let applies (o : Option Bool) : Bool := o.getD true
    let fresh := applies (← reqBoolOrNull j "same_as_fresh")
    let first ← reqBool j "same_as_first"
    let unch ← reqBool j "inputs_unchanged"
    let rebuilt ← reqBool j "same_as_rebuilt"
    let freshReg := applies (← reqBoolOrNull j "same_as_fresh_registry")
    let layout := applies (← reqBoolOrNull j "same_in_other_layouts")
    let specUnch ← reqBool j "spec_graph_unchanged"
    let scopeUnch ← reqBool j "scope_unchanged"
    let expected := applies (← reqBoolOrNull j "same_as_expected")
    -- handler lookups through the memo model of the registry this call used
    let rg ← reqNat j "reg"
    let lookups ← (← reqArr j "impl_lookups").mapM (fun e => match e with
      | .arr #[.str ty, .str op, .str tag, .bool rx] => pure (ty, op, tag, rx)
      | _ => throw s!"impl_lookups: expected [type, op, tag, raise_exc], got {e.compress}")
    let (lkAgree, lkOk, hc') := replayLookups (a.regs rg) (a.hcs rg) lookups
    let a := { a with hcs := setAt a.hcs rg hc', agree := a.agree && lkAgree }
    -- a wildcard call: the lookups of `_extend_children` for the visited items, as the strategy
    -- `starStrategy` run against the memo of this registry (agree) and without any memo (holds)
    let (a, starOk) : Acc × Bool ← (match ← reqArrOrNull j "impl_star" with
      | some sj => do
        let obs ← starObsOfJson sj
        let tys : List String := obs.map StarObs.ty
        let w : World PathRepr Tag TReg := { pc := a.pc, pathStar := a.star, reg := a.regs, hc := a.hcs }
        let res := runCached parseText TReg.compute maxCache (starStrategy rg tys) (starFuel tys) w []
        let pureRes := runPure parseText TReg.compute (starStrategy rg tys) a.star a.regs (starFuel tys) []
        match res.1, pureRes with
        | some cached, some uncached =>
          pure ({ a with hcs := res.2.hc,
                         agree := a.agree && starAllMatch obs cached && uncached == refStar (a.regs rg).compute tys },
                starAllMatch obs uncached)
        | _, _ => throw "the wildcard strategy did not finish within starFuel"
      | none => pure (a, true))
    -- a spec holding `Vars(...)`: its reads through the heap model / the value-level reference
    let (a, varsOk) ← (match j.getObjVal? "vars" with
      | .ok .null => pure (a, true)
      | .ok v => do
        let key ← reqStr v "key"
        let base ← pairsOfJson "vars base" (← reqArr v "base")
        let defaults ← pairsOfJson "vars defaults" (← reqArr v "defaults")
        let ops ← vopsOfJson (← reqArr v "ops")
        let impl ← readsOfJson (← reqArr v "impl_reads")
        let heap := (assocGet a.vheaps key).getD [base]
        let (heap', reads) := evalVars heap 0 defaults ops
        pure ({ a with vheaps := (key, heap') :: a.vheaps.filter (·.1 != key), agree := a.agree && reads == impl },
              impl == refVars base defaults ops)
      | .error _ => throw "field vars missing")
    -- T arithmetic / container-building specs: the heap model and `checkArith` on the implementation's observation
    let (a, arithOk, arithWhy) ← (match j.getObjVal? "arith" with
      | .ok .null => pure (a, true, "")
      | .ok aj => do
        let (ag, ho, wy) ← arithCase aj
        pure ({ a with agree := a.agree && ag }, ho, wy)
      | .error _ => throw "field arith missing")
    let ok := fresh && first && unch && rebuilt && freshReg && layout && specUnch && scopeUnch && lkOk && starOk && varsOk && expected && arithOk
    -- keep the model's cache in step with the texts this call parsed (observed as new cache keys)
    let newKeys ← (← reqArr j "impl_new_keys").mapM (fun e => match e with
      | .arr #[.bool b, .str k] => pure (b, k)
      | _ => throw s!"impl_new_keys: expected [bool, string], got {e.compress}")
    let pc' := newKeys.foldl (fun pc bk => (fromText parseText maxCache bk.1 pc bk.2).2) a.pc
    let a := { a with pc := pc' }
    let a := { a with agree := a.agree && (← sizesOK a j) }
    let why := if !ok && a.why.isEmpty then
        (if !arithOk then s!"{arithWhy} (op {a.nOps})"
         else if !unch then s!"target/spec/scope changed at op {a.nOps}"
         else if !specUnch then s!"an object of the spec's object graph (or a mapping handed to it) changed by being evaluated (op {a.nOps})"
         else if !scopeUnch then s!"the caller's scope mapping / path list changed (op {a.nOps})"
         else if !varsOk then s!"the reads of a spec holding Vars(...) differ from those of a fresh variable holder (op {a.nOps})"
         else if !starOk then s!"a '*' / '**' traversal reached the children of an item by other handlers than the uncached lookups under the registrations in force give (op {a.nOps})"
         else if !lkOk then s!"a handler differs from the uncached lookup under the registrations in force (op {a.nOps})"
         else if !freshReg then s!"outcome differs from the same call in a freshly built registry with the same registrations (op {a.nOps})"
         else if !layout then s!"the same registrations and the same lookup give another handler in a fresh interpreter with another memory layout (op {a.nOps})"
         else if !expected then s!"outcome of a fixed (target, spec) pair differs from its documented result (op {a.nOps})"
         else if !rebuilt then s!"outcome differs from the same call on freshly built spec/target objects (op {a.nOps})"
         else if !first then s!"outcome differs from the first time this call was made (op {a.nOps})"
         else s!"outcome differs from the same call in a fresh interpreter (op {a.nOps})") else a.why
    return { a with holds := a.holds && ok, why := why }
  | "register" =>
    let rg ← reqNat j "reg"
    -- "cls": null = a fresh class unrelated to every class of the case
    let cls ← (match j.getObjVal? "cls" with
      | .ok (.str c) => pure c
      | .ok .null => pure "<unrelated>"
      | _ => throw "register: field cls missing or not a string / null")
    let kw ← pairsOfJson "register kw" (← reqArr j "kw")
    let exact ← reqBool j "exact"
    -- `register`: new registrations, the memo of this registry is reset
    return { a with regs := setAt a.regs rg ((a.regs rg).register cls kw exact), hcs := setAt a.hcs rg [] }
  | _ => throw s!"unknown op {op}"

def run (j : Json) : Except String Json := do
  let ops ← (match j.getObjVal? "ops" with
    | .ok (.arr a) => pure a.toList
    | _ => throw "ops missing")
  -- the classes of the case: name, MRO and virtual bases as Python computed them, and whether an
  -- instance has a `__dict__` (null for an ABC, which is never instantiated): without one there is no
  -- built-in `keys` handler
  let classes ← reqArr j "classes"
  let descs ← classes.mapM (fun c => do
    let n ← reqStr c "name"
    let m ← strsOfJson "mro" (← reqArr c "mro")
    let v ← strsOfJson "virt" (← reqArr c "virt")
    let d ← reqBoolOrNull c "dict"
    pure (n, m, v, d))
  let mro : List (String × List String) := descs.map (fun d => (d.1, d.2.1))
  let virt : List (String × List String) := descs.map (fun d => (d.1, d.2.2.1))
  let nodefault : List (String × String) := descs.filterMap (fun d =>
    if d.2.2.2 == some false then some (d.1, "keys") else none)
  let reg0 : TReg := { mro := mro, nodefault := nodefault, virt := virt }
  let a ← ops.foldlM (stepOp Generated.maxCache) { regs := fun _ => reg0 }
  return Json.mkObj [("agree", a.agree), ("holds", a.holds), ("why", a.why),
    ("model", Json.mkObj [("sizes", Json.arr #[toJson (a.pc.get true).length, toJson (a.pc.get false).length]),
                          ("max_cache", toJson Generated.maxCache)]),
    ("branch", if (a.pc.get true).length > Generated.maxCache || (a.pc.get false).length > Generated.maxCache
               then "overflowed" else "within-capacity")]

end Glom.C06.Driver
