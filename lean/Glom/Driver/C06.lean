import Lean.Data.Json
/- stub: the C06 driver is not built yet -/
namespace Glom.C06.Driver
open Lean

def run (_j : Json) : Except String Json := .error "property C06: driver not implemented yet"

end Glom.C06.Driver
