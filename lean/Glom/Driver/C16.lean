import Lean.Data.Json
/- stub: the C16 driver is not built yet -/
namespace Glom.C16.Driver
open Lean

def run (_j : Json) : Except String Json := .error "property C16: driver not implemented yet"

end Glom.C16.Driver
