import Lean.Data.Json
import Glom.Spec.C16
import Glom.Model.C16Env
/-
  C16 driver.

  case: {"specs":[GSpec…], "shared":[V…], "targets":[[V…]…], "evals":[[i,j]…], "impl":[EvalObs…]}
         a HISTORY in one process: evaluation n is glom(target object j, Group object i);
         "shared"[n] is an object that occurs at several places of the targets ({"sh":n})
  V:     null | {"b":…} | {"i":…} | {"s":…} | {"fbits":"<uint64>"} | {"sent":"SKIP"|"STOP"} | {"obj":n}
         | {"id":n}  (= id(container n)) | {"l":[V…]} | {"t":[V…]} | {"d":[[V,V]…]} | {"sh":n}
  Fn:    {"fn":name, …args} | {"fn":"t","ops":[TOp…]} | {"fn":"cls","c":"type"|"str"|"bool"|"int"}
  TOp:   {"op":"item","k":V} | {"op":"add","v":V} | {"op":"mul","n":int} | {"op":"or","v":V} | {"op":"mod","n":nat}
  GSpec: {"k":"dict","id":n,"kid":m,"key":Fn,"sub":GSpec} | {"k":"list","id":n,"f":Fn}
         | {"k":"agg","oid":n,"a":{"agg":name,"f":Fn?,"size":n?,"tbl":[n…]?}} | {"k":"fn","f":Fn}
         | {"k":"limit","oid":n,"n":k,"sub":GSpec} | {"k":"nested","g":GSpec}
  EvalObs: {"ok":V | "err":cls, "after":[V…], "ident":bool}
-/
namespace Glom.C16.Driver
open Lean Glom.C16

partial def vOfJson (sh : Array V) (j : Json) : Except String V :=
  let vOfJson := vOfJson sh
  match j with
  | .null => .ok .none
  | .obj _ =>
    if let .ok b := j.getObjValAs? Bool "b" then .ok (.bool b)
    else if let .ok i := j.getObjValAs? Int "i" then .ok (.int i)
    else if let .ok s := j.getObjValAs? String "s" then .ok (.str s)
    else if let .ok s := j.getObjValAs? String "fbits" then
      match s.toNat? with
      | some n => .ok (.float n.toUInt64)
      | none => .error s!"bad fbits {s}"
    else if let .ok s := j.getObjValAs? String "sent" then
      if s == "SKIP" then .ok .skip else if s == "STOP" then .ok .stop else .error s!"bad sentinel {s}"
    else if let .ok n := j.getObjValAs? Nat "obj" then .ok (.obj n)
    else if let .ok n := j.getObjValAs? Nat "id" then .ok (idKey n)
    else if let .ok n := j.getObjValAs? Nat "sh" then
      match sh[n]? with
      | some v => .ok v
      | none => .error s!"bad shared index {n}"
    else if let .ok (.arr a) := j.getObjVal? "l" then do return .list (← a.toList.mapM vOfJson)
    else if let .ok (.arr a) := j.getObjVal? "t" then do return .tuple (← a.toList.mapM vOfJson)
    else if let .ok (.arr a) := j.getObjVal? "d" then do
      return .dict (← a.toList.mapM (fun e => match e with
        | .arr #[k, v] => do return (← vOfJson k, ← vOfJson v)
        | _ => throw s!"bad pair {e.compress}"))
    else .error s!"bad V {j.compress}"
  | _ => .error s!"bad V {j.compress}"

partial def vToJson : V → Json
  | .none => .null
  | .bool b => Json.mkObj [("b", b)]
  | .int i =>
    if i ≥ idBase then Json.mkObj [("id", toJson (i - idBase))] else Json.mkObj [("i", toJson i)]
  | .str s => Json.mkObj [("s", s)]
  | .float b => Json.mkObj [("fbits", toString b.toNat)]
  | .skip => Json.mkObj [("sent", "SKIP")]
  | .stop => Json.mkObj [("sent", "STOP")]
  | .obj n => Json.mkObj [("obj", n)]
  | .list xs => Json.mkObj [("l", Json.arr (xs.map vToJson).toArray)]
  | .tuple xs => Json.mkObj [("t", Json.arr (xs.map vToJson).toArray)]
  | .dict es => Json.mkObj [("d", Json.arr (es.map (fun e => Json.arr #[vToJson e.1, vToJson e.2])).toArray)]

def arr (j : Json) : Except String (List Json) :=
  match j with
  | .arr a => .ok a.toList
  | _ => .error s!"expected array, got {j.compress}"

def topOfJson (j : Json) : Except String TOp := do
  let name ← j.getObjValAs? String "op"
  let val (k : String) : Except String V := do vOfJson #[] (← j.getObjVal? k)
  match name with
  | "item" => return .item (← val "k")
  | "add" => return .add (← val "v")
  | "mul" => return .mul (← j.getObjValAs? Int "n")
  | "or" => return .bor (← val "v")
  | "mod" => return .mod (← j.getObjValAs? Nat "n")
  | n => throw s!"bad T op {n}"

def fnOfJson (j : Json) : Except String Fn := do
  let name ← j.getObjValAs? String "fn"
  let nat (k : String) : Except String Nat := j.getObjValAs? Nat k
  let val (k : String) : Except String V := do vOfJson #[] (← j.getObjVal? k)
  match name with
  | "fold_sum" => return .foldSum
  | "fold_count" => return .foldCount
  | "t" => return .texpr (← (← arr (← j.getObjVal? "ops")).mapM topOfJson)
  | "cls" =>
    match (← j.getObjValAs? String "c") with
    | "type" => return .cls .type
    | "str" => return .cls .str
    | "bool" => return .cls .bool
    | "int" => return .cls .int
    | c => throw s!"bad class {c}"
  | "ident" => return .ident
  | "mod" => return .mod (← nat "n")
  | "item" => return .item (← val "k")
  | "skip_odd" => return .skipOdd
  | "skip_if" => return .skipIf (← val "v")
  | "key_skip" => return .keySkip (← nat "n")
  | "stop_at" => return .stopAt (← j.getObjValAs? Int "n")
  | "id_of" => return .idOf (← nat "n")
  | "id_if" => return .idIf (← val "v") (← nat "n")
  | "obj_if" => return .objIf (← val "v") (← nat "n")
  | "len" => return .len
  | "const" => return .const (← val "v")
  | n => throw s!"bad fn {n}"

def subFn (j : Json) : Except String Fn :=
  match j.getObjVal? "f" with
  | .ok f => fnOfJson f
  | .error _ => .ok .ident

def aggOfJson (j : Json) : Except String Agg := do
  let name ← j.getObjValAs? String "agg"
  if name == "first" then return Agg.first
  else if name == "max" then return Agg.max
  else if name == "min" then return Agg.min
  else if name == "avg" then return Agg.avg
  else if name == "count" then return Agg.count
  else if name == "sum" then return Agg.sum (← subFn j)
  else if name == "flatten" then return Agg.flatten (← subFn j)
  else if name == "merge" then return Agg.merge (← subFn j)
  else if name == "sample" then
    return Agg.sample (← j.getObjValAs? Nat "size") (← (← arr (← j.getObjVal? "tbl")).mapM (fun x => x.getNat?))
  else if name == "cls_last" then return Agg.clsLast
  else if name == "cls_count" then return Agg.clsCount
  else if name == "unbound" then return Agg.unbound
  else throw s!"bad agg {name}"

partial def specOfJson (j : Json) : Except String GSpec := do
  let k ← j.getObjValAs? String "k"
  if k == "dict" then
    let id ← j.getObjValAs? Nat "id"
    let kid ← j.getObjValAs? Nat "kid"
    let key ← fnOfJson (← j.getObjVal? "key")
    let sub ← specOfJson (← j.getObjVal? "sub")
    return GSpec.dict id kid key sub
  else if k == "list" then
    let id ← j.getObjValAs? Nat "id"
    let f ← fnOfJson (← j.getObjVal? "f")
    return GSpec.list id f
  else if k == "agg" then
    let oid ← j.getObjValAs? Nat "oid"
    let a ← aggOfJson (← j.getObjVal? "a")
    return GSpec.agg oid a
  else if k == "fn" then
    let f ← fnOfJson (← j.getObjVal? "f")
    return GSpec.fn f
  else if k == "limit" then
    let oid ← j.getObjValAs? Nat "oid"
    -- `Limit(n)` compares the int count with n (`count > n`): a negative n behaves as 0, a float n as
    -- its floor — the bound the model carries
    let n ← (match (← j.getObjVal? "n") with
      | .num q => pure (Int.fdiv q.mantissa ((10 : Int) ^ q.exponent)).toNat
      | x => throw s!"bad Limit bound {x.compress}")
    let sub ← specOfJson (← j.getObjVal? "sub")
    return GSpec.limit oid n sub
  else if k == "nested" then
    let gid ← j.getObjValAs? Nat "gid"
    let g ← specOfJson (← j.getObjVal? "g")
    return GSpec.nested gid g
  else if k == "fold_group" then
    let oid ← j.getObjValAs? Nat "oid"
    let kind ← (match (← j.getObjValAs? String "fold") with
      | "sum" => pure FoldKind.sum
      | "flatten" => pure FoldKind.flatten
      | "merge" => pure FoldKind.merge
      | x => throw s!"bad fold kind {x}")
    let gid ← j.getObjValAs? Nat "gid"
    let g ← specOfJson (← j.getObjVal? "g")
    return GSpec.foldG oid kind gid g
  else if k == "group_obj" then
    -- the spec object of this evaluation IS the Group object `gid` that also occurs nested in
    -- another spec of the history: Group(g) itself, not wrapped again
    specOfJson (← j.getObjVal? "g")
  else throw s!"bad spec kind {k}"

def obsOfJson (j : Json) : Except String EvalObs := do
  let res ← (if let .ok v := j.getObjVal? "ok" then do return Obs.ok (← vOfJson #[] v)
    else if let .ok c := j.getObjValAs? String "err" then return Obs.err c
    else throw s!"bad obs {j.compress}")
  let after ← (← arr (← j.getObjVal? "after")).mapM (vOfJson #[])
  let ident ← j.getObjValAs? Bool "ident"
  return ⟨res, after, ident⟩

def obsToJson (o : EvalObs) : Json :=
  let rest := [("after", Json.arr (o.after.map vToJson).toArray), ("ident", Json.bool o.ident)]
  match o.res with
  | .ok v => Json.mkObj (("ok", vToJson v) :: rest)
  | .err c => Json.mkObj (("err", Json.str c) :: rest)

def specTag : GSpec → String
  | .dict _ _ _ sub => "{" ++ specTag sub ++ "}"
  | .list .. => "[f]"
  | .agg _ .first => "First" | .agg _ .max => "Max" | .agg _ .min => "Min" | .agg _ .avg => "Avg"
  | .agg _ (.sum _) => "Sum" | .agg _ .count => "Count" | .agg _ (.flatten _) => "Flatten"
  | .agg _ (.merge _) => "Merge" | .agg _ (.sample ..) => "Sample" | .agg _ .clsLast => "clsLast"
  | .agg _ .clsCount => "clsCount" | .agg _ .unbound => "unbound"
  | .fn _ => "f"
  | .limit _ _ sub => "Limit(" ++ specTag sub ++ ")"
  | .nested _ g => "Group(" ++ specTag g ++ ")"
  | .foldG _ _ _ g => "Fold(Group(" ++ specTag g ++ "))"

/-- Max / Min over lists or tuples: Python compares them lexicographically, the model's
    `pyLt` covers numbers and strings only -/
def cmpUnsupported : GSpec → List V → Bool
  | .agg _ .max, its | .agg _ .min, its => its.any isSeqV
  | .dict _ _ _ sub, its => cmpUnsupported sub its
  | .limit _ _ sub, its => cmpUnsupported sub its
  | .nested _ g, its => its.any (fun x => cmpUnsupported g ((iterOf x).getD []))
  | .foldG _ _ _ g, its => its.any (fun x => cmpUnsupported g ((iterOf x).getD []))
  | _, _ => false

/-- hashable in Python: no list / dict inside -/
def pyHashable : V → Bool
  | .list _ | .dict _ => false
  | .tuple xs => pyHashableL xs
  | _ => true
where pyHashableL : List V → Bool
  | [] => true
  | x :: xs => pyHashable x && pyHashableL xs

/-- bucket keys Python can hash that are outside the modelled key domain: tuples inside tuples -/
def keyUnsupported : GSpec → List V → Bool
  | .dict _ _ key sub, its =>
    its.any (fun x => pyHashable (key.val x) && !(hashable (key.val x))) || keyUnsupported sub its
  | .limit _ _ sub, its => keyUnsupported sub its
  | .nested _ g, its => its.any (fun x => keyUnsupported g ((iterOf x).getD []))
  | .foldG _ _ _ g, its => its.any (fun x => keyUnsupported g ((iterOf x).getD []))
  | _, _ => false

/-- which classes of the generator a spec uses (for the histogram) -/
def fnFeat : Fn → String
  | .texpr _ => "T" | .cls _ => "C" | _ => ""

def specFeat : GSpec → String
  | .dict _ _ key sub => fnFeat key ++ specFeat sub
  | .list _ f => fnFeat f
  | .fn f => fnFeat f
  | .agg _ (.sum f) | .agg _ (.flatten f) | .agg _ (.merge f) => fnFeat f
  | .agg _ .clsLast | .agg _ .clsCount | .agg _ .unbound => "C"
  | .limit _ _ sub => specFeat sub
  | .nested _ g => specFeat g
  | .foldG _ _ _ g => specFeat g
  | _ => ""

def hasFloat : V → Bool
  | .float _ => true
  | .int i => i ≥ 9007199254740992 || i ≤ -9007199254740992
  | _ => false

def run (j : Json) : Except String Json := do
  let specs ← (← arr (← j.getObjVal? "specs")).mapM specOfJson
  -- shared objects: each may refer to earlier ones
  let shared ← (← arr (← j.getObjVal? "shared")).foldlM (fun (acc : Array V) x => do return acc.push (← vOfJson acc x)) #[]
  let targets ← (← arr (← j.getObjVal? "targets")).mapM (fun r => do (← arr r).mapM (vOfJson shared))
  let evals ← (← arr (← j.getObjVal? "evals")).mapM (fun e => match e with
    | .arr #[a, b] => do return ((← a.getNat?), (← b.getNat?))
    | _ => throw s!"bad eval {e.compress}")
  let implObs ← (← arr (← j.getObjVal? "impl")).mapM obsOfJson
  -- deviation classes the harness asks to be ACCEPTED for now (their `known:` line is not yet in
  -- KNOWN_FINDINGS.txt); [] once they are: then they are reported as known findings
  let accept ← (← arr (← j.getObjVal? "accept")).mapM (fun x => x.getStr?)
  -- the (spec, items) pairs the history evaluates
  let pairs := evals.filterMap (fun e => match specs[e.1]?, targets[e.2]? with
    | some g, some its => some (g, its)
    | _, _ => none)
  if pairs.length != evals.length then throw "eval index out of range"
  if implObs.length != evals.length then throw "one observation per evaluation expected"
  if pairs.any (fun p => keyUnsupported p.1 p.2) then
    return Json.mkObj [("skip", true), ("why", "a tuple inside a tuple used as a bucket key")]
  if pairs.any (fun p => cmpUnsupported p.1 p.2) then
    return Json.mkObj [("skip", true), ("why", "Max/Min over sequences")]
  let modelObs := observeHistory specs targets evals
  let agree := modelObs == implObs
  -- per evaluation: (spec, items), implementation, model
  let rows := (pairs.zip implObs).zip modelObs
  -- the deviation class of a failing evaluation — only when the implementation does there exactly
  -- what the MODEL of the current code does (any other deviation has no class)
  let classOf (r : ((GSpec × List V) × EvalObs) × EvalObs) : String :=
    if checkEval r.1.1.1 r.1.1.2 r.1.2 then "" else
    if !(r.1.2 == r.2) then "?" else
    match r.1.2.res with
    | .ok v => let c := devClass r.1.1.1 r.1.1.2 v; if c == "" then "?" else c
    | .err _ =>
      -- a collision of a bucket key with id(spec dict) can also end in a KeyError / TypeError
      if !(slotApart r.1.1.1 r.1.1.2) then "tree_key_collision" else "?"
  let classes := (rows.map classOf).filter (fun c => c != "")
  let pending := classes.filter (fun c => accept.contains c)
  let open_ := classes.filter (fun c => !(accept.contains c))
  let holds := open_.isEmpty
  let modelHolds := checkC16 specs targets evals modelObs
  let wf := pairs.all (fun p => wfRun p.1 p.2)
  let ef := pairs.all (fun p => eventFree p.1 p.2)
  let h2 := pairs.all (fun p => keysApart p.1 p.2)
  let cov := pairs.all (fun p => !(wfRun p.1 p.2) || covered p.1 p.2)
  -- the exact form of what the code computes (c16_exact), evaluated on the implementation
  let exact := (pairs.zip implObs).all (fun po =>
    !(wfRun po.1.1 po.1.2 && slotApart po.1.1 po.1.2 && noSkipBelow false po.1.1 po.1.2) ||
      po.2.res == .ok (implTop po.1.1 po.1.2))
  -- the class of the FIRST failing evaluation ("" when it has none: then the failure is new)
  let shape := match open_ with
    | c :: _ => if c == "?" then "" else c
    | [] => ""
  let first := match modelObs with
    | ⟨.ok _, _, _⟩ :: _ => "ok"
    | ⟨.err c, _, _⟩ :: _ => s!"err-{c}"
    | [] => "no-run"
  let spec0 := specs.head?.getD default
  let feat := String.join ((specs.map specFeat).map id)
  let anyFloat := targets.any (fun t => t.any hasFloat)
  let featTag := (if feat.contains 'T' then ":tarith" else "") ++ (if feat.contains 'C' then ":clsobj" else "") ++
    (if specs.length > 1 then ":hist" else "") ++ (if anyFloat then ":float" else "") ++
    (if wf then "" else ":nonwf") ++ (if pending.isEmpty then "" else ":pending-" ++ (pending.headD ""))
  return Json.mkObj [("agree", agree), ("holds", holds), ("model_holds", modelHolds),
    ("facts_wf", genWF), ("wf", wf), ("event_free", ef), ("h2", h2), ("covered", cov),
    ("exact", exact), ("known_shape", shape), ("pending_known", Json.arr (pending.map Json.str).toArray),
    ("classes", Json.arr (classes.map Json.str).toArray),
    ("model", Json.arr (modelObs.map obsToJson).toArray),
    ("expected", Json.arr (pairs.map (fun p => vToJson (valOfTop p.1 p.2))).toArray),
    ("branch", s!"{specTag spec0}:{first}{if ef then "" else ":stop"}{if h2 then "" else ":collide"}{featTag}")]

end Glom.C16.Driver
