import Lean.Data.Json
import Glom.Spec.C16
import Glom.Model.C16Env
/-
  C16 driver.

  case: {"spec":GSpec, "runs":[[V…]…], "impl":[Obs…]}      (one spec object, evaluated on each run in turn)
  V:     null | {"b":…} | {"i":…} | {"s":…} | {"fbits":"<uint64>"} | {"sent":"SKIP"|"STOP"} | {"obj":n}
         | {"id":n}  (= id(container n)) | {"l":[V…]} | {"t":[V…]} | {"d":[[V,V]…]}
  Fn:    {"fn":name, …args}
  GSpec: {"k":"dict","id":n,"kid":m,"key":Fn,"sub":GSpec} | {"k":"list","id":n,"f":Fn}
         | {"k":"agg","oid":n,"a":{"agg":name,"f":Fn?}} | {"k":"fn","f":Fn}
         | {"k":"limit","oid":n,"n":k,"sub":GSpec} | {"k":"nested","g":GSpec}
  Obs:   {"ok":V} | {"err":cls}
-/
namespace Glom.C16.Driver
open Lean Glom.C16

partial def vOfJson (j : Json) : Except String V :=
  match j with
  | .null => .ok .none
  | .obj _ =>
    if let .ok b := j.getObjValAs? Bool "b" then .ok (.bool b)
    else if let .ok i := j.getObjValAs? Int "i" then .ok (.int i)
    else if let .ok s := j.getObjValAs? String "s" then .ok (.str s)
    else if let .ok s := j.getObjValAs? String "fbits" then
      match s.toNat? with
      | some n => .ok (.float n.toUInt64)
      | none => .error s!"bad fbits {s}"
    else if let .ok s := j.getObjValAs? String "sent" then
      if s == "SKIP" then .ok .skip else if s == "STOP" then .ok .stop else .error s!"bad sentinel {s}"
    else if let .ok n := j.getObjValAs? Nat "obj" then .ok (.obj n)
    else if let .ok n := j.getObjValAs? Nat "id" then .ok (idKey n)
    else if let .ok (.arr a) := j.getObjVal? "l" then do return .list (← a.toList.mapM vOfJson)
    else if let .ok (.arr a) := j.getObjVal? "t" then do return .tuple (← a.toList.mapM vOfJson)
    else if let .ok (.arr a) := j.getObjVal? "d" then do
      return .dict (← a.toList.mapM (fun e => match e with
        | .arr #[k, v] => do return (← vOfJson k, ← vOfJson v)
        | _ => throw s!"bad pair {e.compress}"))
    else .error s!"bad V {j.compress}"
  | _ => .error s!"bad V {j.compress}"

partial def vToJson : V → Json
  | .none => .null
  | .bool b => Json.mkObj [("b", b)]
  | .int i =>
    if i ≥ idBase then Json.mkObj [("id", toJson (i - idBase))] else Json.mkObj [("i", toJson i)]
  | .str s => Json.mkObj [("s", s)]
  | .float b => Json.mkObj [("fbits", toString b.toNat)]
  | .skip => Json.mkObj [("sent", "SKIP")]
  | .stop => Json.mkObj [("sent", "STOP")]
  | .obj n => Json.mkObj [("obj", n)]
  | .list xs => Json.mkObj [("l", Json.arr (xs.map vToJson).toArray)]
  | .tuple xs => Json.mkObj [("t", Json.arr (xs.map vToJson).toArray)]
  | .dict es => Json.mkObj [("d", Json.arr (es.map (fun e => Json.arr #[vToJson e.1, vToJson e.2])).toArray)]

def fnOfJson (j : Json) : Except String Fn := do
  let name ← j.getObjValAs? String "fn"
  let nat (k : String) : Except String Nat := j.getObjValAs? Nat k
  let val (k : String) : Except String V := do vOfJson (← j.getObjVal? k)
  match name with
  | "ident" => return .ident
  | "mod" => return .mod (← nat "n")
  | "item" => return .item (← val "k")
  | "skip_odd" => return .skipOdd
  | "skip_if" => return .skipIf (← val "v")
  | "key_skip" => return .keySkip (← nat "n")
  | "stop_at" => return .stopAt (← j.getObjValAs? Int "n")
  | "id_of" => return .idOf (← nat "n")
  | "id_if" => return .idIf (← val "v") (← nat "n")
  | "obj_if" => return .objIf (← val "v") (← nat "n")
  | "len" => return .len
  | "const" => return .const (← val "v")
  | n => throw s!"bad fn {n}"

def subFn (j : Json) : Except String Fn :=
  match j.getObjVal? "f" with
  | .ok f => fnOfJson f
  | .error _ => .ok .ident

def aggOfJson (j : Json) : Except String Agg := do
  let name ← j.getObjValAs? String "agg"
  if name == "first" then return Agg.first
  else if name == "max" then return Agg.max
  else if name == "min" then return Agg.min
  else if name == "avg" then return Agg.avg
  else if name == "count" then return Agg.count
  else if name == "sum" then return Agg.sum (← subFn j)
  else if name == "flatten" then return Agg.flatten (← subFn j)
  else if name == "merge" then return Agg.merge (← subFn j)
  else throw s!"bad agg {name}"

partial def specOfJson (j : Json) : Except String GSpec := do
  let k ← j.getObjValAs? String "k"
  if k == "dict" then
    let id ← j.getObjValAs? Nat "id"
    let kid ← j.getObjValAs? Nat "kid"
    let key ← fnOfJson (← j.getObjVal? "key")
    let sub ← specOfJson (← j.getObjVal? "sub")
    return GSpec.dict id kid key sub
  else if k == "list" then
    let id ← j.getObjValAs? Nat "id"
    let f ← fnOfJson (← j.getObjVal? "f")
    return GSpec.list id f
  else if k == "agg" then
    let oid ← j.getObjValAs? Nat "oid"
    let a ← aggOfJson (← j.getObjVal? "a")
    return GSpec.agg oid a
  else if k == "fn" then
    let f ← fnOfJson (← j.getObjVal? "f")
    return GSpec.fn f
  else if k == "limit" then
    let oid ← j.getObjValAs? Nat "oid"
    let n ← j.getObjValAs? Nat "n"
    let sub ← specOfJson (← j.getObjVal? "sub")
    return GSpec.limit oid n sub
  else if k == "nested" then
    let g ← specOfJson (← j.getObjVal? "g")
    return GSpec.nested g
  else throw s!"bad spec kind {k}"

def obsOfJson (j : Json) : Except String Obs := do
  if let .ok v := j.getObjVal? "ok" then return .ok (← vOfJson v)
  else if let .ok c := j.getObjValAs? String "err" then return .err c
  else throw s!"bad obs {j.compress}"

def obsToJson : Obs → Json
  | .ok v => Json.mkObj [("ok", vToJson v)]
  | .err c => Json.mkObj [("err", c)]

def arr (j : Json) : Except String (List Json) :=
  match j with
  | .arr a => .ok a.toList
  | _ => .error s!"expected array, got {j.compress}"

def specTag : GSpec → String
  | .dict _ _ _ sub => "{" ++ specTag sub ++ "}"
  | .list .. => "[f]"
  | .agg _ .first => "First" | .agg _ .max => "Max" | .agg _ .min => "Min" | .agg _ .avg => "Avg"
  | .agg _ (.sum _) => "Sum" | .agg _ .count => "Count" | .agg _ (.flatten _) => "Flatten"
  | .agg _ (.merge _) => "Merge"
  | .fn _ => "f"
  | .limit _ _ sub => "Limit(" ++ specTag sub ++ ")"
  | .nested g => "Group(" ++ specTag g ++ ")"

/-- a SKIP-producing bare function under a key level: the implementation orders such keys by
    their first *value*; the reference (keys in order of first occurrence) does not cover it -/
def skipLeafBelow (below : Bool) : GSpec → List V → Bool
  | .fn f, its => below && its.any (fun x => isSkip (f.val x))
  | .nested (.fn _), _ => below
  | .nested (.nested _), _ => below
  | .dict _ _ _ sub, its => skipLeafBelow true sub its
  | .limit _ _ sub, its => skipLeafBelow below sub its
  | _, _ => false

/-- Max / Min over lists or tuples: Python compares them lexicographically, the model's
    `pyLt` covers ints and strings only -/
def cmpUnsupported : GSpec → List V → Bool
  | .agg _ .max, its | .agg _ .min, its => its.any isSeqV
  | .dict _ _ _ sub, its => cmpUnsupported sub its
  | .limit _ _ sub, its => cmpUnsupported sub its
  | .nested g, its => its.any (fun x => cmpUnsupported g ((iterOf x).getD []))
  | _, _ => false

/-- tuple / float bucket keys: hashable in Python, outside the modelled key domain -/
def keyUnsupported : GSpec → List V → Bool
  | .dict _ _ key sub, its =>
    its.any (fun x => match key.val x with | .tuple _ | .float _ => true | _ => false) || keyUnsupported sub its
  | .limit _ _ sub, its => keyUnsupported sub its
  | .nested g, its => its.any (fun x => keyUnsupported g ((iterOf x).getD []))
  | _, _ => false

def run (j : Json) : Except String Json := do
  let spec ← specOfJson (← j.getObjVal? "spec")
  let runs ← (← arr (← j.getObjVal? "runs")).mapM (fun r => do (← arr r).mapM vOfJson)
  let implObs ← (← arr (← j.getObjVal? "impl")).mapM obsOfJson
  if runs.any (skipLeafBelow false spec) then
    return Json.mkObj [("skip", true), ("why", "SKIP-producing bare function under a key level")]
  if runs.any (keyUnsupported spec) then
    return Json.mkObj [("skip", true), ("why", "tuple used as a bucket key")]
  if runs.any (cmpUnsupported spec) then
    return Json.mkObj [("skip", true), ("why", "Max/Min over sequences")]
  let modelObs := runs.map (fun its => observe (groupEval spec its))
  let agree := modelObs == implObs
  let holds := checkC16 spec runs implObs
  let modelHolds := checkC16 spec runs modelObs
  let wf := runs.all (wfRun spec)
  let h1 := runs.all (stopFree false spec)
  let h2 := runs.all (keysApart spec)
  let shape :=
    if !h2 then "tree_key_collision"
    else if runs.any (f9Shape spec) then "first_under_varying_key"
    else ""
  let first := match modelObs with
    | .ok _ :: _ => "ok"
    | .err c :: _ => s!"err-{c}"
    | [] => "no-run"
  return Json.mkObj [("agree", agree), ("holds", holds), ("model_holds", modelHolds),
    ("facts_wf", genWF), ("wf", wf), ("h1", h1), ("h2", h2), ("known_shape", shape),
    ("model", Json.arr (modelObs.map obsToJson).toArray),
    ("expected", Json.arr (runs.map (fun its => vToJson (valOfTop spec its))).toArray),
    ("branch", s!"{specTag spec}:{first}{if h1 then "" else ":stop"}{if h2 then "" else ":collide"}")]

end Glom.C16.Driver
