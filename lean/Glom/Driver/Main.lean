import Lean.Data.Json
/-
  Shared main loop of the per-property drivers: reads one JSON case per line on
  stdin   {"case":17, …case fields…}   and writes one JSON verdict per line
  {"case":17,"agree":…,"holds":…,"model":…}.  Decoding errors are reported as
  {"case":…,"error":…} (never silently dropped).
-/
namespace Glom
open Lean

def handleLine (run : Json → Except String Json) (line : String) : String :=
  match Json.parse line with
  | .error e => (Json.mkObj [("error", s!"json: {e}")]).compress
  | .ok j =>
    let case := (j.getObjVal? "case").toOption.getD Json.null
    match run j with
    | .ok r => (r.setObjVal! "case" case).compress
    | .error e => (Json.mkObj [("case", case), ("error", e)]).compress

partial def driverLoop (run : Json → Except String Json) (h : IO.FS.Stream) (out : IO.FS.Stream) :
    IO Unit := do
  let line ← h.getLine
  if line.isEmpty then return ()
  let t := line.trimAscii.toString
  if !t.isEmpty then
    out.putStrLn (handleLine run t)
  driverLoop run h out

def driverMain (run : Json → Except String Json) : IO Unit := do
  let out ← IO.getStdout
  driverLoop run (← IO.getStdin) out
  out.flush

end Glom
