import Glom.Driver.Main
import Glom.Driver.C13

def main : IO Unit := Glom.driverMain Glom.C13.Driver.run
