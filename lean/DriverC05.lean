import Glom.Driver.Main
import Glom.Driver.C05

def main : IO Unit := Glom.driverMain Glom.C05.Driver.run
