import Glom.Driver.Main
import Glom.Driver.C04

def main : IO Unit := Glom.driverMain Glom.C04.Driver.run
