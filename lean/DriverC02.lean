import Glom.Driver.Main
import Glom.Driver.C02

def main : IO Unit := Glom.driverMain Glom.C02.Driver.run
