import Glom.Driver.Main
import Glom.Driver.C09

def main : IO Unit := Glom.driverMain Glom.C09.Driver.run
