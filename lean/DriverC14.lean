import Glom.Driver.Main
import Glom.Driver.C14

def main : IO Unit := Glom.driverMain Glom.C14.Driver.run
