import Glom.Driver.C01
/-
  verif_driver: reads one JSON case per line on stdin
     {"prop":"C01","case":17, …case fields…}
  and writes one JSON verdict per line
     {"case":17,"agree":…,"holds":…,"model":…}
  Errors in decoding are reported as {"case":…,"error":…} (never silently dropped).
-/
open Lean

def dispatch (prop : String) (j : Json) : Except String Json :=
  match prop with
  | "C01" => Glom.C01.Driver.run j
  | _ => .error s!"unknown property {prop}"

def handleLine (line : String) : String :=
  match Json.parse line with
  | .error e => (Json.mkObj [("error", s!"json: {e}")]).compress
  | .ok j =>
    let case := (j.getObjVal? "case").toOption.getD Json.null
    match j.getObjValAs? String "prop" with
    | .error e => (Json.mkObj [("case", case), ("error", e)]).compress
    | .ok prop =>
      match dispatch prop j with
      | .ok r => (r.setObjVal! "case" case).compress
      | .error e => (Json.mkObj [("case", case), ("error", e)]).compress

partial def loop (h : IO.FS.Stream) (out : IO.FS.Stream) : IO Unit := do
  let line ← h.getLine
  if line.isEmpty then return ()
  let t := line.trimAscii.toString
  if !t.isEmpty then
    out.putStrLn (handleLine t)
  loop h out

def main : IO Unit := do
  let out ← IO.getStdout
  loop (← IO.getStdin) out
  out.flush
