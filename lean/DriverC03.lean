import Glom.Driver.Main
import Glom.Driver.C03

def main : IO Unit := Glom.driverMain Glom.C03.Driver.run
