import Glom.Props.C01
import Glom.Driver.C01
