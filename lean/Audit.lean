import Lean
/-
  Axiom audit.  `lake env lean --run Audit.lean Glom.Props.C01 [more modules…]`
  loads the compiled modules and prints, as one JSON object per module, every
  theorem declared in that module with the axioms it depends on (transitively).
  The check fails a property whose theorems use anything outside
  {propext, Classical.choice, Quot.sound}.
-/
open Lean

def auditModule (mod : Name) : IO Json := do
  let env ← importModules #[{module := mod}] {} (trustLevel := 0)
  let some idx := env.getModuleIdx? mod | throw (IO.userError s!"module {mod} not found")
  let mut out : Array Json := #[]
  let consts := env.constants.map₁.toList
  let mut names : Array Name := #[]
  for (n, ci) in consts do
    if env.getModuleIdxFor? n == some idx then
      match ci with
      | .thmInfo _ =>
        let last := n.getString!
        if !n.isInternal && (`Glom.Props).isPrefixOf n && !last.startsWith "eq_" && !last.startsWith "match_" then
          names := names.push n
      | _ => pure ()
  let sorted := names.qsort (fun a b => a.toString < b.toString)
  for n in sorted do
    let (axs, _) ← ((collectAxioms n : CoreM (Array Name)).toIO
        { fileName := "<audit>", fileMap := default } { env := env })
    out := out.push (Json.mkObj [("theorem", n.toString),
      ("axioms", Json.arr (axs.map (fun a => Json.str a.toString)))])
  return Json.mkObj [("module", mod.toString), ("theorems", Json.arr out)]

def main (args : List String) : IO UInt32 := do
  initSearchPath (← findSysroot)
  for a in args do
    let j ← auditModule a.toName
    IO.println j.compress
  return 0
