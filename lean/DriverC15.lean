import Glom.Driver.Main
import Glom.Driver.C15

def main : IO Unit := Glom.driverMain Glom.C15.Driver.run
