import Glom.Driver.Main
import Glom.Driver.C16

def main : IO Unit := Glom.driverMain Glom.C16.Driver.run
