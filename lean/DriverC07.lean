import Glom.Driver.Main
import Glom.Driver.C07

def main : IO Unit := Glom.driverMain Glom.C07.Driver.run
